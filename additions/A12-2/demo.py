import os, sys; sys.path.insert(0, os.getcwd())

# Change 2: ListOfDicts._split_join_by raises the TypeError for "no keys to
# join by" itself, instead of leaving it to operator.itemgetter() in the
# next statement of anti_join, inner_join, left_join and semi_join.
# Everything else must be exactly as before.

import contextlib
import io

from dataiter import ListOfDicts

FAILURES = []

def check(ok, what):
    if not ok:
        FAILURES.append(what)
        print("MISMATCH:", what)

class Old(ListOfDicts):
    # The same class with the helper as it was before the change (reference).
    def _split_join_by(self, *by):
        by1 = [x if isinstance(x, str) else x[0] for x in by]
        by2 = [x if isinstance(x, str) else x[1] for x in by]
        return by1, by2

nan = float("nan")
LEFT = [{"id": 1, "x": "a"}, {"id": 2, "x": "b"}, {"id": 2, "x": "c"},
        {"id": None, "x": None}, {"id": nan, "x": "e"}, {"id": 5, "x": "f"}]
RIGHT = [{"id": 2, "key": 2, "y": 20, "x": "b"}, {"id": 2, "key": 2, "y": 21, "x": "zz"},
         {"id": None, "key": None, "y": None, "x": None}, {"id": 7, "key": 1, "y": 70, "x": "a"}]

def lefts(cls):
    yield "ordinary", lambda: cls(LEFT)
    yield "empty", lambda: cls([])
    yield "one item", lambda: cls(LEFT[1:2])
    yield "grouped", lambda: cls(LEFT).group_by("x")
    yield "sliced", lambda: cls(LEFT)[1:5]

def rights(cls):
    yield "ordinary", lambda: cls(RIGHT)
    yield "empty", lambda: cls([])
    yield "one item", lambda: cls(RIGHT[:1])
    yield "plain list", lambda: [dict(x) for x in RIGHT]
    yield "plain empty list", lambda: []
    yield "tuple of dicts", lambda: tuple(dict(x) for x in RIGHT)
    yield "generator", lambda: (dict(x) for x in RIGHT)
    yield "None", lambda: None
    yield "other class", lambda: ListOfDicts(RIGHT)

BYS = [(), ("id",), ("id", "x"), (("id", "key"),), (["id", "key"],), (("id", "key"), "x"),
       ("nope",), ("",), (("id",),), ((),), ([],), (1,), (None,), (("id", "key", "y"),),
       ("y",), (("x", "y"),)]
JOINS = ["anti_join", "semi_join", "inner_join", "left_join", "full_join"]

def snapshot(x):
    if isinstance(x, (list, tuple)):
        return [repr(sorted(y.items(), key=str)) if isinstance(y, dict) else repr(y) for y in x]
    return repr(type(x))

def outcome(join, a, b, by):
    out = io.StringIO()
    try:
        with contextlib.redirect_stdout(out):
            value = getattr(a, join)(b, *by)
        result = ("ok",
                  isinstance(value, ListOfDicts),
                  [repr(list(x.items())) for x in value],
                  [type(x).__name__ for x in value],
                  value._group_keys,
                  value._predecessor is a,
                  # Which items of the result are the very dicts of a and b?
                  [[i for i, y in enumerate(a) if x is y] for x in value],
                  [[i for i, y in enumerate(b) if x is y] for x in value] if isinstance(b, (list, tuple)) else None)
    except Exception as error:
        result = ("exc", type(error).__name__)
    return (result, out.getvalue(), snapshot(a), snapshot(b),
            a._obsolete, a._obsolete_warned, a._group_keys,
            getattr(b, "_obsolete", None), getattr(b, "_group_keys", None))

count = 0
for join in JOINS:
    for (lname, lnew), (_, lold) in zip(lefts(ListOfDicts), lefts(Old)):
        for (rname, rnew), (_, rold) in zip(rights(ListOfDicts), rights(Old)):
            for by in BYS:
                a1, b1, a2, b2 = lnew(), rnew(), lold(), rold()
                for call in (1, 2):
                    # The second call runs on the objects the first one left behind.
                    new = outcome(join, a1, b1, by)
                    old = outcome(join, a2, b2, by)
                    count += 1
                    check(new == old, f"{join} {lname} / {rname} by={by} call {call}:\n  {new}\n  {old}")
print(count, "comparisons with the old helper")

# Expected values built by hand, not with the library.

def expect_exception(cls, function, what, message=None):
    try:
        function()
    except Exception as error:
        check(type(error) is cls, f"{what}: {type(error).__name__} instead of {cls.__name__}")
        if message is not None:
            check(message in str(error), f"{what}: message {error!s}")
    else:
        check(False, f"{what}: no exception")

a = [{"id": 1, "x": "a"}, {"id": 2, "x": "b"}, {"id": 3, "x": "c"}]
b = [{"id": 2, "y": 20}, {"id": 2, "y": 21}, {"id": 4, "y": 40}]
L = lambda x: ListOfDicts([dict(y) for y in x])
check(list(map(dict, L(a).anti_join(L(b), "id"))) == [a[0], a[2]], "anti_join by hand")
check(list(map(dict, L(a).semi_join(L(b), "id"))) == [a[1]], "semi_join by hand")
check(list(map(dict, L(a).inner_join(L(b), "id"))) == [{"id": 2, "x": "b", "y": 20}], "inner_join by hand")
check(list(map(dict, L(a).left_join(L(b), "id"))) == [a[0], {"id": 2, "x": "b", "y": 20}, a[2]], "left_join by hand")
check(list(map(dict, L(a).full_join(L(b), "id"))) == [a[0], {"id": 2, "x": "b", "y": 20}, {"id": 2, "x": "b", "y": 21}, a[2], {"id": 4, "y": 40}], "full_join by hand")
check(list(map(dict, L(a).left_join(L([{"key": 3, "y": 30}]), ("id", "key")))) == [a[0], a[1], {"id": 3, "x": "c", "y": 30}], "left_join with a pair by hand")
for join in JOINS:
    for x, y in [(a, b), ([], []), (a, []), ([], b), (a[:1], b[:1])]:
        data, other = L(x), L(y)
        expect_exception(TypeError, lambda: getattr(data, join)(other), f"{join} without keys", "join")
        check(data._obsolete is False and other._obsolete is False, f"{join} without keys: nothing marked obsolete")
        check(list(map(dict, data)) == x and list(map(dict, other)) == y, f"{join} without keys: items untouched")
    # Other bad keys keep their own exceptions.
    expect_exception(KeyError, lambda: getattr(L(a), join)(L(b), "nope"), f"{join} by an unknown key")
    expect_exception(IndexError, lambda: getattr(L(a), join)(L(b), ()), f"{join} by an empty tuple")
    expect_exception(IndexError, lambda: getattr(L(a), join)(L(b), ("id",)), f"{join} by a tuple of one")
    expect_exception(TypeError, lambda: getattr(L(a), join)(L(b), 1), f"{join} by an integer")

print("FAILURES:", len(FAILURES))
sys.exit(1 if FAILURES else 0)
