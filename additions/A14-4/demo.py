import os, sys; sys.path.insert(0, os.getcwd())

# Change 4: di.sum of a string vector / string column no longer fails when
# there is nothing to sum (everything missing and dropped, or empty).
# The reported case gives "", everything else is compared against verbatim
# copies of the old code and against sums made with plain Python.

import datetime
import warnings
import numpy as np

warnings.simplefilter("ignore")

import dataiter as di
from dataiter import Vector, dt
from dataiter import aggregate as agg

def old_sum(x, *, drop_na=True):
    # Verbatim copy of the function before the change (without @composite).
    if isinstance(x, str):
        def aggregate(data):
            f = (agg.generic, agg.generic_numba)
            f = agg.select(f, data, x)(np.sum)
            aggregate.default = 0
            return f(data[x],
                     data._group_,
                     drop_na=(
                         drop_na and
                         data[x].is_na().any()),
                     default=0,
                     nrequired=0)

        aggregate.group_aware = True
        return aggregate
    x = agg.handle_na(x, drop_na)
    return agg.item(np.sum(x))

def run(f):
    try:
        return ("ok", f())
    except BaseException as e:
        return ("error", type(e), str(e).split("\n")[0])

def same_scalar(a, b):
    if a[0] != b[0]: return False
    if a[0] == "error": return a[1:] == b[1:]
    a, b = a[1], b[1]
    return type(a) is type(b) and repr(a) == repr(b)

def same_frame(a, b):
    if a[0] != b[0]: return False
    if a[0] == "error": return a[1:] == b[1:]
    a, b = a[1], b[1]
    return (a.colnames == b.colnames and
            all(type(a[k]) is type(b[k]) and a[k].dtype == b[k].dtype and
                [(type(v), repr(v)) for v in a[k].tolist()] == [(type(v), repr(v)) for v in b[k].tolist()] and
                [(type(v), repr(v)) for v in a[k]] == [(type(v), repr(v)) for v in b[k]]
                for k in a.colnames))

# ---------------------------------------------------------------------
# 1. The reported case.

# Vector form: nothing left after dropping missing values, or empty.
for x in [Vector(["", ""]), Vector([""]), Vector([], str), Vector(["", ""])[:0]]:
    assert run(lambda: old_sum(x))[:2] == ("error", ValueError)
    got = di.sum(x)
    assert type(got) is str and got == "", got
assert run(lambda: old_sum(Vector([], str), drop_na=False))[:2] == ("error", ValueError)
assert di.sum(Vector([], str), drop_na=False) == ""

# Grouped form: a group with only missing strings.
data = di.DataFrame(g=[1, 1, 1, 2, 2, 3], x=["a", "", "ä", "", "", "😀"])
assert run(lambda: data.group_by("g").aggregate(y=old_sum("x")))[:2] == ("error", ValueError)
stat = data.group_by("g").aggregate(y=di.sum("x"))
assert stat.g.tolist() == [1, 2, 3]
assert stat.y.is_string() and [x for x in stat.y] == ["aä", "", "😀"], stat.y
assert stat.y.is_na().tolist() == [False, True, False]
# All groups.
allna = di.DataFrame(g=[1, 1, 2], x=["", "", ""])
stat = allna.group_by("g").aggregate(y=di.sum("x"))
assert stat.y.is_string() and [x for x in stat.y] == ["", ""]

# ---------------------------------------------------------------------
# 2. Neighbours, vector form: everything that worked (or failed
#    otherwise) does exactly what it did.

NaT = np.datetime64("NaT")
vectors = {
    "str": Vector(["a", "", "ä", "😀"]),
    "str one": Vector(["a"]),
    "str blank kept": Vector(["", ""]),  # with drop_na=False only
    "str fixed": Vector.fast(np.array(["a", "", "b"])),
    "str fixed empty": Vector.fast(np.array([], "U1")),
    "str fixed all na": Vector.fast(np.array(["", ""])),
    "bytes": Vector([b"a", b"b"]),
    "bytes empty": Vector([], bytes),
    "empty float": Vector([]),
    "empty int": Vector([], int),
    "empty bool": Vector([], bool),
    "empty object": Vector([], object),
    "empty date": Vector([], "datetime64[D]"),
    "empty timedelta": Vector([], "timedelta64[s]"),
    "float": Vector([1.5, np.nan, np.inf, -1]),
    "float inf": Vector([np.inf, -np.inf]),
    "float all na": Vector([np.nan, np.nan]),
    "float32": Vector([1.5, np.nan], np.float32),
    "int": Vector([1, 2, 3]),
    "int extreme": Vector([2**63 - 1, 1]),
    "uint64": Vector([2**64 - 1, 0], np.uint64),
    "uint8": Vector([255, 255], np.uint8),
    "bool": Vector([True, True, False]),
    "object": Vector([1, None, 2.5], object),
    "object all na": Vector([None, None], object),
    "object str": Vector(["a", None, "b"], object),
    "date": Vector([np.datetime64("2020-01-01"), NaT]),
    "date all na": Vector([NaT, NaT]),
    "timedelta": Vector([3, "NaT", 4], "timedelta64[s]"),
    "timedelta all na": Vector(["NaT"], "timedelta64[s]"),
    "complex": Vector([1j, 2], complex),
}
n = 0
for name, v in vectors.items():
    for kwargs in [{}, {"drop_na": True}, {"drop_na": False}]:
        old = run(lambda: old_sum(v, **kwargs))
        new = run(lambda: di.sum(v, **kwargs))
        reported = v.is_string() and len(agg.handle_na(v, kwargs.get("drop_na", True))) == 0
        if reported:
            assert old[:2] == ("error", ValueError) and new == ("ok", ""), (name, kwargs, old, new)
        else:
            assert same_scalar(old, new), (name, kwargs, old, new)
            assert same_scalar(new, run(lambda: di.sum(v, **kwargs)))
        n += 1
for bad in [[1, 2], None, 1, np.array([1, 2])]:
    assert run(lambda: di.sum(bad))[:2] == ("error", TypeError)

# Plain Python expectations.
assert di.sum(Vector(["a", "", "ä", "😀"])) == "aä😀"
assert di.sum(Vector(["a", "", "ä", "😀"]), drop_na=False) == "aä😀"
assert di.sum(Vector(["", ""]), drop_na=False) == ""
assert di.sum(Vector([1, 2, 3])) == 6 and type(di.sum(Vector([1, 2, 3]))) is int
assert di.sum(Vector([])) == 0.0 and type(di.sum(Vector([]))) is float
assert di.sum(Vector([], int)) == 0 and type(di.sum(Vector([], int))) is int
assert di.sum(Vector([np.nan, np.nan])) == 0.0
assert np.isnan(di.sum(Vector([np.nan, 1.0]), drop_na=False))
assert di.sum(Vector([2**64 - 1, 0], np.uint64)) == 2**64 - 1
assert di.sum(Vector([], object)) == 0
assert di.sum(Vector([3, "NaT", 4], "timedelta64[s]")) == datetime.timedelta(seconds=7)

# ---------------------------------------------------------------------
# 3. Neighbours, grouped form (Numba and Python paths).

g = [1, 1, 1, 2, 2, 3]
columns = {
    "bool": Vector([True, False, True, True, True, False]),
    "bool na": Vector([True, None, True, None, None, False]),
    "f64": Vector([1.0, np.nan, 1.0, np.nan, np.nan, np.inf]),
    "f64 no na": Vector([1.0, 2.5, -np.inf, 0.0, -0.0, np.inf]),
    "f32": Vector([1.0, np.nan, 1.0, np.nan, np.nan, np.inf], np.float32),
    "i64": Vector([1, 2, 2, 2**62, 2**62, -1]),
    "i32": Vector([1, 2, 2, 3, 3, -1], np.int32),
    "u64": Vector([1, 2, 2, 3, 3, 2**64 - 1], np.uint64),
    "u8": Vector([255, 255, 2, 3, 3, 1], np.uint8),
    "date": dt.new(["2020-01-01", "NaT", "2020-01-01", "NaT", "NaT", "2021-01-01"]),
    "td": Vector([1, "NaT", 1, "NaT", "NaT", 5], "timedelta64[s]"),
    "td no na": Vector([1, 2, 3, 4, 5, 6], "timedelta64[D]"),
    "str": Vector(["a", "", "ä", "", "", "😀"]),
    "str no na": Vector(["a", "b", "ä", "c", "d", "😀"]),
    "str one na": Vector(["a", "b", "ä", "", "d", "😀"]),
    "str fixed": Vector.fast(np.array(["a", "", "b", "", "", "c"])),
    "obj": Vector([1, None, 2.5, None, None, 3], object),
    "obj str": Vector(["a", None, "b", "c", "d", "e"], object),
    "complex": Vector([1j, 2, 3, 4, 5, 6], complex),
}
frames = {}
for name, col in columns.items():
    frames[name] = di.DataFrame(g=g, x=col)
    frames[name + " / empty"] = di.DataFrame(g=g, x=col).slice([])
    frames[name + " / single row"] = di.DataFrame(g=g, x=col).slice([1])
    frames[name + " / two keys"] = di.DataFrame(g=g, h=[1, 2, 1, 1, 1, 1], x=col)
for name, data in frames.items():
    for kwargs in [{}, {"drop_na": True}, {"drop_na": False}]:
        by = ["g", "h"] if "h" in data.colnames else ["g"]
        for grouped in (True,):  # (aggregate needs a grouped frame)
            def aggregate(function):
                f = function("x", **kwargs)
                assert f.group_aware is True
                frame = data.group_by(*by) if grouped else data
                stat = frame.aggregate(y=f)
                assert f.default == 0 and type(f.default) is int
                # A second call of the same function object.
                assert same_frame(("ok", stat), ("ok", frame.aggregate(y=f)))
                return stat
            before = data.copy()
            old = run(lambda: aggregate(old_sum))
            new = run(lambda: aggregate(di.sum))
            assert same_frame(("ok", before), ("ok", data)), name
            col = data.x
            reported = False
            if col.is_string() and kwargs.get("drop_na", True) and data.nrow > 0:
                keys = list(zip(*[data[k].tolist() for k in by])) if grouped else [0] * data.nrow
                reported = any(all(col[i] == "" for i in range(data.nrow) if keys[i] == key) for key in set(keys))
            if reported:
                assert old[:2] == ("error", ValueError), (name, kwargs, grouped, old)
                assert new[0] == "ok" and new[1].y.is_string(), (name, kwargs, grouped, new)
                expected = {}
                for i in range(data.nrow):
                    expected[keys[i]] = expected.get(keys[i], "") + col[i]
                assert [x for x in new[1].y] == [expected[k] for k in sorted(expected)], (name, new[1])
            else:
                assert same_frame(old, new), (name, kwargs, grouped, old, new)
            n += 1

# Plain Python expectations.
stat = frames["i64"].group_by("g").aggregate(y=di.sum("x"))
assert stat.y.tolist() == [5, -2**63, -1]  # (int64 wraps around)
assert stat.y.dtype == np.dtype("int64")
stat = frames["f64"].group_by("g").aggregate(y=di.sum("x"))
assert stat.y.tolist() == [2.0, 0.0, np.inf] and stat.y.dtype == np.dtype("float64")
stat = frames["str"].group_by("g").aggregate(y=di.sum("x", drop_na=False))
assert [x for x in stat.y] == ["aä", "", "😀"] and stat.y.is_string()
stat = frames["str no na"].group_by("g").aggregate(y=di.sum("x"))
assert [x for x in stat.y] == ["abä", "cd", "😀"] and stat.y.is_string()
stat = frames["str one na"].group_by("g").aggregate(y=di.sum("x"))
assert [x for x in stat.y] == ["abä", "d", "😀"] and stat.y.is_string()
stat = frames["td"].group_by("g").aggregate(y=di.sum("x"))
assert stat.y.tolist() == [datetime.timedelta(seconds=2), datetime.timedelta(0), datetime.timedelta(seconds=5)]

print(f"OK, {n} combinations compared")
