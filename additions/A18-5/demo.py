import os, sys; sys.path.insert(0, os.getcwd())
import random
import numpy as np

import dataiter
from dataiter import ListOfDicts

MISSING = object()

def outcome(function, *args, **kwargs):
    try:
        return ("ok", function(*args, **kwargs))
    except Exception as error:
        return ("error", type(error), str(error))

# Independent expectations on a plain list. Only None (or no argument) means
# "use the option", which is looked up when the call is made; 0 and False
# are real requests for nothing.
def expected_head(items, n, option):
    if n is None:
        n = option
    n = min(len(items), n)
    return items[:n]

def expected_tail(items, n, option):
    if n is None:
        n = option
    n = min(len(items), n)
    return items[len(items)-n:]

def expected_sample(items, n, option):
    if n is None:
        n = option
    n = min(len(items), n)
    return [items[i] for i in sorted(random.sample(range(len(items)), n))]

ORIGINAL = dataiter.DEFAULT_PEEK_ITEMS
assert ORIGINAL == 3

NS = [MISSING, None, 0, 1, 2, 3, 5, 7, 8, 100, -1, -3, -100, True, False,
      np.int64(2), np.uint8(0), np.uint64(2**63), 2**70, -2**70,
      2.0, 2.5, 0.0, float("nan"), float("inf"), "", "2", [], (), [1]]

for length in [0, 1, 2, 3, 7, 30]:
    for option in [3, 0, 1, 5, 1000, -1]:
        # Option changed at run time, after import.
        dataiter.DEFAULT_PEEK_ITEMS = option
        for n in NS:
            args = () if n is MISSING else (n,)
            m = None if n is MISSING else n
            data = ListOfDicts({"i": i, "s": "ä" * i} for i in range(length)).group_by("i")
            items = list(data)
            for name, expected in [("head", expected_head), ("tail", expected_tail)]:
                want = outcome(expected, items, m, option)
                got = outcome(getattr(data, name), *args)
                if want[0] == "error":
                    assert got == want, (name, length, option, n, got, want)
                    continue
                assert got[0] == "ok", (name, length, option, n, got, want)
                new = got[1]
                assert type(new) is ListOfDicts
                assert len(new) == len(want[1]), (name, length, option, n, new, want)
                assert all(a is b for a, b in zip(new, want[1]))
                # Fresh list, shared dicts, group keys kept, self untouched.
                assert new is not data
                assert new._group_keys == ("i",)
                assert new._predecessor is data
                assert not data._obsolete and not new._obsolete
                assert len(data) == length and all(a is b for a, b in zip(data, items))
                list.append(new, {"i": -1})
                assert len(data) == length
            for keyword in [False, True]:
                if keyword and n is MISSING: continue
                random.seed(42)
                want = outcome(expected_sample, items, m, option)
                state_want = random.getstate()
                random.seed(42)
                got = outcome(data.sample, n=n) if keyword else outcome(data.sample, *args)
                state_got = random.getstate()
                if want[0] == "error":
                    assert got == want, ("sample", length, option, n, got, want)
                else:
                    assert got[0] == "ok", ("sample", length, option, n, got, want)
                    new = got[1]
                    assert type(new) is ListOfDicts and new is not data
                    assert len(new) == len(want[1])
                    assert all(a is b for a, b in zip(new, want[1]))
                    assert new._predecessor is data and new._group_keys == ("i",)
                # Same use of the random number generator.
                assert state_got == state_want, ("sample", length, option, n)
        # Keyword form.
        data = ListOfDicts({"i": i} for i in range(length))
        assert list(data.head(n=None)) == expected_head(list(data), None, option)
        assert list(data.tail(n=0)) == []
        assert list(data.head(n=0)) == []
        assert list(data.sample(n=0)) == []

# The option is not frozen at import or at first call.
data = ListOfDicts({"i": i} for i in range(10))
dataiter.DEFAULT_PEEK_ITEMS = 2
assert data.head().pluck("i") == [0, 1] and data.tail().pluck("i") == [8, 9] and len(data.sample()) == 2
dataiter.DEFAULT_PEEK_ITEMS = 4
assert data.head().pluck("i") == [0, 1, 2, 3] and data.tail().pluck("i") == [6, 7, 8, 9] and len(data.sample()) == 4
dataiter.DEFAULT_PEEK_ITEMS = 0
assert len(data.head()) == 0 and len(data.tail()) == 0 and len(data.sample()) == 0
assert len(data.head(1)) == 1
dataiter.DEFAULT_PEEK_ITEMS = None
assert outcome(data.head)[:2] == ("error", TypeError)
assert outcome(data.tail)[:2] == ("error", TypeError)
assert outcome(data.sample)[:2] == ("error", TypeError)
assert len(data.head(2)) == 2
dataiter.DEFAULT_PEEK_ITEMS = ORIGINAL

# Signatures unchanged.
import inspect
for name in ["head", "tail", "sample"]:
    assert str(inspect.signature(getattr(ListOfDicts, name))) == "(self, n=None)"
print("OK")
