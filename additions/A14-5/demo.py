import os, sys; sys.path.insert(0, os.getcwd())

# Change 5: dt.from_string accepts old-style fixed-width string arrays
# (dtype.kind "U") instead of failing with a bare AssertionError.
# The reported case is compared with strptime in plain Python, everything
# else against a verbatim copy of the old function.

import datetime
import warnings
import numpy as np

warnings.simplefilter("ignore")

from dataiter import Vector, dt, dtypes, util
from dataiter.dt import hour, minute, second, microsecond
from numpy.dtypes import StringDType

def old_from_string(x, format):
    # Verbatim copy of the function before the change.
    if util.is_scalar(x):
        x = Vector([x], str)
        return old_from_string(x, format)[0]
    assert isinstance(x, np.ndarray)
    assert isinstance(x.dtype, StringDType)
    out = np.full_like(x, None, object)
    out = Vector.fast(out, object)
    na = x == dtypes.string.na_object
    if na.all(): return out.as_datetime()
    f = np.vectorize(lambda x: datetime.datetime.strptime(x, format))
    out[~na] = f(x[~na].astype(object))
    out = out.as_datetime()
    if (len(out[~na]) > 0 and
        (hour(out[~na])   == 0).all() and
        (minute(out[~na]) == 0).all() and
        (second(out[~na]) == 0).all() and
        (microsecond(out[~na]) == 0).all()):
        out = out.as_date()
    return out

def run(f):
    try:
        return ("ok", f())
    except BaseException as e:
        return ("error", type(e), str(e))

def same(a, b):
    if a[0] != b[0]: return False
    if a[0] == "error": return a[1:] == b[1:]
    a, b = a[1], b[1]
    if type(a) is not type(b): return False
    if isinstance(a, np.ndarray):
        return a.dtype == b.dtype and a.shape == b.shape and a.tobytes() == b.tobytes()
    return a.dtype == b.dtype and (a == b or (np.isnat(a) and np.isnat(b)))

def python_from_string(strings, format):
    out = [None if s == "" else datetime.datetime.strptime(s, format) for s in strings]
    present = [x for x in out if x is not None]
    if present and all(x.time() == datetime.time(0) for x in present):
        return "datetime64[D]", [None if x is None else x.date() for x in out]
    return "datetime64[us]", out

# ---------------------------------------------------------------------
# 1. The reported case: fixed-width strings, as a plain array and as a vector.

cases = [
    (["15.10.2022"], "%d.%m.%Y"),
    (["15.10.2022", "", "01.02.1969"], "%d.%m.%Y"),
    (["15.10.2022 12:34:56", "", "01.02.1969 00:00:00"], "%d.%m.%Y %H:%M:%S"),
    (["15.10.2022 00:00:00", ""], "%d.%m.%Y %H:%M:%S"),
    (["2022-10-15T12:34:56.789012"], "%Y-%m-%dT%H:%M:%S.%f"),
    (["2022年10月15日", "", "0001年01月01日", "9999年12月31日"], "%Y年%m月%d日"),
    (["", ""], "%d.%m.%Y"),
    ([""], "%d.%m.%Y"),
]
for strings, format in cases:
    dtype, values = python_from_string(strings, format)
    if all(s == "" for s in strings): dtype = "datetime64[us]"
    reference = dt.from_string(Vector(strings, str), format)
    for x in [np.array(strings), Vector.fast(np.array(strings)), np.array(strings, "U40"),
              Vector(strings, "U30"), np.array(strings)[::1], np.array(strings + ["x"])[:-1]]:
        assert x.dtype.kind == "U"
        assert run(lambda: old_from_string(x, format))[:2] == ("error", AssertionError)
        before = x.copy()
        got = dt.from_string(x, format)
        assert isinstance(got, Vector) and got.dtype == np.dtype(dtype), (strings, got.dtype)
        assert got.tolist() == values, (strings, got)
        assert got.is_na().tolist() == [s == "" for s in strings]
        # The same as for the equal new-style string vector.
        assert same(("ok", reference), ("ok", got))
        # The argument is left alone (still fixed-width, same content), the result is fresh.
        assert x.dtype == before.dtype and type(x) is type(before) and x.tobytes() == before.tobytes()
        assert not np.shares_memory(got, x)
        again = dt.from_string(x, format)
        assert same(("ok", got), ("ok", again)) and not np.shares_memory(got, again)
        if isinstance(x, Vector):
            assert same(("ok", got), ("ok", x.dt.from_string(format)))
# Empty fixed-width array: like the empty string vector.
got = dt.from_string(np.array([], "U10"), "%Y")
assert isinstance(got, Vector) and got.dtype == np.dtype("datetime64[us]") and got.size == 0
assert same(("ok", got), ("ok", dt.from_string(Vector([], str), "%Y")))
# Data that does not match the format still fails with strptime's error.
r = run(lambda: dt.from_string(np.array(["2022-10-15"]), "%d.%m.%Y"))
assert r[:2] == ("error", ValueError) and "does not match format" in r[2]
assert r == run(lambda: dt.from_string(Vector(["2022-10-15"]), "%d.%m.%Y"))

# ---------------------------------------------------------------------
# 2. Neighbours: everything else does exactly what it did.

n = 0
formats = ["%d.%m.%Y", "%d.%m.%Y %H:%M:%S", "%Y年%m月%d日", "%Y", "", "%d.%m.%Y %H:%M %z", None, 5]
others = [
    # new-style strings: vector, column-like slice, plain ndarray
    Vector(["15.10.2022", "", "01.02.1969"]),
    Vector(["15.10.2022 12:34:56", "", "01.02.1969 00:00:00"]),
    Vector(["15.10.2022 12:00 +0200", ""]),
    Vector(["2022年10月15日", ""]),
    Vector(["2022", "0001", "9999"]),
    Vector(["", ""]),
    Vector([], str),
    Vector(["15.10.2022", "x"]),
    Vector(["15.10.2022", ""])[:1],
    np.asarray(Vector(["15.10.2022", ""])),
    np.array(["15.10.2022", None], StringDType(na_object=None)),
    np.array(["15.10.2022"], StringDType()),
    # scalars
    "15.10.2022", "15.10.2022 12:34:56", "2022年10月15日", "", None, np.str_("15.10.2022"), np.nan,
    b"15.10.2022", 2022, 1.5, True, datetime.date(2022, 10, 15), np.datetime64("2022-10-15"),
    # not strings / not arrays: still refused
    Vector(["15.10.2022", None], object), Vector([b"15.10.2022"]), Vector([2022]), Vector([2022.0]),
    Vector([True]), Vector([np.datetime64("2022-10-15")]), Vector([], object), Vector([]),
    np.array([b"15.10.2022"]), np.array([b"15.10.2022"], "S"), np.array([[1, 2]]),
    ["15.10.2022"], ("15.10.2022",), [], {"a": 1}, iter(["15.10.2022"]),
]
for x in others:
    for format in formats:
        old = run(lambda: old_from_string(x, format))
        new = run(lambda: dt.from_string(x, format))
        assert same(old, new), (x, format, old, new)
        n += 1
for x in others:
    r = run(lambda: dt.from_string(x, "%d.%m.%Y"))
    if isinstance(x, (list, tuple, dict)) or (isinstance(x, np.ndarray) and x.dtype.kind not in "UT") or not (util.is_scalar(x) or isinstance(x, np.ndarray)):
        assert r[:2] == ("error", AssertionError), (x, r)

print(f"OK, {n} combinations compared")
