import os, sys; sys.path.insert(0, os.getcwd())

# util.unique_types: fast path for sequences without None and floats.
# Compare against the old implementation (copied verbatim below), against
# independently built expectations and through Vector/DataFrame construction.

import datetime
import decimal
import fractions
import numpy as np
import dataiter as di

from dataiter import util

def old_unique_types(seq):
    return set(x.__class__ for x in seq if
               x is not None and
               not (isinstance(x, float) and np.isnan(x)))

class MyFloat(float): pass
class MyInt(int): pass
class MyStr(str): pass

NAN = float("nan")
INF = float("inf")
D = datetime.date(2020, 1, 1)
DT = datetime.datetime(2020, 1, 1, 12)
TD = datetime.timedelta(days=1)

# (sequence, expected) with expected written by hand.
CASES = [
    ([], set()),
    ((), set()),
    ([None], set()),
    ([NAN], set()),
    ([None, NAN, None], set()),
    ([np.nan, np.float64("nan"), MyFloat("nan")], set()),
    ([np.float32("nan")], {np.float32}), # not a float instance, kept as before
    ([np.float16("nan"), 1], {np.float16, int}),
    ([np.longdouble("nan")], {np.longdouble}),
    ([1, 2, 3], {int}),
    ((1, 2, 3), {int}),
    ([True, False], {bool}),
    ([True, 1], {bool, int}),
    ([1, 2.5], {int, float}),
    ([1, NAN], {int}),
    ([1, None], {int}),
    ([1, 2, 3.3, np.nan, None], {int, float}),
    ([INF, -INF], {float}),
    ([INF, NAN], {float}),
    ([MyFloat(1.5)], {MyFloat}),
    ([MyFloat("nan"), "a"], {str}),
    ([MyInt(1), 1], {MyInt, int}),
    ([MyStr("a"), "a", ""], {MyStr, str}),
    (["a", "ä", "日本語", ""], {str}),
    (["a", None], {str}),
    (["a", NAN], {str}),
    ([b"a", "a"], {bytes, str}),
    ([2**63, -2**63, 2**64, 10**30], {int}),
    ([np.int8(1), np.uint64(2**64 - 1)], {np.int8, np.uint64}),
    ([np.float64(1.5)], {np.float64}),
    ([np.float64("nan"), np.int64(1)], {np.int64}),
    ([np.float64("inf")], {np.float64}),
    ([np.datetime64("NaT")], {np.datetime64}),
    ([np.datetime64("NaT"), D], {np.datetime64, datetime.date}),
    ([np.timedelta64("NaT"), TD], {np.timedelta64, datetime.timedelta}),
    ([D, DT, None], {datetime.date, datetime.datetime}),
    ([D, NAN], {datetime.date}),
    ([decimal.Decimal("NaN"), fractions.Fraction(1, 2)], {decimal.Decimal, fractions.Fraction}),
    ([complex("nan")], {complex}),
    ([[1, 2], (3,), {4: 5}, {6}], {list, tuple, dict, set}),
    ([np.array([1, 2]), np.array([np.nan])], {np.ndarray}),
    ([int, float, None], {type}),
    ([float], {type}),
    ([type(None)], {type}),
    ([np.bool_(True), True], {np.bool_, bool}),
    ([np.str_("a"), np.bytes_(b"a")], {np.str_, np.bytes_}),
]

def check(seq, expected=None):
    old = old_unique_types(seq)
    new = util.unique_types(seq)
    assert type(new) is set, type(new)
    assert new == old, (seq, new, old)
    if expected is not None:
        assert new == expected, (seq, new, expected)
    # The result must be a fresh set every time (callers mutate it).
    new.add("junk")
    assert util.unique_types(seq) == old, seq

for seq, expected in CASES:
    check(seq, expected)
    # Same elements in other containers and orders.
    check(list(reversed(seq)), expected)
    check(tuple(seq), expected)
    check(list(seq) * 3, expected)

# Other kinds of iterables must keep working, including one-shot iterators,
# which cannot be iterated twice.
for seq, expected in CASES:
    assert util.unique_types(iter(seq)) == expected
    assert util.unique_types(x for x in seq) == expected
    assert util.unique_types(np.array(seq, object)) == expected, seq
    assert util.unique_types(dict.fromkeys(range(len(seq)), 0).keys()) == (
        {int} if len(seq) else set())
for array in [np.array([1, 2]), np.array([1.5, np.nan]), np.array([np.nan]),
              np.array([np.nan], np.float32), np.array(["a"]), np.array([True])]:
    assert util.unique_types(array) == old_unique_types(array)

class Twice(list):
    # A list subclass with its own iteration is not taken to the fast path.
    def __iter__(self):
        yield from [1, None, NAN, "a"]
assert util.unique_types(Twice([1.5])) == {int, str} == old_unique_types(Twice([1.5]))

# Mutating the argument between calls.
seq = [1, 2]
assert util.unique_types(seq) == {int}
seq.append(None)
assert util.unique_types(seq) == {int}
seq.append(NAN)
assert util.unique_types(seq) == {int}
seq.append(1.5)
assert util.unique_types(seq) == {int, float}
seq.append("x")
assert util.unique_types(seq) == {int, float, str}
assert seq[:2] == [1, 2] and len(seq) == 6

# Through the only caller: dtype guessing of vectors and data frame columns.
VECTORS = [
    ([1, 2, 3], "int64"),
    ([1, None], "float64"),
    ([1, NAN], "float64"),
    ([True, False], "bool"),
    ([True, None], "object"),
    ([2**63, 1], "float64"),
    ([2**64 - 1], "uint64"),
    ([2**64], "object"),
    ([-2**63], "int64"),
    (["a", None, "ä"], None),
    ([D, None], "datetime64[D]"),
    ([DT, DT], "datetime64[us]"),
    ([D, DT], None),
    ([np.int8(1), np.int8(2)], "int8"),
    ([np.float32("nan"), np.float32(1)], "float32"),
    ([np.datetime64("NaT"), D], "datetime64[D]"),
    ([None, None], "object"),
    ([NAN, NAN], "object"),
    ([], "float64"),
    ([1, "a"], None),
]
def build_old(seq):
    # Build the same with the old implementation swapped in.
    new_unique_types = util.unique_types
    util.unique_types = old_unique_types
    try:
        return di.Vector(seq), di.DataFrame(x=seq).x
    finally:
        util.unique_types = new_unique_types

for seq, dtype in VECTORS:
    vector = di.Vector(seq)
    column = di.DataFrame(x=seq).x
    if dtype is not None:
        assert str(vector.dtype) == dtype, (seq, vector.dtype)
    old_vector, old_column = build_old(seq)
    for a, b in [(vector, old_vector), (column, old_column), (column, vector)]:
        assert a.dtype == b.dtype, (seq, a.dtype, b.dtype)
        assert a.tolist() == b.tolist(), (seq, a, b)
        assert a.is_na().tolist() == b.is_na().tolist(), (seq, a, b)
assert di.Vector([1, 2, None]).tolist() == [1.0, 2.0, None]
assert di.Vector(["a", None]).tolist() == ["a", None]
assert di.Vector([D, None]).tolist() == [D, None]

print("OK")
