import os, sys; sys.path.insert(0, os.getcwd())

# Change 5: the np.vectorize calls in dataiter.dt state their output types.
# Expected values are computed with the datetime module on plain lists.

import datetime
import numpy as np
import dataiter as di

from dataiter import dt
from dataiter import Vector

NaT = np.datetime64("NaT")
problems = []

STAMPS = [
    datetime.datetime(2022, 10, 15, 12, 34, 56, 789000),
    None,
    datetime.datetime(1999, 12, 31, 23, 59, 59, 999999),
    datetime.datetime(2024, 2, 29, 0, 0, 0, 0),
    datetime.datetime(1, 1, 1, 0, 0, 0, 1),
    datetime.datetime(9999, 12, 31, 0, 0, 1, 0),
    None,
]

def truncate(stamp, unit):
    if stamp is None: return None
    if unit == "D": return datetime.date(stamp.year, stamp.month, stamp.day)
    if unit == "s": return stamp.replace(microsecond=0)
    if unit == "ms": return stamp.replace(microsecond=stamp.microsecond // 1000 * 1000)
    return stamp

INT_FUNCTIONS = {
    "year": lambda y: y.year,
    "month": lambda y: y.month,
    "day": lambda y: y.day,
    "hour": lambda y: y.hour,
    "minute": lambda y: y.minute,
    "second": lambda y: y.second,
    "microsecond": lambda y: y.microsecond,
    "isoweek": lambda y: y.isocalendar()[1],
    "isoweekday": lambda y: y.isoweekday(),
    "weekday": lambda y: y.weekday(),
    "quarter": lambda y: (y.month + 2) // 3,
}
DATE_ONLY = ["year", "month", "day", "isoweek", "isoweekday", "weekday", "quarter"]

def check_vector(label, got, expected, dtype):
    # expected: list with None for missing
    if type(got) is not Vector or got.dtype != np.dtype(dtype) or got.ndim != 1:
        problems.append(f"{label}: {type(got).__name__} {got.dtype}, expected {dtype}")
    elif got.tolist() != expected:
        problems.append(f"{label}: got {got.tolist()!r}, expected {expected!r}")

SELECTIONS = {
    "all": [0, 1, 2, 3, 4, 5, 6],
    "none": [],
    "one": [0],
    "one missing": [1],
    "all missing": [1, 6],
    "no missing": [0, 2, 3],
    "missing first": [1, 0],
    "missing last": [3, 6],
}

for unit in ["D", "s", "ms", "us"]:
    for selection, indices in SELECTIONS.items():
        stamps = [truncate(STAMPS[i], unit) for i in indices]
        x = Vector(stamps, f"datetime64[{unit}]")
        before = x.copy()
        any_missing = any(s is None for s in stamps)
        all_missing = all(s is None for s in stamps)  # true for [] as well
        for name, function in INT_FUNCTIONS.items():
            if unit == "D" and name not in DATE_ONLY: continue
            for call in [getattr(dt, name), getattr(x.dt, name)]:
                got = call(x) if call is getattr(dt, name) else call()
                expected = [None if s is None else function(s) for s in stamps]
                # Missing values make it float; so does nothing at all to pull
                # (empty or all missing), except that quarter of an empty
                # vector is integer.
                if any_missing or all_missing:
                    dtype = float
                    if name == "quarter" and not stamps: dtype = int
                    expected = [None if e is None else float(e) for e in expected]
                else:
                    dtype = int
                check_vector(f"{name} {unit} {selection}", got, expected, dtype)
        # to_string
        for format in ["%d.%m.%Y", "%A", "%Y", ""]:
            got = dt.to_string(x, format)
            expected = [None if s is None else (s.strftime(format) or None) for s in stamps]
            check_vector(f"to_string {format!r} {unit} {selection}", got, expected, di.dtypes.string)
            if x.dt.to_string(format).tolist() != expected:
                problems.append(f"proxy to_string {unit} {selection}")
        # replace, scalar components
        for kwargs in [{"month": 1, "day": 1}, {"year": 2000}, {}]:
            got = dt.replace(x, **kwargs)
            expected = [None if s is None else s.replace(**kwargs) for s in stamps]
            check_vector(f"replace {kwargs} {unit} {selection}", got, expected, x.dtype)
            if not x.dt.replace(**kwargs).equal(got):
                problems.append(f"proxy replace {unit} {selection}")
        # replace, vector components
        days = [1 + i for i in range(len(stamps))]
        got = dt.replace(x, day=Vector(days, int), month=3)
        expected = [None if s is None else s.replace(day=d, month=3) for s, d in zip(stamps, days)]
        check_vector(f"replace vector {unit} {selection}", got, expected, x.dtype)
        if not (x.equal(before) and x.dtype == before.dtype):
            problems.append(f"input changed: {unit} {selection}")

# Scalars in, scalars out.
stamp = np.datetime64("2022-10-15T12:34:56")
for name, expected in [("year", 2022), ("month", 10), ("day", 15), ("hour", 12), ("minute", 34),
                       ("second", 56), ("microsecond", 0), ("isoweek", 41), ("isoweekday", 6),
                       ("weekday", 5), ("quarter", 4)]:
    got = getattr(dt, name)(stamp)
    if not (isinstance(got, np.integer) and got == expected):
        problems.append(f"scalar {name}: {got!r}")
    got = getattr(dt, name)(NaT)
    if not (isinstance(got, np.floating) and np.isnan(got)):
        problems.append(f"scalar NaT {name}: {got!r}")
if dt.to_string(stamp, "%H:%M") != "12:34" or dt.to_string(NaT, "%H:%M") != "":
    problems.append("scalar to_string")
if dt.replace(stamp, hour=1) != np.datetime64("2022-10-15T01:34:56") or not np.isnat(dt.replace(NaT, hour=1)):
    problems.append("scalar replace")

# from_string
TEXTS = ["15.10.2022", "", "01.01.0001", "29.02.2024", "31.12.9999", ""]
for selection, indices in {"all": [0, 1, 2, 3, 4, 5], "none": [], "one": [0], "one missing": [1],
                           "all missing": [1, 5], "no missing": [0, 3], "missing first": [1, 4]}.items():
    texts = [TEXTS[i] for i in indices]
    x = Vector(texts, str)
    for call in [lambda: dt.from_string(x, "%d.%m.%Y"), lambda: x.dt.from_string("%d.%m.%Y")]:
        got = call()
        expected = [datetime.datetime.strptime(t, "%d.%m.%Y").date() if t else None for t in texts]
        # Dates if there is at least one value and all are at midnight, else datetimes.
        dtype = "datetime64[D]" if any(texts) else "datetime64[us]"
        check_vector(f"from_string {selection}", got, expected, dtype)
x = Vector(["15.10.2022 12:00:00.5", "", "16.10.2022 00:00:00.0"], str)
got = dt.from_string(x, "%d.%m.%Y %H:%M:%S.%f")
expected = [datetime.datetime(2022, 10, 15, 12, 0, 0, 500000), None, datetime.datetime(2022, 10, 16)]
check_vector("from_string with time", got, expected, "datetime64[us]")
if dt.from_string("15.10.2022", "%d.%m.%Y") != np.datetime64("2022-10-15"):
    problems.append("scalar from_string")
if not np.isnat(dt.from_string("", "%d.%m.%Y")):
    problems.append("scalar from_string of blank")

# Errors: same classes as before, whether the offending element is first or later.
def expect(label, error_class, function):
    try:
        function()
    except error_class:
        pass
    except Exception as error:
        problems.append(f"{label}: {type(error).__name__} instead of {error_class.__name__}")
    else:
        problems.append(f"{label}: did not raise")

good = Vector(["15.10.2022", "xx", "16.10.2022"], str)
expect("from_string bad first", ValueError, lambda: dt.from_string(Vector(["xx", "15.10.2022"], str), "%d.%m.%Y"))
expect("from_string bad later", ValueError, lambda: dt.from_string(good, "%d.%m.%Y"))
expect("from_string bad only", ValueError, lambda: dt.from_string(Vector(["xx"], str), "%d.%m.%Y"))
expect("from_string format None", TypeError, lambda: dt.from_string(Vector(["1"], str), None))
expect("from_string of ints", AssertionError, lambda: dt.from_string(Vector([1, 2]), "%Y"))
dates = Vector([datetime.date(2022, 1, 31), datetime.date(2022, 3, 31)], "datetime64[D]")
expect("replace to 31 February, first", ValueError, lambda: dt.replace(dates, month=2))
later = Vector([datetime.date(2022, 1, 30), datetime.date(2022, 1, 31)], "datetime64[D]")
expect("replace to 31 April, later", ValueError, lambda: dt.replace(later, month=4))
expect("replace hour on dates", TypeError, lambda: dt.replace(dates, hour=1))
expect("hour of dates", AttributeError, lambda: dt.hour(dates))
expect("to_string format None", TypeError, lambda: dt.to_string(dates, None))
nanos = Vector(np.array(["2022-01-01T00:00:00"], "datetime64[ns]"))
expect("year of nanoseconds", AttributeError, lambda: dt.year(nanos))
expect("to_string of nanoseconds", AttributeError, lambda: dt.to_string(nanos, "%Y"))
expect("replace of nanoseconds", AttributeError, lambda: dt.replace(nanos, year=2000))
expect("year of ints", AssertionError, lambda: dt.year(Vector([1, 2])))
expect("year of a list", AssertionError, lambda: dt.year([stamp]))
# Missing and empty inputs never reach the bad argument: no error.
for x in [Vector([], "datetime64[D]"), Vector([None, None], "datetime64[D]")]:
    if dt.to_string(x, None).tolist() != [None] * x.length:
        problems.append("to_string(None) on nothing")
    if dt.replace(x, month=13).tolist() != [None] * x.length:
        problems.append("replace(month=13) on nothing")
for x in [Vector([], str), Vector(["", ""], str)]:
    if dt.from_string(x, None).tolist() != [None] * x.length:
        problems.append("from_string(None) on nothing")

for problem in problems:
    print("PROBLEM:", problem)
print("OK" if not problems else f"{len(problems)} problems")
sys.exit(1 if problems else 0)
