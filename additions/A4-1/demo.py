import os, sys; sys.path.insert(0, os.getcwd())

# Change 1: DataFrame.slice copies whole columns directly when rows=None.
# Compare with (a) a verbatim copy of the old implementation and
# (b) expected values built with plain Python lists.

import datetime
import numpy as np
import dataiter as di

from dataiter import DataFrame, DataFrameColumn, Vector

def old_slice(self, rows=None, cols=None):
    def generate():
        rows_ = np.arange(self.nrow) if rows is None else rows
        cols_ = np.arange(self.ncol) if cols is None else cols
        rows_ = self._parse_rows_from_integer(rows_)
        cols_ = self._parse_cols_from_integer(cols_)
        for colname in (self.colnames[x] for x in cols_):
            yield colname, self[colname][rows_].copy()
    return self._new(generate())

def reprs(column):
    return [repr(x) for x in np.asarray(column)]

def check_same(a, b):
    assert type(a) is type(b), (type(a), type(b))
    assert list(a.keys()) == list(b.keys()), (list(a), list(b))
    for name in a:
        assert type(a[name]) is type(b[name]) is DataFrameColumn
        assert a[name].dtype == b[name].dtype, (name, a[name].dtype, b[name].dtype)
        assert a[name].shape == b[name].shape
        assert a[name].flags.c_contiguous == b[name].flags.c_contiguous
        assert a[name].flags.writeable == b[name].flags.writeable
        assert reprs(a[name]) == reprs(b[name]), name

def outcome(function):
    try:
        return "ok", function()
    except Exception as error:
        return "error", (type(error), str(error))

def make_frames():
    big = 2**63 - 1
    yield "ordinary", DataFrame(
        i=[3, 1, 2, 1], f=[0.5, 1.5, 2.5, 3.5], s=["a", "b", "c", "d"],
        b=[True, False, True, True])
    yield "nasty", DataFrame(
        f=Vector.fast([np.nan, np.inf, -np.inf, -0.0, 0.0, np.nan], float),
        f4=Vector.fast([np.nan, 1, 2, 3, 4, 5], np.float32),
        u=Vector.fast([0, 2**64 - 1, 2**63, 1, 1, 0], np.uint64),
        i=Vector.fast([-big - 1, big, 0, -1, -1, 0], np.int64),
        i1=Vector.fast([-128, 127, 0, 1, 1, 0], np.int8),
        d=Vector.fast(["NaT", "2020-01-01", "1970-01-01", "NaT", "2262-04-11", "1677-09-22"], "datetime64[D]"),
        t=Vector.fast(["2020-01-01T00:00:00.5", "NaT", "NaT", "1999-12-31T23:59:59", "2020-01-01", "2020-01-01"], "datetime64[us]"),
        m=Vector.fast([np.timedelta64("NaT"), np.timedelta64(1, "s"), np.timedelta64(-1, "s"), np.timedelta64(0, "s"), np.timedelta64("NaT"), np.timedelta64(1, "s")], "timedelta64[s]"),
        s=["", "åäö", "日本語", "a‍b", "", "￿"],
        fx=Vector.fast(["", "åäö", "x", "", "zz", "x"], "U3"),
        by=Vector.fast([b"", b"ab", b"\xff", b"", b"ab", b"c"], "S2"),
        o=Vector.fast([None, [1, 2], {"a": 1}, None, (1,), "x"], object),
        bo=[True, False, None, True, None, False],
        be=Vector.fast([1, 2, 3, 4, 5, 6], ">i4"))
    yield "empty", DataFrame(
        f=Vector.fast([], float), i=Vector.fast([], int), s=Vector.fast([], str),
        d=Vector.fast([], "datetime64[D]"), o=Vector.fast([], object))
    yield "no-columns", DataFrame()
    yield "single-row", DataFrame(x=[np.nan], y=[""], z=[None], w=[datetime.date(2020, 2, 29)])
    yield "all-missing", DataFrame(
        x=[np.nan, np.nan, np.nan], y=["", "", ""], z=[None, None, None],
        w=Vector.fast(["NaT"] * 3, "datetime64[ns]"))
    # A column that is a strided (non-contiguous) view of something else.
    base = np.arange(12)
    data = DataFrame(a=[1, 2, 3, 4])
    dict.__setitem__(data, "v", base[::3].view(DataFrameColumn))
    yield "strided", data
    # A read-only column.
    column = DataFrameColumn([1.5, np.nan, 2.5])
    column.flags.writeable = False
    data = DataFrame(a=[1, 2, 3])
    dict.__setitem__(data, "r", column)
    yield "read-only", data

n = 0
for label, data in make_frames():
    ncol, nrow = data.ncol, data.nrow
    rows_choices = [None, [], list(range(nrow)), list(reversed(range(nrow))),
                    np.arange(nrow), [0] * 3 if nrow else [], [-1] if nrow else [],
                    range(nrow), [nrow], [0.0], ["a"], np.array([], int)]
    cols_choices = [None, [], list(range(ncol)), list(reversed(range(ncol))),
                    [0, 0] if ncol else [], [-1] if ncol else [], [ncol]]
    for rows in rows_choices:
        for cols in cols_choices:
            before = {k: reprs(v) for k, v in data.items()}
            new = outcome(lambda: data.slice(rows, cols))
            old = outcome(lambda: old_slice(data, rows, cols))
            assert new[0] == old[0], (label, rows, cols, new, old)
            if new[0] == "error":
                assert new[1] == old[1], (label, rows, cols, new, old)
                continue
            new, old = new[1], old[1]
            check_same(new, old)
            # Expected values built independently with plain Python.
            ri = list(range(nrow)) if rows is None else [int(x) for x in rows]
            ci = list(range(ncol)) if cols is None else [int(x) for x in cols]
            names = list(dict.fromkeys(data.colnames[j] for j in ci))
            assert new.colnames == names
            for name in names:
                expected = [before[name][i] for i in ri]
                assert reprs(new[name]) == expected, (label, name)
                assert new[name].dtype == data[name].dtype
            # The result is always a fresh copy: no shared memory and
            # later mutation of the result leaves the source untouched.
            for name in new:
                assert new[name] is not data[name]
                assert not np.shares_memory(new[name], data[name]), (label, name)
                assert new[name].flags.owndata
                if new.nrow > 0:
                    new[name][0] = new[name][-1]
                    new[name][:] = new[name][::-1].copy()
            assert {k: reprs(v) for k, v in data.items()} == before, label
            # ... and repeated calls give the same result again.
            again = data.slice(rows, cols)
            check_same(again, old_slice(data, rows, cols))
            n += 1

# Mutating the source afterwards must not show in the earlier result.
data = DataFrame(x=[1, 2, 3], s=["a", "b", "c"])
part = data.slice()
whole = data.slice(cols=[1, 0])
data.x[0] = 100
data.s[1] = "changed"
assert part.x.tolist() == [1, 2, 3] and part.s.tolist() == ["a", "b", "c"]
assert whole.x.tolist() == [1, 2, 3] and whole.s.tolist() == ["a", "b", "c"]

# A frame whose columns were made unequal behind its back raises as before.
bad = DataFrame(x=[1, 2, 3], y=[4, 5, 6])
dict.__setitem__(bad, "y", DataFrameColumn([1, 2]))
for rows, cols in [(None, None), (None, [0]), ([0], None), ([0], [0])]:
    new = outcome(lambda: bad.slice(rows, cols))
    old = outcome(lambda: old_slice(bad, rows, cols))
    assert new[0] == old[0], (rows, cols, new, old)
    if new[0] == "error":
        assert new[1] == old[1]

# head, tail and sample go through slice with explicit rows.
data = DataFrame(x=range(30), y=[str(i) for i in range(30)])
assert data.head(3).x.tolist() == [0, 1, 2]
assert data.tail(3).y.tolist() == ["27", "28", "29"]
assert data.slice(cols=[1]).colnames == ["y"]

print(f"slice: {n} combinations agree")
