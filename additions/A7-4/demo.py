import os, sys; sys.path.insert(0, os.getcwd())

# DataFrame.to_list_of_dicts: fast path for a single row.
# Compare against the old implementation (copied verbatim into a subclass
# below) and against expectations built with plain Python, for frames of
# 0, 1, 2 and more rows and all data types, incl. to_json and write_json.

import datetime
import json
import math
import tempfile
import numpy as np
import dataiter as di

class OldDataFrame(di.DataFrame):
    def to_list_of_dicts(self):
        from dataiter import ListOfDicts
        data = [{} for i in range(self.nrow)]
        for colname in self.colnames:
            for i, value in enumerate(self[colname].tolist()):
                data[i][colname] = value
        return ListOfDicts(data)

NAN = np.nan
OBJ = di.Vector.fast([None] * 4, object)
OBJ[0] = [1, 2]
OBJ[1] = {"a": NAN}
OBJ[3] = np.float64("nan") # not None, stays as is
COLUMNS = {
    "int8": np.array([-128, 127, 0, 1], np.int8),
    "int64": np.array([-2**63, 2**63 - 1, 0, 1]),
    "uint64": np.array([2**64 - 1, 0, 2**63, 1], np.uint64),
    "float": np.array([NAN, 1.5, np.inf, -np.inf]),
    "float32": np.array([0.1, NAN, 1, -0.0], np.float32),
    "float16": np.array([NAN, 1, 2, 65504], np.float16),
    "longdouble": np.array([1, NAN, 2, 3], np.longdouble),
    "complex": np.array([1+2j, complex(NAN, 1), 3, 4]),
    "bool": np.array([True, False, False, True]),
    "bytes": np.array([b"", b"a", b"\xff", b"abc"]),
    "fixed": np.array(["", "ä", "日本語", "a"]),
    "string": di.Vector(["", "ä", "日本語", "a\nb"]),
    "date": np.array(["NaT", "2020-01-01", "1969-12-31", "9999-12-31"], "datetime64[D]"),
    "datetime_us": np.array(["2020-01-01T12:00:00.000001", "NaT", "1970-01-01", "1970-01-01"], "datetime64[us]"),
    "datetime_ns": np.array(["NaT", "2020-01-01T00:00:00.000000001", "1970-01-01", "2262-04-11"], "datetime64[ns]"),
    "datetime_Y": np.array(["NaT", "2020", "1970", "0001"], "datetime64[Y]"),
    "timedelta": np.array(["NaT", 1, -5, 0], "timedelta64[s]"),
    "timedelta_ns": np.array([1, "NaT", -5, 0], "timedelta64[ns]"),
    "object": OBJ,
    "object_na": di.Vector.fast([None] * 4, object),
    "items": np.arange(4),
    "ä key": np.arange(4) * 1.5,
}

def same_value(a, b):
    if isinstance(a, dict) and isinstance(b, dict):
        # Nested dicts are turned to attribute dicts by ListOfDicts.
        return repr(dict(a)) == repr(dict(b))
    if type(a) is not type(b): return False
    if isinstance(a, float): return (a != a and b != b) or (a == b and math.copysign(1, a) == math.copysign(1, b))
    if isinstance(a, complex): return repr(a) == repr(b)
    return a == b

def assert_same(new, old, context):
    assert type(new) is type(old) is di.ListOfDicts, context
    assert len(new) == len(old), context
    assert new._group_keys == old._group_keys == () and new._predecessor is None
    for a, b in zip(new, old):
        assert type(a) is type(b), context
        assert list(a.keys()) == list(b.keys()), (context, list(a), list(b))
        for key in a:
            assert same_value(a[key], b[key]), (context, key, a[key], b[key])

def expected_value(column, i):
    # Independent of tolist: pick the element and convert by data type.
    x = column[i]
    kind = column.dtype.kind
    if kind in "mM":
        return None if np.isnat(x) else x.item()
    if kind == "f":
        return None if np.isnan(x) else x.item()
    if kind in "TU":
        return None if x == "" else str(x)
    if kind == "O":
        return x
    return x.item()

def check(data):
    new = data.to_list_of_dicts()
    old = OldDataFrame(data).to_list_of_dicts()
    assert_same(new, old, data.colnames)
    assert len(new) == data.nrow
    for i, row in enumerate(new):
        assert list(row) == data.colnames
        for name in data.colnames:
            assert same_value(row[name], expected_value(data[name], i)), (name, i, row[name])
    # JSON output is built on the same, not all types are encodable.
    try:
        expected = OldDataFrame(data).to_json(ensure_ascii=False)
    except Exception as error:
        try:
            data.to_json(ensure_ascii=False)
            raise AssertionError("should have raised")
        except Exception as other:
            assert type(other) is type(error) and str(other) == str(error), (other, error)
    else:
        assert data.to_json(ensure_ascii=False) == expected
        with tempfile.TemporaryDirectory() as tmp:
            data.write_json(os.path.join(tmp, "new.json"))
            OldDataFrame(data).write_json(os.path.join(tmp, "old.json"))
            with open(os.path.join(tmp, "new.json"), "rb") as f: a = f.read()
            with open(os.path.join(tmp, "old.json"), "rb") as f: b = f.read()
            assert a == b
    return new

full = di.DataFrame(COLUMNS)
assert full.nrow == 4
for rows in [[0], [1], [2], [3], [0, 1], [3, 2, 1, 0], [], [1, 1], [0, 1, 2, 3]]:
    data = full.slice(rows)
    check(data)
    for name in COLUMNS:
        check(data.select(name))
        check(data.select("int8", name))
        check(data.select(name, "string"))
check(di.DataFrame())
check(di.DataFrame(x=[]))
check(di.DataFrame(x=1))
check(di.DataFrame(x=None))
check(di.DataFrame(x=[1], y="a"))
check(di.DataFrame(x=NAN, y=[1, 2]))

# Independent expectations for a single row.
D = datetime.date(2020, 1, 1)
DT = datetime.datetime(2020, 1, 1, 12, 30)
data = di.DataFrame(i=[1], u=np.array([2**64 - 1], np.uint64), f=[0.5], n=[NAN], b=[True],
                    s=["ä"], e=[""], d=[D], t=[DT], nat=np.array(["NaT"], "datetime64[D]"),
                    o=di.Vector.fast([None], object))
rows = data.to_list_of_dicts()
assert len(rows) == 1 and type(rows[0]).__name__ == "AttributeDict"
assert dict(rows[0]) == dict(i=1, u=2**64 - 1, f=0.5, n=None, b=True, s="ä", e=None,
                             d=D, t=DT, nat=None, o=None)
assert [type(x) for x in rows[0].values()] == [
    int, int, float, type(None), bool, str, type(None), datetime.date, datetime.datetime,
    type(None), type(None)]
assert rows[0].i == 1 and rows[0].s == "ä"
assert json.loads(data.select("i", "f", "n", "b", "s", "e").to_json()) == [
    dict(i=1, f=0.5, n=None, b=True, s="ä", e=None)]

# The result is detached from the data frame, repeated calls give separate
# objects and mutations are picked up.
data = di.DataFrame(a=[1], b=["x"])
one = data.to_list_of_dicts()
two = data.to_list_of_dicts()
assert one == two and one is not two and one[0] is not two[0]
one[0]["a"] = 100
one[0].c = 5
assert two[0] == dict(a=1, b="x") and data.a.tolist() == [1] and data.colnames == ["a", "b"]
data.a[0] = 7
assert data.to_list_of_dicts()[0] == dict(a=7, b="x") and two[0] == dict(a=1, b="x")
data.c = 1.5
assert list(data.to_list_of_dicts()[0].items()) == [("a", 7), ("b", "x"), ("c", 1.5)]
data = data.rbind(data)
assert data.to_list_of_dicts() == [dict(a=7, b="x", c=1.5)] * 2
# Round trip.
assert di.DataFrame(a=[1], b=["x"]).to_list_of_dicts().to_data_frame() == di.DataFrame(a=[1], b=["x"])
assert one.sort(a=1)[0].a == 100

print("OK")
