import os, sys; sys.path.insert(0, os.getcwd())
# Demo for change 4: util.upad measures the strings once, into a list, and
# raises ValueError for no strings at all (as max() of nothing did before);
# the padding of one or more strings is unchanged.
import numpy as np
import dataiter as di
from dataiter import util

FAILS = []
def check(label, ok):
    print(("ok   " if ok else "FAIL ") + label)
    if not ok: FAILS.append(label)

def exc_class(f):
    try:
        f()
    except BaseException as e:
        return type(e), str(e)
    return None, None

# display widths known by hand (not computed with wcwidth)
WIDTH = {"": 0, "a": 1, "abc": 3, " ": 1, "日本": 4, "日本語x": 7, "é": 1, "é": 1,
         "a\x07": 0, "\x00": 0, "…": 1, "naïve": 5, "😀": 2, "x" * 50: 50}

def expected(strings, align="right"):
    width = max(WIDTH[x] for x in strings)
    if align == "right":
        return [" " * (width - WIDTH[x]) + x for x in strings]
    return [x + " " * (width - WIDTH[x]) for x in strings]

inputs = [["a"], [""], ["", ""], ["a", "abc"], ["abc", "a", ""], ["日本", "a", "abc"], ["日本語x", "😀", "é", "é"],
          ["a\x07", "abc"], ["a\x07"], ["\x00", " "], ["…", "naïve", "x" * 50], ["a"] * 100, list(WIDTH)]
for strings in inputs:
    for kwargs in ({}, {"align": "right"}, {"align": "left"}, {"align": "center"}, {"align": None}):
        align = kwargs.get("align", "right")
        exp = expected(strings, "right" if align == "right" else "left")
        for label, value in (("list", list(strings)), ("tuple", tuple(strings)), ("array", np.array(strings, object)), ("Vector", di.Vector(strings))):
            got = util.upad(value, **kwargs)
            check(f"upad({label} {[x[:8] for x in strings[:4]]}..., {kwargs}) ", isinstance(got, list) and got == exp and all(type(x) is str or isinstance(x, str) for x in got))
    original = list(strings)
    util.upad(strings)
    check("input list not modified", strings == original)
    check("repeatable", util.upad(strings) == util.upad(strings) == expected(strings))

# no strings at all: ValueError, whatever the container
for label, make in (("[]", lambda: []), ("()", lambda: ()), ("empty array", lambda: np.array([], object)),
                    ("empty Vector", lambda: di.Vector([], str)), ("empty generator", lambda: iter([])),
                    ("empty dict", lambda: {}), ("empty str", lambda: "")):
    for kwargs in ({}, {"align": "left"}):
        cls, msg = exc_class(lambda: util.upad(make(), **kwargs))
        check(f"upad({label}, {kwargs}) -> ValueError [{msg}]", cls is ValueError)

# an iterator can only be read once: it is used up by the measuring and
# nothing is left to pad (as before); and it IS used up
it = iter(["a", "abc"])
check("non-empty iterator -> [] (read once, as before)", util.upad(it) == [] and list(it) == [])
seen = []
def gen():
    for x in ["a", 5, "abc"]:
        seen.append(x); yield x
# elements that are not strings: TypeError at the first such element
cls, msg = exc_class(lambda: util.upad(gen()))
check("non-string element -> TypeError at that element", cls is TypeError and seen == ["a", 5])
for bad in ([1], ["a", None], [b"a"], None, 5):
    cls, msg = exc_class(lambda: util.upad(bad))
    check(f"upad({bad!r}) -> TypeError", cls is TypeError)
cls, msg = exc_class(lambda: util.upad(["a"], "left"))
check("align is keyword-only -> TypeError", cls is TypeError)

# the callers: Vector.to_strings(pad=True) and DataFrame.to_string
v = di.Vector(["a", "日本", ""])
check("Vector.to_strings pad", v.to_strings(quote=False, pad=True).tolist() == ["   a", "日本", "    "])
check("Vector.to_strings of nothing", di.Vector([], str).to_strings(pad=True).tolist() == [] and di.Vector([], float).to_strings(pad=True).tolist() == [])
check("int vector pad", di.Vector([1, 1000, -5]).to_strings(pad=True).tolist() == ["   1", "1000", "  -5"])
data = di.DataFrame(x=[1, 22], y=["日本", "a"])
exp = "\n".join([".", "      x      y", "  int64 string", "  ───── ──────", "0     1   日本", "1    22      a", "."])
check("DataFrame.to_string", data.to_string() == exp)
check("DataFrame.to_string of no columns", di.DataFrame().to_string() == "")
zero = di.DataFrame(x=di.Vector([], int)).to_string()
check("DataFrame.to_string of no rows", zero == "\n".join([".", "     x", " int64", " ─────", "."]))

print("FAILURES:", FAILS)
sys.exit(1 if FAILS else 0)
