import os, sys; sys.path.insert(0, os.getcwd())

import numpy as np

from dataiter import Vector, dtypes
from numpy.dtypes import StringDType

failures = []

def check(cond, label):
    if not cond:
        failures.append(label)
        print("FAIL:", label)

def old_unique(self):
    # Verbatim copy of Vector.unique before the change.
    opt = self._optimize_for_argsort()
    u, indices = np.unique(opt, return_index=True)
    return self[indices.sort()].copy()

def items(a):
    # repr distinguishes -0.0 from 0.0 and makes NaN/NaT comparable.
    return [repr(x) for x in np.ndarray.tolist(a)]

def same(a, b):
    if isinstance(a, Exception) or isinstance(b, Exception):
        return type(a) is type(b) and str(a) == str(b)
    return (type(a) is type(b) and
            a.dtype == b.dtype and
            a.dtype.byteorder == b.dtype.byteorder and
            a.dtype.metadata == b.dtype.metadata and
            repr(a.dtype) == repr(b.dtype) and
            a.shape == b.shape and
            a.strides == b.strides and
            a.flags.writeable == b.flags.writeable and
            a.flags.owndata == b.flags.owndata and
            a.flags.c_contiguous == b.flags.c_contiguous and
            items(a) == items(b))

def run(function, *args, **kwargs):
    try:
        return function(*args, **kwargs)
    except Exception as error:
        return error

def expect(values):
    # Independent expectation in plain Python: first occurrences in order,
    # all missing values of a kind (NaN, NaT) counting as the same.
    seen, out = set(), []
    for value in values:
        key = "missing" if value != value else (type(value).__name__, value)
        if value == 0 and isinstance(value, float):
            key = ("float", 0.0)
        if key in seen: continue
        seen.add(key)
        out.append(value)
    return [repr(x) for x in out]

def compare(v, label, independent=True):
    before = items(v)
    new = run(v.unique)
    old = run(old_unique, v)
    show = lambda a: repr(a) if isinstance(a, Exception) else (a.dtype, np.ndarray.tolist(a))
    check(same(new, old), f"{label}: new {show(new)} vs. old {show(old)}")
    check(items(v) == before, f"{label}: self unchanged")
    if isinstance(new, Exception):
        return
    check(not np.shares_memory(new, v), f"{label}: fresh result")
    if independent:
        check(type(new) is Vector and new.dtype == v.dtype, f"{label}: type and dtype")
        check(items(new) == expect(np.ndarray.tolist(v)), f"{label}: plain Python expectation, got {items(new)}")
    if new.size > 0 and not new.is_object():
        # Mutating the result must not show in self or in a later call.
        new[0] = new[-1]
        check(items(v) == before, f"{label}: self unchanged by mutating result")
        check(same(v.unique(), old), f"{label}: repeated call")

def V(array):
    return np.asarray(array).view(Vector)

i8 = np.iinfo(np.int64)
u8 = np.iinfo(np.uint64)

# First occurrences already in ascending order of value: the new path.
compare(V(np.array([1, 1, 1, 2, 2, 3])), "docstring example")
compare(V(np.array([1, 2, 3, 4])), "sorted, no duplicates")
compare(V(np.array([1, 2, 1, 3, 2, 1, 3])), "first occurrences sorted, later ones not")
compare(V(np.array([5])), "single")
compare(V(np.array([5, 5, 5])), "all the same")
compare(V(np.array([i8.min, i8.min, -1, 0, i8.max, i8.max], np.int64)), "int64 extreme sorted")
compare(V(np.array([0, 0, 2**63 - 1, 2**63, u8.max, u8.max], np.uint64)), "uint64 extreme sorted")
compare(V(np.array([False, False, True, False])), "bool sorted")
compare(V(np.array([-np.inf, -1.5, -0.0, 0.0, 1.5, np.inf, np.nan, np.nan])), "float sorted with inf, zeros, NaN last")
compare(V(np.array(["1970-01-01", "1970-01-01", "2022-10-15", "NaT", "NaT"], "datetime64[D]")), "date sorted, NaT last")
compare(V(np.array([-5, 0, 0, 5, "NaT"], "timedelta64[s]")), "timedelta sorted, NaT last")
compare(V(np.array(["", "", "a", "a", "b", "å", "\U0001f600"], dtypes.string)), "string sorted")
compare(V(np.array(["a" * 60, "a" * 60, "b" * 60], dtypes.string)), "string long sorted")
compare(V(np.array(["", "a", "b"])), "fixed string sorted")
compare(V(np.arange(100000) // 100), "large sorted")
# Not in order: must keep going through the old path.
compare(V(np.array([3, 1, 2, 1, 3])), "int unsorted")
compare(V(np.array([3, 2, 1])), "int descending")
compare(V(np.array([2, 1, 1, 2])), "int two values swapped")
compare(V(np.array([i8.max, i8.min, 0, -1, i8.max], np.int64)), "int64 extreme")
compare(V(np.array([u8.max, 0, 2**63, 2**63 - 1, u8.max], np.uint64)), "uint64 extreme")
compare(V(np.array([True, False, True])), "bool unsorted")
compare(V(np.array([np.nan, 1.5, np.nan, -np.inf, np.inf, 0.0, -0.0, 1.5])), "float NaN first")
compare(V(np.array([np.nan, np.nan])), "float all NaN")
compare(V(np.array([0.0, -0.0, 0.0])), "float zeros")
compare(V(np.array(["NaT", "2022-10-15", "NaT", "1970-01-01"], "datetime64[D]")), "date NaT first")
compare(V(np.array(["NaT", "NaT"], "datetime64[us]")), "datetime all NaT")
compare(V(np.array([5, "NaT", 0, "NaT", 5], "timedelta64[s]")), "timedelta unsorted")
compare(V(np.array(["b", "", "a", "", "å", "å", "å", "b"], dtypes.string)), "string unsorted non-ASCII")
compare(V(np.array(["b" * 60, "a" * 60, "b" * 60, "c"], dtypes.string)), "string long unsorted")
compare(V(np.array(["a", "a\0", "a", "a\0\0"], dtypes.string)), "string trailing NUL", independent=False)
compare(V(np.array(["b", "", "a", "b"])), "fixed string unsorted")
compare(V(np.array([b"b", b"a", b"b"])), "bytes")
compare(V(np.array([2+1j, 1+5j, 2+1j])), "complex")
compare(V(np.array([3, 1, 2, 1], ">i4")), "big-endian unsorted")
compare(V(np.array([1, 1, 2, 3], ">i4")), "big-endian sorted")
compare(V(np.array([1.5, 1.5, 2.5], np.dtype("f8", metadata={"a": 1}))), "dtype metadata")
compare(V(np.array(["a", "a", "b"], StringDType())), "StringDType without na_object")
compare(V(np.arange(30)[::-3] % 4), "strided view")
compare(V(np.arange(100000)[::-1] % 1000), "large unsorted")
# Empty.
for dtype in [int, float, bool, "datetime64[D]", "timedelta64[s]", dtypes.string, "U1", object]:
    compare(V(np.array([], dtype)), f"empty {dtype}")
# Objects.
compare(V(np.array([1, 2, 2, 3], object)), "object ints", independent=False)
compare(V(np.array([3, 1, 3], object)), "object ints unsorted", independent=False)
compare(V(np.array([1, None, "a"], object)), "object mixed", independent=False)
compare(V(np.array([None, None], object)), "object all None", independent=False)
# Ordinary construction.
compare(Vector([1, 1, 2, None, None]), "Vector ints with None")
compare(Vector(["a", "b", "a", None]), "Vector strings with None")
compare(Vector([]), "Vector empty")
# Twisted two-dimensional vectors fail or work the same way as before.
compare(V(np.array([[1, 2], [2, 1]])), "2-D int", independent=False)
compare(V(np.array([[1, 1], [1, 1]])), "2-D int all the same", independent=False)
compare(V(np.array([[1.5, np.nan]])), "2-D float", independent=False)
compare(V(np.zeros((0, 2))), "2-D empty", independent=False)

print("OK" if not failures else f"{len(failures)} FAILURES")
sys.exit(1 if failures else 0)
