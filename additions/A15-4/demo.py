import os, sys; sys.path.insert(0, os.getcwd())

import csv
import gzip
import io
import shutil
import string
import tempfile

import numpy as np
import dataiter as di

from attd import AttributeDict
from dataiter import ListOfDicts

TMP = tempfile.mkdtemp(dir=os.path.dirname(os.path.abspath(__file__)))
failures = []

def check(label, ok):
    if not ok:
        failures.append(label)
        print("FAIL", label)

def letters(n):
    # a, b, ..., z, aa, bb, ...
    out = []
    batch = 1
    while len(out) < n:
        for letter in string.ascii_lowercase:
            out.append(letter * batch)
        batch += 1
    return out[:n]

def reference(text, sep=",", header=True, keys=[], types={}):
    # The old algorithm in plain Python, returns a list of plain dicts.
    rows = list(csv.reader(io.StringIO(text, newline=""), dialect="unix", delimiter=sep))
    if not rows:
        return []
    colnames = rows.pop(0) if header else letters(len(rows[0]))
    if keys:
        drop = [i for i in range(len(rows[0])) if colnames[i] not in keys]
        for row in rows:
            for i in reversed(drop):
                del row[i]
        colnames = [x for x in colnames if x in keys]
    data = [dict(zip(colnames, x)) for x in rows]
    for key, type in types.items():
        for item in data:
            if key in item:
                item[key] = type(item[key])
    return data

def same_dicts(a, b):
    # NaN-aware comparison of lists of dicts.
    def same(x, y):
        return x == y or (isinstance(x, float) and isinstance(y, float) and x != x and y != y)
    return (len(a) == len(b) and
            all(list(x) == list(y) and all(same(x[k], y[k]) for k in x) for x, y in zip(a, b)))

def run(function, *args, **kwargs):
    try:
        return ("ok", function(*args, **kwargs))
    except Exception as e:
        return ("error", type(e), str(e))

def write_text(name, text, encoding="utf-8"):
    path = os.path.join(TMP, name)
    opener = gzip.open if name.endswith(".gz") else open
    with opener(path, "wt", encoding=encoding, newline="") as f:
        f.write(text)
    return path

# THE REPORTED CASE: only a header line and keys given.
for text in ["a,b,c\n", "a,b,c", "a\n", '"a","b"\n', "\n", "ä,ö\n"]:
    for keys in [["a"], ["a", "c"], ["nonexistent"], ("b",), {"a"}, ["ä"]]:
        path = write_text("header-only.csv", text)
        for reader in [ListOfDicts.read_csv]:
            data = reader(path, keys=keys)
            check(f"reported {text!r} {keys}: type", type(data) is ListOfDicts)
            check(f"reported {text!r} {keys}: empty", list(data) == [])
            check(f"reported {text!r} {keys}: same as without keys", list(data) == list(reader(path)))
            data = reader(path, keys=keys, types={"a": int})
            check(f"reported {text!r} {keys}: with types", type(data) is ListOfDicts and list(data) == [])
            check(f"reported: clean state", data._group_keys == () and data._obsolete is False and data._predecessor is None)
path = write_text("header-only.csv.gz", "a,b\n")
check("reported gz", list(ListOfDicts.read_csv(path, keys=["a"])) == [])
path = write_text("header-only.csv", "a;b\n")
check("reported sep", list(ListOfDicts.read_csv(path, keys=["a"], sep=";")) == [])
# Sanity of the reference: it does fail in the reported case like the old code.
check("reference raises IndexError", run(reference, "a,b\n", keys=["a"])[:2] == ("error", IndexError))

# EVERYTHING ELSE: same results and same exceptions as the old algorithm.
TEXTS = {
    "ordinary": "a,b,c\n1,2,3\n4,5,6\n",
    "no trailing newline": "a,b,c\n1,2,3",
    "single row": "a,b\nx,y\n",
    "single column": "a\n1\n2\n",
    "empty file": "",
    "only newline": "\n",
    "header only": "a,b,c\n",
    "blank first data row": "a,b\n\n1,2\n",
    "blank last row": "a,b\n1,2\n\n",
    "short first row": "a,b,c\n1\n4,5,6\n",
    "long first row": "a,b\n1,2,3\n4,5\n",
    "short later row": "a,b,c\n1,2,3\n4\n",
    "long later row": "a,b\n1,2\n3,4,5\n",
    "duplicate names": "a,a,b\n1,2,3\n",
    "empty values": "a,b\n,\n,x\n",
    "quoted": 'a,b\n"x,y","say ""hi"""\n"line1\nline2",z\n',
    "non-ascii": "nimi,山\nÅke,田\nÖhman,\U0001f600\n",
    "numbers": "i,f\n18446744073709551615,nan\n-9223372036854775808,inf\n123456789012345678901234567890,-inf\n",
    "semicolons": "a;b\n1;2\n",
    "crlf": "a,b\r\n1,2\r\n",
    "header with empty name": "a,,b\n1,2,3\n",
    "many columns": ",".join(f"c{i}" for i in range(30)) + "\n" + ",".join(str(i) for i in range(30)) + "\n",
}
KEYS = [[], ["a"], ["b", "a"], ["c"], ["nonexistent"], ("a", "b"), {"a", "c"}, "ab", ["nimi"], ["i"], ["c29", "c0"], [""], ["aa"]]
TYPES = [{}, {"a": int}, {"a": float, "b": str, "nonexistent": int}, {"i": int, "f": float}, {"b": lambda x: x or None}]

n = 0
for label, text in TEXTS.items():
    path = write_text("case.csv", text)
    for header in [True, False]:
        for sep in [",", ";"]:
            for keys in KEYS:
                for types in TYPES:
                    kwargs = dict(sep=sep, header=header, keys=keys, types=types)
                    expected = run(reference, text, **kwargs)
                    if expected[:2] == ("error", IndexError) and keys and len(text.strip("\n").splitlines()) <= 1 and header:
                        # The reported case, checked above.
                        got = run(ListOfDicts.read_csv, path, **kwargs)
                        check(f"{label} {kwargs}: reported case works", got[0] == "ok" and list(got[1]) == [])
                        continue
                    got = run(ListOfDicts.read_csv, path, **kwargs)
                    n += 1
                    if expected[0] == "error":
                        check(f"{label} {kwargs}: same exception {expected} {got}", got == expected)
                        continue
                    check(f"{label} {kwargs}: ok", got[0] == "ok")
                    if got[0] != "ok": continue
                    data = got[1]
                    check(f"{label} {kwargs}: class", type(data) is ListOfDicts and all(type(x) is AttributeDict for x in data))
                    check(f"{label} {kwargs}: values", same_dicts([dict(x) for x in data], expected[1]))
                    check(f"{label} {kwargs}: key order", [list(x) for x in data] == [list(x) for x in expected[1]])
                    check(f"{label} {kwargs}: value types", [[type(v) for v in x.values()] for x in data] == [[type(v) for v in x.values()] for x in expected[1]])
print("compared", n, "argument combinations")

# NaN results of types compare unequal, check them separately.
path = write_text("nan.csv", "a,b\nnan,1\n")
data = ListOfDicts.read_csv(path, keys=["a"], types={"a": float})
check("nan", len(data) == 1 and list(data[0]) == ["a"] and data[0].a != data[0].a)

# keys given as a NumPy array: same ValueError from its truth value as before.
path = write_text("np.csv", "a,b\n1,2\n")
got = run(ListOfDicts.read_csv, path, keys=np.array(["a", "b"]))
check("numpy keys, rows", got[:2] == ("error", ValueError))
path = write_text("np.csv", "a,b\n")
got = run(ListOfDicts.read_csv, path, keys=np.array(["a", "b"]))
check("numpy keys, header only", got[:2] == ("error", ValueError))

# The arguments are not modified, repeated calls give independent results.
keys, types = ["a"], {"a": int}
path = write_text("rep.csv", "a,b\n1,2\n")
one = ListOfDicts.read_csv(path, keys=keys, types=types)
two = ListOfDicts.read_csv(path, keys=keys, types=types)
check("arguments untouched", keys == ["a"] and types == {"a": int})
check("repeated equal", one == two == [{"a": 1}])
one[0].a = 99
check("repeated independent", two[0].a == 1)
path = write_text("rep.csv", "a,b\n")
one = ListOfDicts.read_csv(path, keys=keys, types=types)
two = ListOfDicts.read_csv(path, keys=keys, types=types)
list.append(one, AttributeDict(a=1))
check("empty results independent", len(two) == 0 and one is not two)

# Round trip with write_csv of the result of the fix is still refused.
got = run(one.clear().write_csv, os.path.join(TMP, "x.csv"))
check("empty write refused", got[:2] == ("error", ValueError))

# DataFrame reader (di.read_csv) is not affected.
path = write_text("df.csv", "a,b\n1,2\n")
check("di.read_csv", di.read_csv(path, columns=["a"]).colnames == ["a"])

shutil.rmtree(TMP)
print("failures:", len(failures))
sys.exit(1 if failures else 0)
