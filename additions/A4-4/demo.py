import os, sys; sys.path.insert(0, os.getcwd())

# Change 4: DataFrame.sort only copies a fixed-width string key when it has
# missing values to overwrite. Compare with (a) a verbatim copy of the old
# implementation and (b) an order computed with plain Python's sorted().

import itertools
import numpy as np
import dataiter as di

from dataiter import DataFrame, DataFrameColumn, Vector

def old_sort(self, **colname_dir_pairs):
    def generate():
        def sort_key(colname, dir):
            if dir not in [1, -1]:
                raise ValueError("dir should be 1 or -1")
            column = self[colname]
            column = column._optimize_for_argsort()
            if column._is_string_fixed():
                column = column.copy()
                column[column.is_na()] = "￿"
            if dir > 0 and any((
                column._is_string_fixed(),
                column.is_boolean(),
                column.is_bytes(),
                column.is_datetime(),
                column.is_float(),
                column.is_integer(),
                column.is_timedelta(),
            )): return column
            if not column.is_number():
                column = column.rank(method="min")
            if dir > 0:
                return column
            if column.is_integer() and not column.is_timedelta():
                return ~column
            return -column
        indices = np.lexsort(tuple(
            sort_key(*x) for x in reversed(colname_dir_pairs.items())))
        for colname, column in self.items():
            yield colname, column[indices].copy()
    return self._new(generate())

def reprs(column):
    return [repr(x) for x in np.asarray(column)]

def check_same(a, b):
    assert type(a) is type(b), (type(a), type(b))
    assert list(a.keys()) == list(b.keys()), (list(a), list(b))
    for name in a:
        assert type(a[name]) is type(b[name]) is DataFrameColumn
        assert a[name].dtype == b[name].dtype, (name, a[name].dtype, b[name].dtype)
        assert a[name].shape == b[name].shape
        assert reprs(a[name]) == reprs(b[name]), name

def outcome(function):
    try:
        return "ok", function()
    except Exception as error:
        return "error", (type(error), str(error))

def expected_string_order(values, dir, fixed):
    # Plain Python model of what sort has always done with string keys:
    # strings compare by code point, ties stay in their original order in
    # both directions, and a missing string ("") counts as "\uffff" in a
    # fixed-width key and as greater than anything otherwise.
    top = "\uffff" if fixed else chr(0x10ffff) * 100
    keys = [x if x != "" else top for x in values]
    rank = {x: j for j, x in enumerate(sorted(set(keys)))}
    return sorted(range(len(values)), key=lambda i: dir * rank[keys[i]])

words = {
    "ordinary": ["pear", "apple", "fig", "apple", "kiwi", "fig", "banana", "date"],
    "with-missing": ["pear", "", "fig", "apple", "", "fig", "banana", ""],
    "all-missing": ["", "", "", "", "", "", "", ""],
    "non-ascii": ["åäö", "aao", "日本語", "Åäö", "zebra", "日本", "\U0001f600", "￿"],
    "non-ascii-missing": ["åäö", "", "日本語", "Åäö", "", "日本", "\U0001f600", "￾"],
    "ffff": ["￿", "a", "￿￿", "", "￿", "b", "", "￿a"],
    "sorted": ["a", "a", "b", "c", "c", "d", "e", "f"],
    "reversed": ["f", "e", "d", "c", "c", "b", "a", "a"],
    "all-equal": ["same"] * 8,
    "spaces-nul": [" ", "a ", "a", " a", "a\x00b", "a\x01", "A", "a"],
    "long": ["x" * 60, "x" * 59 + "a", "", "x" * 49, "y", "x" * 60, "", "x" * 50],
    "length-49-50": ["b" * 49, "a" * 49, "", "c", "a" * 49, "c", "b", ""],
}

n = 0
for label, values in words.items():
    for length in [8, 5, 2, 1, 0]:
        vals = values[:length]
        for kind in ["string", "fixed", "fixed-wide", "object"]:
            if kind == "string":
                key = Vector.fast(vals, str)
            elif kind == "fixed":
                width = max([len(x) for x in vals] + [1])
                key = Vector.fast(vals, f"U{width}")
            elif kind == "fixed-wide":
                key = Vector.fast(vals, "U70")
            else:
                key = Vector.fast([x or None for x in vals] + [None], object)[:length]
            data = DataFrame(
                k=key,
                i=Vector.fast(np.arange(length), int),
                g=Vector.fast([i % 2 for i in range(length)], int),
                f=Vector.fast([np.nan if i % 3 == 0 else -i / 2 for i in range(length)], float))
            before = {name: reprs(column) for name, column in data.items()}
            key_before = data.k
            for pairs in [dict(k=1), dict(k=-1), dict(g=1, k=1), dict(g=-1, k=-1),
                          dict(k=1, f=-1), dict(k=-1, g=1), dict(f=1, k=1), dict(k=1, k2=1)]:
                if "k2" in pairs:
                    frame = data.modify(k2=data.k)
                else:
                    frame = data
                new = frame.sort(**pairs)
                old = old_sort(frame, **pairs)
                check_same(new, old)
                if list(pairs) == ["k"] and kind != "object":
                    fixed = kind != "string" or 0 < max(map(len, vals), default=0) < 50
                    order = expected_string_order(vals, pairs["k"], fixed)
                    assert new.i.tolist() == order, (label, kind, pairs, new.i.tolist(), order)
                # The key column of self is never modified in place,
                # the result never shares memory with self.
                assert data.k is key_before
                assert {name: reprs(column) for name, column in data.items()} == before
                for name in new:
                    assert not np.shares_memory(new[name], frame[name])
                    assert new[name].flags.owndata and new[name].flags.writeable
                    if new.nrow > 0:
                        new[name][0] = new[name][-1]
                assert {name: reprs(column) for name, column in data.items()} == before
                check_same(frame.sort(**pairs), old)
                n += 1

# A read-only fixed-width key, with and without missing values.
for vals in (["b", "a", "c", "a"], ["b", "", "c", "a"]):
    key = DataFrameColumn(np.array(vals, "U1"))
    key.flags.writeable = False
    data = DataFrame(i=[0, 1, 2, 3])
    dict.__setitem__(data, "k", key)
    for dir in [1, -1]:
        check_same(data.sort(k=dir), old_sort(data, k=dir))
        assert data.sort(k=dir).i.tolist() == expected_string_order(vals, dir, True)
        assert data.k.tolist() == [x or None for x in vals]
        n += 1

# Other dtypes are untouched by the change; checked anyway.
big = 2**63 - 1
nasty = DataFrame(
    f=Vector.fast([np.nan, 0.0, -0.0, np.inf, -np.inf, np.nan, 1.5, 1.5], float),
    d=Vector.fast(["NaT", "2020-01-01", "2020-01-01", "NaT", "1970-01-01", "1677-09-22", "NaT", "2262-04-11"], "datetime64[D]"),
    m=Vector.fast([np.timedelta64("NaT"), np.timedelta64(0, "s"), np.timedelta64(0, "s"), np.timedelta64("NaT"),
                   np.timedelta64(1, "s"), np.timedelta64(-1, "s"), np.timedelta64(1, "s"), np.timedelta64("NaT")], "timedelta64[s]"),
    s=["", "åäö", "", "日本語", "åäö", "a", "a", ""],
    fx=Vector.fast(["", "åäö", "", "x", "åäö", "a", "a", ""], "U3"),
    by=Vector.fast([b"", b"a", b"", b"\xff", b"a", b"\xff", b"b", b""], "S1"),
    o=Vector.fast([None, "b", None, "x", "b", "x", "a", "a"], object),
    i=Vector.fast([big, -big - 1, 0, -1, big, -big - 1, 2, 2], np.int64),
    u=Vector.fast([2**64 - 1, 2**64 - 1, 0, 0, 1, 1, 2**63, 2**63], np.uint64),
    b=Vector.fast([True, False, True, False, True, False, True, False], bool))
for r in [1, 2]:
    for colnames in itertools.permutations(nasty.colnames, r):
        for dirs in itertools.product([1, -1], repeat=r):
            pairs = dict(zip(colnames, dirs))
            for frame in (nasty, nasty.slice(rows=[3]), nasty.slice(rows=[])):
                check_same(frame.sort(**pairs), old_sort(frame, **pairs))
                n += 1

# Exceptions are unchanged.
for frame, pairs in [(nasty, {}), (nasty, dict(fx=0)), (nasty, dict(fx=2)), (nasty, dict(nonexistent=1)),
                     (nasty, dict(fx=1, s=None)), (DataFrame(), {}), (DataFrame(), dict(x=1)),
                     (nasty, dict(fx="1"))]:
    new = outcome(lambda: frame.sort(**pairs))
    old = outcome(lambda: old_sort(frame, **pairs))
    assert new[0] == old[0] == "error", (pairs, new, old)
    assert new[1] == old[1], (pairs, new, old)
    n += 1

# Callers of sort: aggregate, split, full_join.
data = DataFrame(g=["b", "a", "b", "", "a"], x=[1.0, 2.0, 3.0, 4.0, 5.0])
stat = data.group_by("g").aggregate(n=di.count(), x=di.sum("x"))
assert stat.g.tolist() == ["a", "b", None] and stat.n.tolist() == [2, 2, 1] and stat.x.tolist() == [7.0, 4.0, 4.0]
assert [x.tolist() for x in data.split("g")] == [[1, 4], [0, 2], [3]]

print(f"sort: {n} cases agree")
