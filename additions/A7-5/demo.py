import os, sys; sys.path.insert(0, os.getcwd())

# DataFrame.unique: shortcut for data frames of at most one row.
# Compare against the old implementation (copied verbatim into a subclass
# below) and against expectations built with plain Python, for frames of
# 0, 1 and more rows, all data types, all-missing data and error cases.

import numpy as np
import dataiter as di

from dataiter import deco

class OldDataFrame(di.DataFrame):
    @deco.new_from_generator
    def unique(self, *colnames):
        colnames = colnames or self.colnames
        columns = [self[x] for x in colnames]
        for i, column in enumerate(list(columns)):
            if column.is_datetime() or column.is_float() or column.is_timedelta():
                na = column.is_na()
                if not na.any(): continue
                zero = np.zeros(1, column.dtype)[0]
                columns[i] = column.replace_na(zero)
                columns.append(na)
        rows = list(zip(*columns))
        seen = set()
        keep = []
        for i in range(self.nrow):
            if rows[i] not in seen:
                seen.add(rows[i])
                keep.append(i)
        for colname, column in self.items():
            yield colname, column[keep].copy()

def outcome(function):
    try:
        return function()
    except Exception as error:
        return (type(error), str(error))

def assert_same(new, old, context):
    if isinstance(old, tuple):
        assert new == old, (context, new, old)
        return
    assert isinstance(new, di.DataFrame), (context, new)
    assert new.colnames == old.colnames, (context, new.colnames, old.colnames)
    assert new.nrow == old.nrow, (context, new.nrow, old.nrow)
    assert new._group_colnames == old._group_colnames == ()
    for name in new.colnames:
        a, b = new[name], old[name]
        assert type(a) is type(b) is di.DataFrameColumn, (context, name)
        assert a.dtype == b.dtype, (context, name, a.dtype, b.dtype)
        assert a.shape == b.shape and a.flags.c_contiguous and a.flags.writeable
        assert a.flags.owndata == b.flags.owndata, (context, name)
        assert a.is_na().tolist() == b.is_na().tolist(), (context, name)
        assert repr(list(a)) == repr(list(b)), (context, name, a, b)

NAN = np.nan
OBJ = di.Vector.fast([None] * 4, object)
OBJ[0] = (1, 2)
OBJ[1] = "a"
OBJ[3] = np.float64("nan")
BAD = di.Vector.fast([None] * 4, object)
BAD[0] = [1, 2]
BAD[1] = {"a": 1}
BAD[3] = {1}
COLUMNS = {
    "int8": np.array([-128, 127, 0, 0], np.int8),
    "int64": np.array([-2**63, 2**63 - 1, 0, 0]),
    "uint64": np.array([2**64 - 1, 0, 2**63, 2**63], np.uint64),
    "float": np.array([NAN, 1.5, np.inf, -np.inf]),
    "float_na": np.array([NAN, NAN, NAN, NAN]),
    "float_zero": np.array([0.0, -0.0, NAN, 0.0]),
    "float32": np.array([0.1, NAN, 1, 1], np.float32),
    "float16": np.array([NAN, 1, 2, 2], np.float16),
    "longdouble": np.array([1, NAN, 2, 2], np.longdouble),
    "complex": np.array([1+2j, complex(NAN, 1), 3, 3]),
    "bool": np.array([True, False, False, True]),
    "bytes": np.array([b"", b"a", b"\xff", b"a"]),
    "fixed": np.array(["", "ä", "日本語", "ä"]),
    "string": di.Vector(["", "ä", "日本語", "ä"]),
    "string_na": di.Vector(["", "", "", ""]),
    "date": np.array(["NaT", "2020-01-01", "1970-01-01", "NaT"], "datetime64[D]"),
    "datetime_ns": np.array(["1970-01-01", "NaT", "2020-01-01T00:00:00.000000001", "NaT"], "datetime64[ns]"),
    "datetime_na": np.array(["NaT"] * 4, "datetime64[s]"),
    "timedelta": np.array(["NaT", 0, -5, 0], "timedelta64[s]"),
    "timedelta_na": np.array(["NaT"] * 4, "timedelta64[D]"),
    "object": OBJ,
    "object_na": di.Vector.fast([None] * 4, object),
    "unhashable": BAD,
    "void": np.array([b"ab", b"cd", b"ab", b"ab"], "V2"),
    "items": np.arange(4),
}

def compare(data, *colnames):
    new = outcome(lambda: di.DataFrame(data).unique(*colnames))
    old = outcome(lambda: OldDataFrame(data).unique(*colnames))
    assert_same(new, old, (data.colnames, data.nrow, colnames))
    if isinstance(new, di.DataFrame):
        for a in new.columns:
            for b in data.columns:
                assert not np.shares_memory(a, b)
    return new

full = di.DataFrame(COLUMNS)
assert full.nrow == 4
for rows in [[0], [1], [2], [3], [], [0, 1], [1, 1], [3, 3, 3], [0, 1, 2, 3], [2, 3, 2, 3]]:
    data = full.slice(rows)
    compare(data)
    compare(data, "int8")
    compare(data, "nope")
    compare(data, "int8", "nope")
    for name in COLUMNS:
        compare(data, name)
        compare(data, name, "int8")
        compare(data, "string", name)
        compare(data.select(name))
        compare(data.select(name, "float"))
        compare(data.select("int8", "string"), name) # KeyError
    # Only non-key columns of the difficult types.
    compare(data, "int8", "float", "string")
    compare(data.unselect("unhashable", "void"))
    compare(data.unselect("unhashable", "void", "object", "object_na"))
compare(di.DataFrame())
compare(di.DataFrame(), "x")
compare(di.DataFrame(x=[]))
compare(di.DataFrame(x=[]), "x")
compare(di.DataFrame(x=1, y="a"))
compare(di.DataFrame(x=NAN))
compare(di.DataFrame(x=None))

# Independent expectations.
simple = full.select("int8", "float", "string", "date", "bool")
for i in range(4):
    one = simple.slice([i])
    for colnames in [(), ("int8",), ("float", "date"), ("string", "bool", "int8")]:
        unique = one.unique(*colnames)
        assert unique == one and unique is not one
        assert unique.colnames == one.colnames and unique.nrow == 1
        assert [x.dtype for x in unique.columns] == [x.dtype for x in simple.columns]
        for name in one:
            assert unique[name] is not one[name] and not np.shares_memory(unique[name], one[name])
            assert unique[name].tolist() == [simple[name].tolist()[i]]
none = simple.slice([])
unique = none.unique()
assert unique == none and unique is not none and unique.nrow == 0
assert unique.colnames == simple.colnames
assert [x.dtype for x in unique.columns] == [x.dtype for x in simple.columns]
assert di.DataFrame().unique() == di.DataFrame() and di.DataFrame().unique().ncol == 0

# Still a fresh copy: mutating the result or the original afterwards does
# not show in the other, repeated calls give separate frames.
one = di.DataFrame(a=[1], b=["x"], c=[NAN])
first = one.unique()
second = one.unique("a")
assert first == second and first.a is not second.a
first.a[0] = 100
first.b[0] = "changed"
first.d = 1
assert one.a.tolist() == [1] and one.b.tolist() == ["x"] and one.colnames == ["a", "b", "c"]
assert second.a.tolist() == [1]
one.a[0] = 7
assert second.a.tolist() == [1] and first.a.tolist() == [100]
assert one.unique().a.tolist() == [7]
# Grouping is not carried over, as before.
assert one.group_by("a").unique()._group_colnames == ()
one.group_by()

# More rows right after: nothing is remembered.
two = one.rbind(one).rbind(di.DataFrame(a=[8], b=["y"], c=[NAN]))
assert two.unique().nrow == 2 and two.unique("c").nrow == 1 and one.unique().nrow == 1

# Methods built on unique with frames of at most one row.
for data in [simple.slice([0]), simple.slice([]), simple.slice([2])]:
    old = OldDataFrame(data)
    assert_same(data.count("int8", "string"), old.count("int8", "string"), "count")
    assert_same(data.copy().group_by("float").aggregate(n=di.count(), x=di.first("int8")),
                old.copy().group_by("float").aggregate(n=di.count(), x=di.first("int8")), "aggregate")
    assert [x.tolist() for x in data.split("date")] == [x.tolist() for x in old.split("date")]
    assert_same(data.left_join(data, "int8"), old.left_join(old, "int8"), "left_join")
    assert_same(simple.left_join(data, "string"), OldDataFrame(simple).left_join(old, "string"), "left_join")
    assert_same(simple.anti_join(data, "float"), OldDataFrame(simple).anti_join(old, "float"), "anti_join")
    assert_same(data.full_join(simple, "int8"), old.full_join(OldDataFrame(simple), "int8"), "full_join")
    a, b = outcome(lambda: data.compare(simple, "int8")), outcome(lambda: old.compare(OldDataFrame(simple), "int8"))
    assert repr(a) == repr(b), (a, b)

print("OK")
