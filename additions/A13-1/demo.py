import os, sys; sys.path.insert(0, os.getcwd())
import itertools, math, datetime, warnings
import numpy as np
import dataiter as di
from dataiter import DataFrame, DataFrameColumn, Vector, util

FAILURES = []

def check(label, ok):
    print(("ok   " if ok else "FAIL ") + label)
    if not ok:
        FAILURES.append(label)

def same_scalar(a, b):
    if type(a) is not type(b):
        return False
    if isinstance(a, (float, np.floating)) and a != a:
        return b != b
    if isinstance(a, (np.datetime64, np.timedelta64)) and np.isnat(a):
        return bool(np.isnat(b)) and a.dtype == b.dtype
    if isinstance(a, np.ndarray):
        return same_array(a, b)
    return bool(a == b)

def same_array(a, b):
    # Same class, dtype, shape and element-wise identical values
    # (NaN/NaT positions included, -0.0 vs 0.0 told apart via bytes).
    if type(a) is not type(b): return False
    if a.dtype != b.dtype or a.shape != b.shape: return False
    if a.dtype.kind in "biufcmMSUV?" and not a.dtype.hasobject:
        return a.tobytes() == b.tobytes()
    return all(same_scalar(x, y) for x, y in zip(list(a), list(b)))

def same_frame(a, b):
    return (type(a) is type(b) and
            list(a.keys()) == list(b.keys()) and
            all(same_array(a[k], b[k]) for k in a) and
            a._group_colnames == b._group_colnames)

def outcome(function):
    # Result or (exception type, message) of calling function.
    try:
        return ("value", function())
    except Exception as e:
        return ("error", type(e), str(e))

def same_outcome(x, y, same=None):
    if x[0] != y[0]: return False
    if x[0] == "error": return x[1:] == y[1:]
    return (same or same_frame)(x[1], y[1])

# --- Change 1: itertools.chain(*x) -> itertools.chain.from_iterable(x)
# in DataFrame.from_json and DataFrame.rbind.

import json

def old_from_json(cls, string, *, columns=[], dtypes={}, **kwargs):
    data = string
    if isinstance(data, str):
        data = json.loads(data, **kwargs)
    if not isinstance(data, list):
        raise TypeError("Not a list")
    keys = util.unique_keys(itertools.chain(*data))
    if columns:
        keys = [x for x in keys if x in columns]
    data = {k: [x.get(k, None) for x in data] for k in keys}
    for name, dtype in dtypes.items():
        data[name] = DataFrameColumn(data[name], dtype)
    return cls(**data)

def old_rbind(self, *others):
    def generate():
        data_frames = [self] + list(others)
        colnames = util.unique_keys(itertools.chain(*data_frames))
        def get_part(data, colname):
            if colname in data:
                return data[colname]
            for ref in data_frames:
                if colname not in ref: continue
                value = ref[colname].na_value
                dtype = ref[colname].na_dtype
                return Vector.fast([value], dtype).repeat(data.nrow)
        for colname in colnames:
            parts = [get_part(x, colname) for x in data_frames]
            total = DataFrameColumn(np.concatenate(parts))
            yield colname, total
    return self._new(generate())

# 1. Plain Python expectations for the ordinary cases.
data = DataFrame.from_json('[{"a": 1, "b": 2}, {"c": 3, "a": 4}]')
check("from_json: column order is order of first appearance", data.colnames == ["a", "b", "c"])
check("from_json: values", data.a.tolist() == [1, 4] and data.b.tolist() == [2, None] and data.c.tolist() == [None, 3])
check("from_json: dtypes", [str(x.dtype) for x in data.columns] == ["int64", "float64", "float64"])
a = DataFrame(x=[1, 2], y=["a", "b"])
b = DataFrame(y=["c"], z=[True])
r = a.rbind(b)
check("rbind: column order", r.colnames == ["x", "y", "z"])
check("rbind: values", r.x.tolist() == [1, 2, None] and r.y.tolist() == ["a", "b", "c"] and r.z.tolist() == [None, None, True])
check("rbind: dtypes", [str(x.dtype) for x in r.columns] == ["float64", str(di.dtypes.string), "object"])

# 2. from_json against the old implementation, nasty inputs included.
json_inputs = [
    [],
    [{}],
    [{}, {}, {}],
    [{"a": 1}],
    [{"a": 1, "b": 2}, {"c": 3, "a": 4}],
    [{"b": None}, {"a": float("nan"), "b": "x"}, {}],
    [{"ä": "öö", "𝔘": "𝔘𝔫𝔦", "": 1}, {"": 2, "ä": None}],
    [{"a": 2**63 - 1, "b": -2**63}, {"a": 0, "b": 1}],
    [{"a": 2**64 - 1}, {"a": 0}],
    [{"a": float("inf")}, {"a": float("-inf")}, {"a": float("nan")}],
    [{"a": [1, 2]}, {"a": {"x": 1}}],
    [{"a": 1}] * 1000 + [{"zzz": 1}],
    '[{"a": 1, "a": 2}, {"b": null}]',
    '[]',
    '[{"a": 1e400}, {"a": -0.0}]',
    # Elements that are not dicts
    [1, 2],
    [None],
    [{"a": 1}, None],
    ["ab", "cd"],
    [["a", "b"], ["c"]],
    [("a",)],
    # Not a list at all
    {"a": 1},
    '{"a": 1}',
    'not json',
    None,
]
for i, string in enumerate(json_inputs):
    for kwargs in [{}, {"columns": ["a"]}, {"columns": ["b", "a"]}, {"dtypes": {"a": float}}, {"dtypes": {"a": object}, "columns": ["a", "ä"]}]:
        x = outcome(lambda: DataFrame.from_json(string, **kwargs))
        y = outcome(lambda: old_from_json(DataFrame, string, **kwargs))
        check(f"from_json input {i} {kwargs}", same_outcome(x, y))

# The input list is left alone and iterated just the once per call.
items = [{"a": 1}, {"b": 2}]
DataFrame.from_json(items)
check("from_json: argument not modified", items == [{"a": 1}, {"b": 2}])
x = DataFrame.from_json(items)
y = DataFrame.from_json(items)
check("from_json: repeated call", same_frame(x, y))

# 3. rbind against the old implementation.
NaT = np.datetime64("NaT")
frames = {
    "none": DataFrame(),
    "empty": DataFrame(x=[], y=[]),
    "empty_typed": DataFrame(x=DataFrameColumn([], int), y=DataFrameColumn([], str)),
    "one": DataFrame(x=[1], y=["a"]),
    "ints": DataFrame(x=[3, 1, 2], y=["a", "b", "c"]),
    "other_cols": DataFrame(z=[1.5, np.nan], y=["", "ö𝔘"]),
    "all_na": DataFrame(x=[np.nan, np.nan], d=[NaT, NaT]),
    "floats": DataFrame(x=[np.inf, -np.inf, np.nan, -0.0]),
    "uint": DataFrame(x=np.array([0, 2**64 - 1], np.uint64), u=np.array([1, 2], np.uint8)),
    "extreme": DataFrame(x=[2**63 - 1, -2**63]),
    "dates": DataFrame(d=np.array(["2020-01-01", "NaT"], "datetime64[D]"), t=np.array([1, "NaT"], "timedelta64[s]")),
    "bools": DataFrame(b=[True, False], o=DataFrameColumn([None, "x"], object)),
    "bytes": DataFrame(s=[b"a", b"bc"]),
    "grouped": DataFrame(x=[1, 1, 2], g=[1, 2, 2]).group_by("g"),
}
names = list(frames)
for i in names:
    x = outcome(lambda: frames[i].rbind())
    y = outcome(lambda: old_rbind(frames[i]))
    check(f"rbind {i} alone", same_outcome(x, y))
    for j in names:
        x = outcome(lambda: frames[i].rbind(frames[j]))
        y = outcome(lambda: old_rbind(frames[i], frames[j]))
        check(f"rbind {i} + {j}", same_outcome(x, y))
        x = outcome(lambda: frames[i].rbind(frames[j], frames["ints"], frames[j]))
        y = outcome(lambda: old_rbind(frames[i], frames[j], frames["ints"], frames[j]))
        check(f"rbind {i} + {j} + ints + {j}", same_outcome(x, y))

# Things that are not data frames give the same errors.
for k, other in enumerate([None, 1, {"x": [1]}, "xy", [("x", 1)], iter([])]):
    if k == 5:
        x = outcome(lambda: frames["ints"].rbind(iter([])))
        y = outcome(lambda: old_rbind(frames["ints"], iter([])))
    else:
        x = outcome(lambda: frames["ints"].rbind(other))
        y = outcome(lambda: old_rbind(frames["ints"], other))
    check(f"rbind with non data frame {k}: {x[0]} {x[1] if x[0] == 'error' else ''}", same_outcome(x, y))

# Result is a fresh copy: mutation does not reach the arguments, nor vice versa.
a = DataFrame(x=[1, 2])
b = DataFrame(x=[3])
r = a.rbind(b)
r.x[0] = 100
a.x[1] = 200
b.x[0] = 300
check("rbind: fresh copy", a.x.tolist() == [1, 200] and b.x.tolist() == [300] and r.x.tolist() == [100, 2, 3])
check("rbind: no sharing", not np.shares_memory(r.x, a.x) and not np.shares_memory(r.x, b.x))
r = a.rbind()
check("rbind alone: no sharing", not np.shares_memory(r.x, a.x))

print(f"{len(FAILURES)} failures")
sys.exit(1 if FAILURES else 0)
