import os, sys; sys.path.insert(0, os.getcwd())
# Demo for change 6: DataFrame.from_json (and read_json) with a name in
# `dtypes` that is not among the columns read raises KeyError (as before,
# from the dict lookup), now with a message that says so; all else as before.
import json, math, tempfile
import numpy as np
import dataiter as di

FAILS = []
def check(label, ok):
    print(("ok   " if ok else "FAIL ") + label)
    if not ok: FAILS.append(label)

def exc_class(f):
    try:
        f()
    except BaseException as e:
        return type(e), str(e)
    return None, None

NA = "<NA>"
def norm(x):
    if x is None: return NA
    if isinstance(x, float) and math.isnan(x): return NA
    return x

def cols_of(data):
    return {k: [norm(x) for x in data[k].tolist()] for k in data.colnames}

RECORDS = [{"a": 1, "b": "x", "c": 1.5}, {"a": 2, "b": "y"}, {"a": 3, "c": None, "d": True}]

def expected(records, columns):
    # plain Python: keys in order of first appearance, None where missing
    keys = []
    for r in records:
        for k in r:
            if k not in keys: keys.append(k)
    if columns:
        keys = [k for k in keys if k in columns]
    return {k: [norm(r.get(k)) for r in records] for k in keys}

# 1. names in dtypes that exist: as before, for list and str input
for records in (RECORDS, RECORDS[:1], [], [{}], [{}, {}], [{"a": None}, {"a": None}]):
    for columns in ([], ["a"], ["c", "a"], ["nope"], ["a", "nope"]):
        exp = expected(records, columns)
        for source in (records, json.dumps(records)):
            kind = type(source).__name__
            got = di.DataFrame.from_json(source, columns=columns)
            check(f"{kind} {len(records)} records columns={columns}: no dtypes", cols_of(got) == exp and got.colnames == list(exp) and type(got) is di.DataFrame)
            got = di.DataFrame.from_json(source, columns=columns, dtypes={})
            check(f"{kind} {len(records)} records columns={columns}: dtypes={{}}", cols_of(got) == exp)
            if "a" in exp and all(x != NA for x in exp["a"]):
                got = di.DataFrame.from_json(source, columns=columns, dtypes={"a": float})
                check(f"{kind} {len(records)} records columns={columns}: a as float", got.a.dtype == np.dtype(float) and got.a.tolist() == [float(x) for x in exp["a"]] and got.colnames == list(exp))
                got = di.DataFrame.from_json(source, columns=columns, dtypes={"a": object})
                check(f"{kind} {len(records)} records columns={columns}: a as object", got.a.dtype == np.dtype(object) and got.a.tolist() == exp["a"])
            # 2. names in dtypes that do NOT exist among the columns read: KeyError
            for dtypes in ({"zzz": int}, {"": int}, {"a": float, "zzz": int}, {"zzz": int, "a": float}, {"A": float}, {None: int}, {1: int}, {("a",): int}):
                missing = [k for k in dtypes if k not in exp]
                cls, msg = exc_class(lambda: di.DataFrame.from_json(source, columns=columns, dtypes=dtypes))
                if "a" in dtypes and "a" in exp and any(x == NA for x in exp["a"]) and list(dtypes)[0] == "a":
                    continue # covered below
                check(f"{kind} {len(records)} records columns={columns} dtypes={list(dtypes)} -> KeyError [{msg}]", bool(missing) and cls is KeyError)
            for name in exp:
                cls, msg = exc_class(lambda: di.DataFrame.from_json(source, columns=[k for k in exp if k != name] or ["nope"], dtypes={name: object}))
                check(f"{kind} columns without {name!r}, dtypes with it -> KeyError", cls is KeyError)
    before = json.dumps(records)
    check("records not modified", json.dumps(records) == before)

# 3. order of failures: names are handled in the order of dtypes
records = [{"a": "x"}, {"a": "y"}]
check("bad dtype first -> ValueError", exc_class(lambda: di.DataFrame.from_json(records, dtypes={"a": int, "zzz": int}))[0] is ValueError)
check("missing name first -> KeyError", exc_class(lambda: di.DataFrame.from_json(records, dtypes={"zzz": int, "a": int}))[0] is KeyError)
# not a list: TypeError first, whatever the dtypes
for bad in ({"a": 1}, '{"a": 1}', "1", "null", 5, None, (1, 2)):
    check(f"from_json({bad!r}) -> TypeError", exc_class(lambda: di.DataFrame.from_json(bad, dtypes={"zzz": int}))[0] is TypeError)
check("invalid JSON -> JSONDecodeError", exc_class(lambda: di.DataFrame.from_json("[", dtypes={"zzz": int}))[0] is json.JSONDecodeError)
check("list of non-dicts -> TypeError/AttributeError as before", exc_class(lambda: di.DataFrame.from_json([1, 2]))[0] in (TypeError, AttributeError))
# a KeyError is a LookupError, catching either still works
try:
    di.DataFrame.from_json(records, dtypes={"zzz": int})
    check("LookupError", False)
except LookupError:
    check("LookupError", True)
# the dtypes dict given is not modified, and the default is not either
dtypes = {"a": object}
di.DataFrame.from_json(records, dtypes=dtypes)
check("dtypes not modified", dtypes == {"a": object})
check("default dtypes still empty", di.DataFrame.from_json(records).a.tolist() == ["x", "y"])

# 4. read_json and compare go through from_json
with tempfile.TemporaryDirectory(dir=os.path.dirname(os.path.abspath(__file__))) as tmp:
    path = os.path.join(tmp, "x.json")
    with open(path, "w") as f: json.dump(RECORDS, f)
    got = di.DataFrame.read_json(path, dtypes={"a": float})
    check("read_json", cols_of(got) == {**expected(RECORDS, []), "a": [1.0, 2.0, 3.0]})
    check("read_json columns + dtypes", cols_of(di.DataFrame.read_json(path, columns=["a"], dtypes={"a": float})) == {"a": [1.0, 2.0, 3.0]})
    check("read_json missing -> KeyError", exc_class(lambda: di.DataFrame.read_json(path, columns=["a"], dtypes={"b": str}))[0] is KeyError)
    with open(path, "w") as f: f.write("[]")
    check("read_json of [] ", di.DataFrame.read_json(path).colnames == [] and exc_class(lambda: di.DataFrame.read_json(path, dtypes={"a": int}))[0] is KeyError)
x = di.DataFrame(id=[1, 2], v=[1.0, 2.0]); y = di.DataFrame(id=[1, 2], v=[1.0, 3.0])
added, removed, changed = x.compare(y, "id")
check("compare", added is None and removed is None and cols_of(changed) == {"id": [2], "column": ["v"], "xvalue": [2.0], "yvalue": [3.0]})

print("FAILURES:", FAILS)
sys.exit(1 if FAILS else 0)
