import os, sys; sys.path.insert(0, os.getcwd())

# Change 5: regex.split, regex.sub and regex.subn collect their options
# (maxsplit / count and flags) once into a dict and pass that same dict on to
# BOTH sibling calls: the scalar branch and the per-element vector branch.
# Explicit 0 stays 0, the signatures and their defaults are unchanged.
# The demo compares with verbatim copies of the old functions and with plain
# Python calls of the re module.

import inspect
import re
import numpy as np
import dataiter as di
from dataiter import dtypes, regex, util, Vector, DataFrameColumn
from dataiter.regex import _prep

failures = []
def check(ok, what):
    if not ok:
        failures.append(what)
        print("MISMATCH:", what)

def old_split(pattern, string, maxsplit=0, flags=0):
    if util.is_scalar(string):
        return re.split(pattern, string, maxsplit=maxsplit, flags=flags)
    out, na = _prep(string, object, None)
    for i in np.flatnonzero(~na):
        out[i] = re.split(pattern, string[i], maxsplit=maxsplit, flags=flags)
    return Vector.fast(out, object)

def old_sub(pattern, repl, string, count=0, flags=0):
    if util.is_scalar(string):
        return re.sub(pattern, repl, string, count=count, flags=flags)
    out, na = _prep(string, dtypes.string, dtypes.string.na_object)
    for i in np.flatnonzero(~na):
        out[i] = re.sub(pattern, repl, string[i], count=count, flags=flags)
    return Vector.fast(out, str)

def old_subn(pattern, repl, string, count=0, flags=0):
    if util.is_scalar(string):
        return re.subn(pattern, repl, string, count=count, flags=flags)
    out, na = _prep(string, object, None)
    for i in np.flatnonzero(~na):
        out[i] = re.subn(pattern, repl, string[i], count=count, flags=flags)
    return Vector.fast(out, object)

def outcome(f, *args, **kwargs):
    try:
        r = f(*args, **kwargs)
    except BaseException as e:
        return ("error", type(e).__name__, str(e))
    if isinstance(r, np.ndarray):
        return ("ok", type(r).__name__, str(r.dtype), r.shape, repr(r.view(np.ndarray).tolist()), r.flags.writeable)
    return ("ok", type(r).__name__, repr(r))

strings = {
    "plain": Vector(["one two  three", "four", "", "a b", "ONE Two"]),
    "non-ascii": Vector(["ä ö\tå", "日本語 テキスト", "ǅ ǆ", "İstanbul ıi", None, "\n\nx\ny"]),
    "all missing": Vector(["", "", None], str),
    "empty": Vector([], str),
    "one": Vector(["a1b22c333"]),
    "column": DataFrameColumn(["x y", "", "z"]),
    "ndarray": np.asarray(Vector(["x y", "", "z  w"])),
    "strided": Vector(["a b", "SKIP", "c  d", "SKIP", ""])[::2],
    "scalar": "one two  three ONE",
    "scalar empty": "",
    "scalar non-ascii": "ä ö\tå ǅ",
    "scalar bytes": b"a b",
    "scalar None": None,
    "scalar int": 5,
    "object vector": Vector(["a b", None], object),
    "list": ["a b", "c"],
}
patterns = [r" +", r"\s", r"", r"(\s)", r"[a-z]", r"(?i)one", re.compile(r"\d+"), re.compile(r"o", re.I),
            r"\w", r"x*", r"(", b" ", None, r"ı|i", r"(?P<d>\d)"]
repls = [r"!", r"", r"<\g<0>>", r"\1", lambda m: m.group(0).upper(), r"日本", b"!", None, r"\g<d>"]
maxsplits = [0, 1, 2, -1, 100, False, True, None, "", 1.0, np.int64(1)]
flagss = [0, re.I, re.I | re.M, re.A, re.U, re.S, re.X, False, None, "", -1, np.int64(2), re.NOFLAG]

n = 0
for sname, s in strings.items():
    for p in patterns:
        # split: defaults, each option alone, both, positional, explicit zeros
        calls = [((p, s), {})]
        calls += [((p, s), {"maxsplit": m}) for m in maxsplits]
        calls += [((p, s), {"flags": f}) for f in flagss]
        calls += [((p, s), {"maxsplit": m, "flags": f}) for m in (0, 1, -1) for f in (0, re.I, re.M | re.S)]
        calls += [((p, s, 1), {}), ((p, s, 0, 0), {}), ((p, s, 1, re.I), {}), ((p, s, 0), {"flags": 0})]
        calls += [((), {"pattern": p, "string": s, "maxsplit": 0, "flags": 0})]
        for args, kwargs in calls:
            a, b = outcome(old_split, *args, **kwargs), outcome(regex.split, *args, **kwargs)
            check(a == b, f"split {sname} {args[:1]} {kwargs}: {a} != {b}")
            n += 1
        for r in repls:
            calls = [((p, r, s), {})]
            calls += [((p, r, s), {"count": c}) for c in maxsplits]
            calls += [((p, r, s), {"flags": f}) for f in flagss]
            calls += [((p, r, s), {"count": c, "flags": f}) for c in (0, 1, -1) for f in (0, re.I)]
            calls += [((p, r, s, 1), {}), ((p, r, s, 0, 0), {}), ((p, r, s, 2, re.I), {})]
            for old, new in ((old_sub, regex.sub), (old_subn, regex.subn)):
                for args, kwargs in calls:
                    a, b = outcome(old, *args, **kwargs), outcome(new, *args, **kwargs)
                    check(a == b, f"{new.__name__} {sname} {p!r} {r!r} {kwargs}: {a} != {b}")
                    n += 1

# Plain-Python expectations with the re module.
x = Vector(["one two  three", "", "ONE Two", None, "ä  ö å"])
items = ["one two  three", None, "ONE Two", None, "ä  ö å"]
def expect(f):
    return [None if s is None else f(s) for s in items]
check(regex.split(r" +", x).tolist() == expect(lambda s: re.split(r" +", s)), "split default")
check(regex.split(r" +", x, maxsplit=1).tolist() == expect(lambda s: re.split(r" +", s, maxsplit=1)), "split maxsplit=1")
check(regex.split(r" +", x, maxsplit=0).tolist() == expect(lambda s: re.split(r" +", s)), "split maxsplit=0 means all")
check(regex.split(r"O", x, flags=re.I).tolist() == expect(lambda s: re.split(r"O", s, flags=re.I)), "split flags")
check(regex.split(r"O", x, 1, re.I).tolist() == expect(lambda s: re.split(r"O", s, maxsplit=1, flags=re.I)), "split both")
check(regex.split(r"O", x, flags=0).tolist() == expect(lambda s: re.split(r"O", s)), "split flags=0")
subs = regex.sub(r"O", "0", x, count=1, flags=re.I)
check(subs.tolist() == expect(lambda s: re.sub(r"O", "0", s, count=1, flags=re.I)) and subs.is_string(), "sub both")
check(regex.sub(r"o", "0", x, count=0).tolist() == expect(lambda s: re.sub(r"o", "0", s)), "sub count=0 means all")
check(regex.sub(r"O", "0", x, flags=0).tolist() == expect(lambda s: s.replace("O", "0")), "sub flags=0 is case sensitive")
check(regex.subn(r"O", "0", x, count=1, flags=re.I).tolist() == expect(lambda s: re.subn(r"O", "0", s, count=1, flags=re.I)), "subn both")
check(regex.subn(r"o", "0", x, 0, 0).tolist() == expect(lambda s: re.subn(r"o", "0", s)), "subn zeros")
# Scalar branch gets the very same options as the vector branch.
for s in ("ONE one oNe", "", "ä"):
    check(regex.split(r"n", s, maxsplit=1, flags=re.I) == re.split(r"n", s, maxsplit=1, flags=re.I) == regex.split(r"n", Vector([s, "x"]), maxsplit=1, flags=re.I)[0] if s else True, f"scalar split {s!r}")
    check(regex.sub(r"n", "N", s, count=1, flags=re.I) == re.sub(r"n", "N", s, count=1, flags=re.I), f"scalar sub {s!r}")
    check(regex.subn(r"n", "N", s, count=2, flags=re.I) == re.subn(r"n", "N", s, count=2, flags=re.I), f"scalar subn {s!r}")
# The proxy passes the options on as well.
check(x.re.split(r"O", maxsplit=1, flags=re.I).tolist() == expect(lambda s: re.split(r"O", s, maxsplit=1, flags=re.I)), "proxy split")
check(x.re.sub(r"O", "0", count=1, flags=re.I).tolist() == expect(lambda s: re.sub(r"O", "0", s, count=1, flags=re.I)), "proxy sub")

# Results are fresh and independent; repeated calls and later mutation.
a = regex.split(r" ", x, maxsplit=1)
b = regex.split(r" ", x, maxsplit=1)
check(a.tolist() == b.tolist() and not np.shares_memory(a, b) and a[0] is not b[0], "repeated calls")
a[0].append("junk")
check(regex.split(r" ", x, maxsplit=1)[0] == ["one", "two  three"], "mutating a result")
x0 = x.copy()
regex.sub(r"o", "0", x, count=1); regex.subn(r"o", "0", x); regex.split(r"o", x)
check(x.equal(x0), "argument untouched")

# Signatures and defaults unchanged.
check(str(inspect.signature(regex.split)) == "(pattern, string, maxsplit=0, flags=0)", "signature split")
check(str(inspect.signature(regex.sub)) == "(pattern, repl, string, count=0, flags=0)", "signature sub")
check(str(inspect.signature(regex.subn)) == "(pattern, repl, string, count=0, flags=0)", "signature subn")

print("calls compared:", n, "failures:", len(failures))
sys.exit(1 if failures else 0)
