import os, sys; sys.path.insert(0, os.getcwd())
import io, contextlib
import numpy as np
from attd import AttributeDict
from dataiter import ListOfDicts

# ListOfDicts.insert vs. plain list.insert on a copy (the reference).

def outcome(f):
    try:
        return ("ok", f())
    except BaseException as e:
        return ("err", type(e), str(e))

class MyInt(int):
    def __index__(self): return 0
    def __ge__(self, other): return True

class Idx:
    def __init__(self, i): self.i = i
    def __index__(self): return self.i

def make(n):
    data = ListOfDicts({"i": i, "s": "äö€" * i, "x": [i]} for i in range(n))
    return data.group_by("i")

indices = list(range(-8, 9)) + [
    sys.maxsize, sys.maxsize - 1, sys.maxsize + 1, -sys.maxsize - 1, -sys.maxsize - 2,
    10**30, -10**30, True, False, np.int64(2), np.int64(99), np.uint8(200), np.int64(-1),
    2.0, float("inf"), float("nan"), "1", None, MyInt(50), Idx(1), Idx(77), Idx(-1), (1,), b"1"]
items = [{"new": 1}, AttributeDict(new="ü"), {}, {"nested": {"a": [1, {"b": 2}]}},
         5, None, [("a", 1)], "ab"]

n_checked = 0
for n in range(0, 6):
    for index in indices:
        for item in items:
            data = make(n)
            before = list(data)
            ref = list(data)
            def expected():
                it = item if isinstance(item, AttributeDict) else AttributeDict(item)
                ref.insert(index, it)
                return ref
            exp = outcome(expected)
            got = outcome(lambda: data.insert(index, item))
            assert exp[0] == got[0], (n, index, item, exp, got)
            if exp[0] == "err":
                assert exp[1:] == got[1:], (n, index, item, exp, got)
            else:
                new = got[1]
                assert type(new) is ListOfDicts
                assert new is not data
                assert list(new) == exp[1], (n, index, item)
                assert len(new) == n + 1
                # shallow: same dict objects as before, in the same places
                k = [i for i, x in enumerate(new) if not any(x is y for y in before)]
                assert len(k) == 1, k
                rest = [x for i, x in enumerate(new) if i != k[0]]
                assert len(rest) == len(before) and all(a is b for a, b in zip(rest, before))
                assert isinstance(new[k[0]], AttributeDict)
                if isinstance(item, AttributeDict):
                    assert new[k[0]] is item
                assert new._group_keys == ("i",)
                assert new._predecessor is data
                assert not data._obsolete and not new._obsolete
            # self is untouched in every case
            assert len(data) == n and all(a is b for a, b in zip(data, before))
            n_checked += 1

# Later mutation of the result does not touch the original list and vice versa.
data = make(3)
new = data.insert(10, {"z": 1})
list.append(new, AttributeDict(q=1))
list.pop(new, 0)
assert len(data) == 3 and [x.i for x in data] == [0, 1, 2]
list.clear(data)
assert len(new) == 4
# Repeated calls give independent lists.
data = make(2)
a = data.insert(2, {"z": 1}); b = data.insert(2, {"z": 1})
assert a == b and a is not b and a[2] is not b[2] and a[0] is b[0]

# Obsolete warning is printed exactly as before (once, at method access).
data = make(2)
data.modify(i=lambda x: x.i + 1)
buf = io.StringIO()
with contextlib.redirect_stdout(buf):
    data.insert(5, {"a": 1})
    data.insert(0, {"a": 1})
assert buf.getvalue().count("Warning") == 1

print("checked", n_checked, "cases: OK")
