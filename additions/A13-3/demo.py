import os, sys; sys.path.insert(0, os.getcwd())
import itertools, math, datetime, warnings
import numpy as np
import dataiter as di
from dataiter import DataFrame, DataFrameColumn, Vector, util

FAILURES = []

def check(label, ok):
    print(("ok   " if ok else "FAIL ") + label)
    if not ok:
        FAILURES.append(label)

def same_scalar(a, b):
    if type(a) is not type(b):
        return False
    if isinstance(a, (float, np.floating)) and a != a:
        return b != b
    if isinstance(a, (np.datetime64, np.timedelta64)) and np.isnat(a):
        return bool(np.isnat(b)) and a.dtype == b.dtype
    if isinstance(a, np.ndarray):
        return same_array(a, b)
    return bool(a == b)

def same_array(a, b):
    # Same class, dtype, shape and element-wise identical values
    # (NaN/NaT positions included, -0.0 vs 0.0 told apart via bytes).
    if type(a) is not type(b): return False
    if a.dtype != b.dtype or a.shape != b.shape: return False
    if a.dtype.kind in "biufcmMSUV?" and not a.dtype.hasobject:
        return a.tobytes() == b.tobytes()
    return all(same_scalar(x, y) for x, y in zip(list(a), list(b)))

def same_frame(a, b):
    return (type(a) is type(b) and
            list(a.keys()) == list(b.keys()) and
            all(same_array(a[k], b[k]) for k in a) and
            a._group_colnames == b._group_colnames)

def outcome(function):
    # Result or (exception type, message) of calling function.
    try:
        return ("value", function())
    except Exception as e:
        return ("error", type(e), str(e))

def same_outcome(x, y, same=None):
    if x[0] != y[0]: return False
    if x[0] == "error": return x[1:] == y[1:]
    return (same or same_frame)(x[1], y[1])

# --- Change 3: util.format_floats: "template".format(x) -> f-string
# with a nested precision field.

import dataiter

def old_format_floats(seq, ksep=None):
    precision = dataiter.PRINT_FLOAT_PRECISION
    if any(0 < abs(x) < 1/10**precision or abs(x) > 10**16 - 1 for x in seq):
        # Format tiny and huge numbers in scientific notation.
        f = np.format_float_scientific
        return [f(x, precision=precision, trim="-") for x in seq]
    if ksep is None:
        ksep = dataiter.PRINT_THOUSAND_SEPARATOR
    # Format like largest by significant digits.
    digits = [util.count_digits(x) for x in seq]
    n = max(x[0] for x in digits)
    m = max(x[1] for x in digits)
    precision = min(m, max(0, precision - n))
    return [f"{{:,.{precision}f}}".format(x).replace(",", ksep)
            for x in seq]

def same_strings(a, b):
    return type(a) is type(b) is list and a == b and all(type(x) is str for x in a)

def group_thousands(digits, sep):
    # "1234567" -> "1,234,567" without any format machinery
    out = ""
    while len(digits) > 3:
        out = sep + digits[-3:] + out
        digits = digits[:-3]
    return digits + out

def plain_expected(x, decimals, sep):
    # For finite values exactly representable in a few decimals.
    sign = "-" if math.copysign(1, x) < 0 else ""
    scaled = round(abs(x) * 10**decimals)
    whole, frac = divmod(scaled, 10**decimals)
    text = group_thousands(str(whole), sep)
    if decimals > 0:
        text += "." + str(frac).rjust(decimals, "0")
    return sign + text

# 1. Plain Python expectations.
default_precision = dataiter.PRINT_FLOAT_PRECISION
default_ksep = dataiter.PRINT_THOUSAND_SEPARATOR
check("defaults as expected", default_precision == 6 and isinstance(default_ksep, str))
# Four integer digits at most leave room for two of the six significant digits.
seq = [1234.5, 0.25, 234.0, 0.0]
check("two decimals", util.format_floats(seq, ksep=",") == [plain_expected(x, 2, ",") for x in seq] == ["1,234.50", "0.25", "234.00", "0.00"])
check("custom separator", util.format_floats(seq, ksep="'") == [plain_expected(x, 2, "'") for x in seq])
check("no separator", util.format_floats(seq, ksep="") == ["1234.50", "0.25", "234.00", "0.00"])
check("default separator", util.format_floats(seq) == [plain_expected(x, 2, default_ksep) for x in seq])
# (a minus sign counts as an integer digit in count_digits)
check("negative", util.format_floats([-1234.5, 0.75], ksep=",") == ["-1,234.5", "0.8"])
check("no decimals", util.format_floats([1000.0, 2.0], ksep=",") == ["1,000", "2"])
check("missing value", util.format_floats([np.nan, 1.5, 1000], ksep=",") == ["nan", "1.5", "1,000.0"])
check("infinity switches to scientific notation", util.format_floats([np.nan, np.inf, -np.inf, 1.5], ksep=",") == ["nan", "inf", "-inf", "1.5e+00"])
check("seven integer digits leave no decimals", util.format_floats([1234567.25, 0.5], ksep=",") == ["1,234,567", "0"])
check("negative zero", util.format_floats([-0.0, 1.0], ksep=",") == ["-0", "1"])

# 2. Old against new.
sequences = {
    "empty": [],
    "one": [1.0],
    "ordinary": [1.5, 2.25, 1000.125, -3.0],
    "nan only": [np.nan],
    "all special": [np.nan, np.inf, -np.inf],
    "special and values": [np.nan, 1234.5678, -np.inf, 0.1],
    "zeros": [0.0, -0.0],
    "thirds": [1/3, 2/3, 100/3, 1e6/3],
    "long fractions": [0.123456789012, 12345.678901234],
    "near rounding": [0.5, 1.5, 2.5, 0.125, 0.375, 2.675, 1.005, 999999.9999995],
    "tiny": [1e-7, 1.0],
    "tiny negative": [-1e-300, 5e-324],
    "huge": [1e16, 1.0],
    "just below huge": [1e16 - 2, 123.0],
    "at the limit": [float(10**16 - 1), 9999999999999998.0],
    "float max": [sys.float_info.max, sys.float_info.min],
    "big integers as floats": [2.0**53, 2.0**53 + 2, -2.0**52],
    "python ints": [1, 2000, -3000000],
    "numpy ints": list(np.array([1, 2000, 2**40])),
    "uint64": list(np.array([0, 2**53], np.uint64)),
    "float32": list(np.array([0.1, 1000.5, np.nan, 3.14159274], np.float32)),
    "float16": list(np.array([0.1, 1000.5, np.inf], np.float16)),
    "longdouble": list(np.array([0.1, 1234.5, np.nan], np.longdouble)),
    "float64 array": np.array([0.1, 1234.5, np.nan, -np.inf, 1e15]),
    "vector": Vector([0.1, 1234.5, None, 1e15]),
    "vector ints to float": Vector([1, 2, None, 12345678]),
    "mixed python and numpy": [1.5, np.float32(2.5), np.float64(1e3), 7],
    "tuple": (1.5, 2000.25),
    "bool": [True, False],
    "strings": ["a", "b"],
    "none": [None, 1.0],
    "complex": [1 + 2j],
    "nested": [np.array([1.5, 2.5]), np.array([3.5, 4.5])],
    "two dimensions": np.array([[1.5, 2.5], [1000.5, 4.5]]),
    "decimal": [__import__("decimal").Decimal("1234.5")],
    "fraction": [__import__("fractions").Fraction(1, 3)],
}
separators = [None, ",", "", " ", "'", ".", " ", "--", "1", "{}", "{0}", "%s"]
precisions = [6, 0, 1, 2, 3, 10, 15, 17, 20, 30, -1, 6.0, 2.5, "3", None, True, np.int64(4)]
saved = (dataiter.PRINT_FLOAT_PRECISION, dataiter.PRINT_THOUSAND_SEPARATOR)
for precision in precisions:
    dataiter.PRINT_FLOAT_PRECISION = precision
    for name, seq in sequences.items():
        for ksep in separators:
            if precision != 6 and ksep not in [None, "'"]: continue
            with warnings.catch_warnings():
                warnings.simplefilter("ignore")
                x = outcome(lambda: util.format_floats(seq, ksep=ksep))
                y = outcome(lambda: old_format_floats(seq, ksep=ksep))
            check(f"precision {precision!r}, {name}, ksep {ksep!r}: {x[0]}", same_outcome(x, y, same_strings))
dataiter.PRINT_FLOAT_PRECISION = 6
for default in [",", "", "_", " ", None, 5]:
    dataiter.PRINT_THOUSAND_SEPARATOR = default
    for name in ["ordinary", "special and values", "thirds"]:
        x = outcome(lambda: util.format_floats(sequences[name]))
        y = outcome(lambda: old_format_floats(sequences[name]))
        check(f"default separator {default!r}, {name}: {x[0]}", same_outcome(x, y, same_strings))
dataiter.PRINT_FLOAT_PRECISION, dataiter.PRINT_THOUSAND_SEPARATOR = saved

# A one-shot iterator is consumed the same way (any() eats it first).
x = outcome(lambda: util.format_floats(iter([1.5, 2.5]), ksep=","))
y = outcome(lambda: old_format_floats(iter([1.5, 2.5]), ksep=","))
check(f"iterator: {x[0]}", same_outcome(x, y, same_strings))

# 3. Through the public API: Vector.to_strings, Vector.to_string, DataFrame.to_string.
rng = np.random.default_rng(1)
vectors = [
    Vector([1.5, 2.25, None, 1000.125]),
    Vector([None, None], float),
    Vector([], float),
    Vector(rng.normal(size=50) * 10.0**rng.integers(-3, 9, 50)),
    Vector(rng.normal(size=20).astype(np.float32) * 1000),
    Vector([np.inf, -np.inf, np.nan, -0.0]),
]
for i, v in enumerate(vectors):
    seq = list(v)
    for ksep in [None, ",", ""]:
        for pad in [False, True]:
            new = v.to_strings(ksep=ksep, pad=pad)
            if len(seq) == 0:
                ok = len(new) == 0
            else:
                expected = old_format_floats(v, ksep=ksep)
                if pad: expected = util.upad(expected)
                ok = list(new) == expected
            check(f"vector {i} to_strings ksep {ksep!r} pad {pad}", ok and new.is_string())
a = util.format_floats([1.5, 2.5], ksep=",")
b = util.format_floats([1.5, 2.5], ksep=",")
check("fresh list on every call", a == b and a is not b)
data = DataFrame(x=[1234.5, None, 0.25], y=[1.0, 2.0, 3.0])
lines = data.to_string().splitlines()
expected_x = util.upad(["x", "float64"] + util.upad(old_format_floats(data.x)))
check("data frame print", [l.split()[1] if i != 0 else "" for i, l in enumerate(lines[1:2] + lines[4:7])][1:] == [s.strip() for s in expected_x[2:]])

print(f"{len(FAILURES)} failures")
sys.exit(1 if FAILURES else 0)
