import os, sys; sys.path.insert(0, os.getcwd())

# DataFrame._get_join_indices: early return when other has no rows.
# Compare all joins against the old implementation (copied verbatim into a
# subclass below) and against expectations built by hand, with empty and
# non-empty frames, all data types as keys, and the error cases.

import datetime
import numpy as np
import warnings
import dataiter as di

# NumPy warns about some of the odd values below, the same before and after.
warnings.simplefilter("ignore")

class OldDataFrame(di.DataFrame):
    def _get_join_indices(self, other, by1, by2):
        other_ids = list(zip(*[other[x] for x in by2]))
        other_by_id = {other_ids[i]: i for i in range(other.nrow)}
        self_ids = zip(*[self[x] for x in by1])
        src = map(lambda x: other_by_id.get(x, -1), self_ids)
        src = np.fromiter(src, int, count=self.nrow)
        found = np.where(src > -1)
        return found, src

JOINS = ["left_join", "inner_join", "semi_join", "anti_join", "full_join"]

def outcome(function):
    try:
        return function()
    except Exception as error:
        return (type(error), str(error))

def assert_same_frame(a, b, context):
    assert isinstance(a, di.DataFrame) and isinstance(b, di.DataFrame), context
    assert a.colnames == b.colnames, (context, a.colnames, b.colnames)
    assert a.nrow == b.nrow, (context, a.nrow, b.nrow)
    for name in a.colnames:
        assert type(a[name]) is di.DataFrameColumn, context
        assert a[name].dtype == b[name].dtype, (context, name, a[name].dtype, b[name].dtype)
        assert a[name].is_na().tolist() == b[name].is_na().tolist(), (context, name)
        assert repr(a[name].tolist()) == repr(b[name].tolist()), (context, name, a[name], b[name])
        assert a[name].flags.owndata or a[name].base is not None

def assert_same(a, b, context):
    if isinstance(a, tuple) and isinstance(a[0], type):
        assert a == b, (context, a, b)
    else:
        assert not isinstance(b, tuple), (context, a, b)
        assert_same_frame(a, b, context)

def compare(x, y, *by):
    # Run all joins both ways with both implementations.
    results = []
    for join in JOINS:
        for left, right, lby in [(x, y, by), (y, x, tuple(
                tuple(reversed(b)) if isinstance(b, tuple) else b for b in by))]:
            new = outcome(lambda: getattr(di.DataFrame(left), join)(di.DataFrame(right), *lby))
            old = outcome(lambda: getattr(OldDataFrame(left), join)(OldDataFrame(right), *lby))
            assert_same(new, old, (join, lby, left.colnames, right.colnames))
            if isinstance(new, di.DataFrame):
                # Results must not share memory with the arguments.
                for frame in (left, right):
                    for a in new.columns:
                        for b in frame.columns:
                            assert not np.shares_memory(a, b)
            results.append(new)
    # Same again for the raw indices.
    for left, right, lby in [(x, y, by)]:
        by1, by2 = left._split_join_by(*lby)
        new = outcome(lambda: di.DataFrame(left)._get_join_indices(di.DataFrame(right), by1, by2))
        old = outcome(lambda: OldDataFrame(left)._get_join_indices(OldDataFrame(right), by1, by2))
        if isinstance(old, tuple) and isinstance(old[0], type):
            assert new == old, (new, old)
        else:
            (nfound, nsrc), (ofound, osrc) = new, old
            assert type(nfound) is type(ofound) is tuple and len(nfound) == len(ofound) == 1
            assert nfound[0].dtype == ofound[0].dtype and nfound[0].tolist() == ofound[0].tolist()
            assert type(nsrc) is type(osrc) and nsrc.dtype == osrc.dtype and nsrc.shape == osrc.shape
            assert nsrc.tolist() == osrc.tolist()
            nsrc[:] = 7 # writable and fresh
            again = di.DataFrame(left)._get_join_indices(di.DataFrame(right), by1, by2)[1]
            assert again.tolist() == osrc.tolist()
    return results

NAN = np.nan
KEYS = {
    "int8": np.array([1, 2, 2, -128], np.int8),
    "uint64": np.array([2**64 - 1, 0, 2**63, 2**63], np.uint64),
    "int64": np.array([-2**63, 2**63 - 1, 0, 0]),
    "float": np.array([NAN, np.inf, -np.inf, 1.5]),
    "float_na": np.array([NAN, NAN, NAN, NAN]),
    "float32": np.array([NAN, 1, 1, 2], np.float32),
    "float16": np.array([1, NAN, 2, 2], np.float16),
    "complex": np.array([1+2j, 1+2j, 3, 4]),
    "bool": np.array([True, False, True, True]),
    "bytes": np.array([b"a", b"", b"b", b"a"]),
    "fixed": np.array(["a", "ä", "日本語", "a"]),
    "string": di.Vector(["a", "", "日本語", "a"]),
    "string_na": di.Vector(["", "", "", ""]),
    "date": np.array(["2020-01-01", "NaT", "2020-01-02", "2020-01-01"], "datetime64[D]"),
    "datetime_ns": np.array(["2020-01-01T00:00:00.000000001", "NaT", "NaT", "1970-01-01"], "datetime64[ns]"),
    "timedelta": np.array([1, "NaT", 1, -5], "timedelta64[s]"),
    "object": di.Vector.fast([1, None, "a", (1, 2)], object),
    "object_na": di.Vector.fast([None, None, None, None], object),
}
OTHER_VALUES = dict(
    oi=np.array([1, 2, 3, 4], np.int16),
    of=np.array([1.5, NAN, 3, 4]),
    ob=np.array([True, False, True, False]),
    os=di.Vector(["x", "", "ö", "y"]),
    od=np.array(["2020-01-01", "NaT", "2020-01-02", "2020-01-01"], "datetime64[D]"),
    oo=di.Vector.fast([{1: 2}, None, [1], "a"], object),
)

for name, key in KEYS.items():
    for n in (4, 1, 0):
        for m in (4, 1, 0):
            x = di.DataFrame(k=key[:n], v=np.arange(n), shared=np.arange(n) * 1.5)
            y = di.DataFrame(k=key[:m], shared=np.arange(m), **{a: b[:m] for a, b in OTHER_VALUES.items()})
            compare(x, y, "k")
            y2 = y.rename(k2="k")
            compare(x, y2, ("k", "k2"))
            # Two keys, the second of another type.
            x3 = x.modify(j=np.arange(n) % 2)
            y3 = y.modify(j=np.arange(m) % 2)
            compare(x3, y3, "k", "j")
            compare(x3, y3, "j", "k")

# Independent expectations with an empty other (also one that only turns
# empty after rows with missing keys have been dropped from it).
x = di.DataFrame(id=[3, 1, 2, 1], name=["c", "a", "ä", "a"])
for y in [di.DataFrame(id=[1], extra=[1.5], flag=[True], label=["x"], n=[5]).slice([]),
          di.DataFrame(id=[NAN, NAN], extra=[1.5, 2.5], flag=[True, False], label=["x", "y"], n=[5, 6])]:
    left = x.left_join(y, "id")
    assert left.colnames == ["id", "name", "extra", "flag", "label", "n"]
    assert left.id.tolist() == [3, 1, 2, 1] and left.id.dtype == x.id.dtype
    assert left.name.tolist() == ["c", "a", "ä", "a"]
    assert left.extra.dtype == np.dtype(float) and left.extra.tolist() == [None] * 4
    assert left.flag.dtype == np.dtype(object) and list(left.flag) == [None] * 4
    assert left.label.tolist() == [None] * 4 and list(left.label) == [""] * 4
    assert left.n.dtype == np.dtype(float) and np.isnan(left.n).all()
    full = x.full_join(y, "id")
    # Rows of other with missing keys are kept by a full join, unmatched.
    assert full.nrow == 4 + y.nrow
    if y.nrow == 0:
        assert_same_frame(full, left, "full")
    assert full.colnames == left.colnames
    assert full.id.tolist()[:4] == [3, 1, 2, 1] and full.id.tolist()[4:] == [None] * y.nrow
    assert full.name.tolist()[:4] == ["c", "a", "ä", "a"]
    assert full.extra.tolist()[:4] == [None] * 4
    assert full.name.tolist()[4:] == [None] * y.nrow
    assert full.extra.tolist()[4:] == y.extra.tolist()
    inner = x.inner_join(y, "id")
    assert inner.colnames == left.colnames and inner.nrow == 0
    assert [str(c.dtype) for c in inner.columns][:1] == [str(x.id.dtype)]
    semi = x.semi_join(y, "id")
    assert semi.colnames == ["id", "name"] and semi.nrow == 0
    anti = x.anti_join(y, "id")
    assert anti == x and anti is not x
    assert not np.shares_memory(anti.id, x.id)
    # Mutating results leaves the arguments alone and vice versa.
    left.id[0] = 99; anti.id[0] = 98
    assert x.id.tolist() == [3, 1, 2, 1]
    x.id[1] = 1
    found, src = x._get_join_indices(y.drop_na("id").unique("id"), ["id"], ["id"])
    assert src.tolist() == [-1] * 4 and src.dtype == np.dtype(int)
    assert isinstance(found, tuple) and found[0].tolist() == [] and found[0].dtype == np.dtype(np.intp)

# Non-empty other right after an empty one (no state is kept around).
y = di.DataFrame(id=[1, 2], extra=[10, 20])
assert x.left_join(y.slice([]), "id").extra.tolist() == [None] * 4
assert x.left_join(y, "id").extra.tolist() == [None, 10.0, 20.0, 10.0]
assert x.left_join(y.slice([]), "id").extra.tolist() == [None] * 4

# Error cases must stay as they are.
empty = di.DataFrame(id=[1], extra=[1]).slice([])
for join in JOINS:
    for left, right, by in [
        (x, empty, ("nope",)),                    # missing in both
        (x, empty, (("nope", "id"),)),            # missing in self only
        (x, empty, (("id", "nope"),)),            # missing in other only
        (x, empty, ()),                           # no keys
        (empty, empty, ()),                       # no keys, no rows
        (empty, x, ()),                           # no keys, rows in other
        (x, x, ()),
    ]:
        new = outcome(lambda: getattr(di.DataFrame(left), join)(di.DataFrame(right), *by))
        old = outcome(lambda: getattr(OldDataFrame(left), join)(OldDataFrame(right), *by))
        assert_same(new, old, (join, by))
for left, right, by1, by2 in [
    (x, empty, ["nope"], ["id"]), (x, empty, ["id"], ["nope"]), (x, empty, [], []),
    (empty, empty, [], []), (empty, x, [], []), (x, empty, ["id", "name"], ["id", "extra"]),
]:
    new = outcome(lambda: di.DataFrame(left)._get_join_indices(di.DataFrame(right), by1, by2))
    old = outcome(lambda: OldDataFrame(left)._get_join_indices(OldDataFrame(right), by1, by2))
    assert repr(new) == repr(old), (new, old)

# Unhashable keys in self raise even if other is empty.
lists = di.DataFrame(k=di.Vector.fast([None, None], object), v=[1, 2])
lists.k[0] = [1, 2]
lists.k[1] = {"a": 1}
other = di.DataFrame(k=di.Vector.fast([1], object), w=[1]).slice([])
for join in JOINS:
    new = outcome(lambda: getattr(lists, join)(other, "k"))
    old = outcome(lambda: getattr(OldDataFrame(lists), join)(OldDataFrame(other), "k"))
    assert new == old and new[0] is TypeError and "unhashable" in new[1], (new, old)
void = di.DataFrame(k=np.array([b"ab", b"cd"], "V2"), v=[1, 2])
new = outcome(lambda: void._get_join_indices(other, ["k"], ["k"]))
old = outcome(lambda: OldDataFrame(void)._get_join_indices(other, ["k"], ["k"]))
assert new == old and new[0] is TypeError, (new, old)
new = outcome(lambda: void._get_join_indices(other, ["v", "k"], ["k", "k"]))
old = outcome(lambda: OldDataFrame(void)._get_join_indices(other, ["v", "k"], ["k", "k"]))
assert new == old and new[0] is TypeError, (new, old)

print("OK")
