import os, sys; sys.path.insert(0, os.getcwd())
import datetime
import operator

from dataiter import ListOfDicts

# Independent plain-Python statement of what unique() has always done.
def expected_unique(items, *keys):
    if not items:
        return []
    if not keys:
        keys = set(items[0])
        for item in items:
            keys = keys & set(item)
    seen, out = [], []
    extract = operator.itemgetter(*keys)
    ids = set()
    for item in items:
        id = extract(item)
        if id not in ids:
            ids.add(id)
            out.append(item)
    return out

def outcome(function, *args):
    try:
        return ("ok", function(*args))
    except Exception as error:
        return ("error", type(error), str(error))

nan = float("nan")
CASES = [
    ([], ()),
    ([], ("x",)),
    ([{"x": 1}], ()),
    ([{"x": 1, "y": 2}, {"x": 1, "y": 2}, {"x": 1, "y": 3}], ()),
    ([{"x": 1, "y": 2}, {"x": 1, "y": 2}, {"x": 1, "y": 3}], ("x",)),
    ([{"x": 1, "y": 2}, {"x": 1, "y": 2}, {"x": 1, "y": 3}], ("y", "x")),
    # differing key sets: only common keys count
    ([{"x": 1, "a": 1}, {"x": 1, "b": 2}, {"x": 2, "a": 1, "b": 2}, {"b": 9, "x": 2}], ()),
    # three common keys out of many, in different orders
    ([{"a": 1, "b": 2, "c": 3, "d": 4}, {"d": 0, "c": 3, "b": 2, "a": 1, "e": 5},
      {"c": 3, "a": 1, "b": 2}, {"b": 0, "a": 1, "c": 3}], ()),
    # no common keys at all: itemgetter() raises TypeError
    ([{"x": 1}, {"y": 1}], ()),
    ([{}, {"y": 1}], ()),
    ([{}], ()),
    # missing key with explicit keys: KeyError
    ([{"x": 1}, {"y": 1}], ("x",)),
    # None, NaN (same object and distinct objects), +-inf
    ([{"x": None}, {"x": None}, {"x": nan}, {"x": nan}, {"x": float("nan")},
      {"x": float("inf")}, {"x": float("-inf")}, {"x": float("inf")}], ()),
    # 1 == 1.0 == True, 0 == False == 0.0 == -0.0: first one wins
    ([{"x": 1}, {"x": 1.0}, {"x": True}, {"x": 0}, {"x": False}, {"x": -0.0}], ()),
    # extreme integers
    ([{"x": 2**64}, {"x": 2**64}, {"x": -2**63}, {"x": 2**64 + 1}, {"x": float(2**64)}], ()),
    # non-ASCII keys and values
    ([{"å": "ä", "日本": "語"}, {"å": "ä", "日本": "語"}, {"å": "ä", "日本": "語"}], ()),
    # tuples, dates, empty strings
    ([{"x": (1, 2), "y": ""}, {"x": (1, 2), "y": ""}, {"x": (), "y": ""},
      {"x": datetime.date(2020, 1, 1), "y": ""}, {"x": datetime.date(2020, 1, 1), "y": ""}], ()),
    # unhashable values: TypeError
    ([{"x": [1]}, {"x": [1]}], ()),
    ([{"x": 1, "y": [1]}, {"x": 1, "y": [1]}], ("x",)),
]

for dicts, keys in CASES:
    data = ListOfDicts(dicts).group_by("x")
    items = list(data)
    want = outcome(expected_unique, items, *keys)
    got = outcome(data.unique, *keys)
    if want[0] == "error":
        assert got == want, (dicts, keys, got, want)
        continue
    assert got[0] == "ok", (dicts, keys, got, want)
    new = got[1]
    assert type(new) is ListOfDicts
    assert len(new) == len(want[1]), (dicts, keys, new, want)
    # Same dict OBJECTS, first occurrence wins, original order.
    assert all(a is b for a, b in zip(new, want[1])), (dicts, keys)
    # Shallow copy: fresh list, group keys kept, self untouched.
    assert new is not data
    assert new._group_keys == ("x",)
    assert new._predecessor is data
    assert not data._obsolete
    assert list(data) == items and all(a is b for a, b in zip(data, items))
    # Repeated call gives the same again.
    again = data.unique(*keys)
    assert all(a is b for a, b in zip(again, new)) and len(again) == len(new)

# Items are not modified and keys added later are picked up.
data = ListOfDicts([{"x": 1, "y": 1}, {"x": 1, "y": 2}])
assert len(data.unique()) == 2
for item in data: del item["y"]
assert len(data.unique()) == 1
assert data.unique()[0] is data[0]
print("OK")
