import os, sys; sys.path.insert(0, os.getcwd())

# Change 4: ListOfDicts.sample raises the ValueError for a negative n itself,
# with a message that names n, instead of leaving it to random.sample.
# Everything else, the state of the random generator included, must be
# exactly as before.

import contextlib
import decimal
import fractions
import io
import random

import numpy as np

import dataiter
from dataiter import ListOfDicts

FAILURES = []

def check(ok, what):
    if not ok:
        FAILURES.append(what)
        print("MISMATCH:", what)

def old_sample(self, n=None):
    # sample as it was before the change (reference).
    def generate(n=n):
        if n is None:
            n = dataiter.DEFAULT_PEEK_ITEMS
        n = min(len(self), n)
        for i in sorted(random.sample(range(len(self)), n)):
            yield self[i]
    return self._new(generate())

def outcome(function, data, *args):
    out = io.StringIO()
    random.seed(42)
    try:
        with contextlib.redirect_stdout(out):
            value = function(data, *args)
        result = ("ok", type(value).__name__,
                  [[i for i, y in enumerate(data) if x is y] for x in value],
                  value._group_keys, value._predecessor is data, value._obsolete)
    except Exception as error:
        result = ("exc", type(error).__name__)
    return (result, out.getvalue(), random.getstate(), len(data),
            data._obsolete, data._obsolete_warned, data._group_keys)

nan, inf = float("nan"), float("inf")
NS = [None, 0, 1, 2, 3, 4, 5, 6, 7, 100, 10**30, -1, -2, -5, -6, -7, -100, -10**30,
      True, False, 0.0, -0.0, 1.0, 2.5, -0.5, -1.0, -1.5, 1e308, -1e308, nan, -nan, inf, -inf,
      np.int64(0), np.int64(2), np.int64(-1), np.int8(-128), np.uint8(3), np.float64(-1.5),
      np.float64("nan"), np.float32(2), np.bool_(True), np.array(2), np.array(-1), np.array([2]),
      np.array([-1]), np.array([1, 2]), np.array([]), np.datetime64("NaT"), np.timedelta64(-1, "D"),
      fractions.Fraction(-1, 2), fractions.Fraction(2, 1), decimal.Decimal(-1), decimal.Decimal(2),
      decimal.Decimal("NaN"), decimal.Decimal("-Infinity"), "a", "", b"", [], [1], (), (-1,), {}, 1j,
      -1j, object(), len]

def inputs():
    rows = [{"i": i, "x": x} for i, x in enumerate([1.5, None, nan, "a", [1], -inf])]
    yield "six items", lambda: ListOfDicts(rows)
    yield "no items", lambda: ListOfDicts([])
    yield "one item", lambda: ListOfDicts(rows[:1])
    yield "two items", lambda: ListOfDicts(rows[:2])
    yield "empty dicts", lambda: ListOfDicts([{}, {}, {}])
    yield "grouped", lambda: ListOfDicts(rows).group_by("x")
    yield "sliced", lambda: ListOfDicts(rows)[1:4]
    yield "many items", lambda: ListOfDicts({"i": i} for i in range(100))
    def obsolete():
        data = ListOfDicts(rows)
        data.modify(i=lambda x: x.i)
        return data
    yield "obsolete", obsolete

count = 0
for default in [10, 0, 3, -1]:
    dataiter.DEFAULT_PEEK_ITEMS = default
    for name, make in inputs():
        for n in NS if default == 10 else [None, 2, -1]:
            a, b = make(), make()
            for call in (1, 2):
                args = () if n is None and call == 1 else (n,)
                new = outcome(ListOfDicts.sample, a, *args)
                old = outcome(old_sample, b, *args)
                count += 1
                check(new == old, f"{name} default={default} n={n!r} call {call}:\n  {new[:2]}\n  {old[:2]}")
dataiter.DEFAULT_PEEK_ITEMS = 10
print(count, "comparisons with the old sample")

# Expected values built by hand, with the random module alone.

def expect_exception(cls, function, what, message=None):
    try:
        function()
    except Exception as error:
        check(type(error) is cls, f"{what}: {type(error).__name__} instead of {cls.__name__}")
        if message is not None:
            check(message in str(error), f"{what}: message {error!s}")
    else:
        check(False, f"{what}: no exception")

for size in [0, 1, 2, 5, 30]:
    rows = [{"i": i} for i in range(size)]
    data = ListOfDicts(rows)
    for n in [0, 1, 2, size - 1, size, size + 1, 1000, None]:
        if n is not None and n < 0: continue
        k = min(size, 10 if n is None else n)
        expected = sorted(random.Random(7).sample(range(size), k))
        random.seed(7)
        value = data.sample(n) if n is not None else data.sample()
        check([x.i for x in value] == expected, f"hand: size {size}, n {n}: {value.pluck('i')} != {expected}")
        check(all(x is data[x.i] for x in value), f"hand: size {size}, n {n}: the same dicts")
        check(random.getstate() == (lambda r: (r.sample(range(size), k), r.getstate())[1])(random.Random(7)),
              f"hand: size {size}, n {n}: state of the generator")
    for n in [-1, -2, -size, -size - 1, -1000, -0.5, -inf, np.int64(-1)]:
        if not n < 0: continue # -size for no items
        random.seed(7)
        state = random.getstate()
        expect_exception(ValueError, lambda: data.sample(n), f"hand: size {size}, n {n}", "negative")
        check(random.getstate() == state, f"hand: size {size}, n {n}: generator untouched")
        check(data._obsolete is False and list(map(dict, data)) == rows, f"hand: size {size}, n {n}: data untouched")
    # Not negative: other failures keep their own exceptions.
    expect_exception(TypeError, lambda: data.sample("a"), f"hand: size {size}, a string")
    if size > 0:
        expect_exception(TypeError, lambda: data.sample(0.0), f"hand: size {size}, n 0.0")
        expect_exception(TypeError, lambda: data.sample(-0.0), f"hand: size {size}, n -0.0")
    check(len(data.sample(nan)) == size, f"hand: size {size}, n nan gives everything")
    check(len(data.sample(inf)) == size, f"hand: size {size}, n inf gives everything")

print("FAILURES:", len(FAILURES))
sys.exit(1 if FAILURES else 0)
