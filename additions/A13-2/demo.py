import os, sys; sys.path.insert(0, os.getcwd())
import itertools, math, datetime, warnings
import numpy as np
import dataiter as di
from dataiter import DataFrame, DataFrameColumn, Vector, util

FAILURES = []

def check(label, ok):
    print(("ok   " if ok else "FAIL ") + label)
    if not ok:
        FAILURES.append(label)

def same_scalar(a, b):
    if type(a) is not type(b):
        return False
    if isinstance(a, (float, np.floating)) and a != a:
        return b != b
    if isinstance(a, (np.datetime64, np.timedelta64)) and np.isnat(a):
        return bool(np.isnat(b)) and a.dtype == b.dtype
    if isinstance(a, np.ndarray):
        return same_array(a, b)
    return bool(a == b)

def same_array(a, b):
    # Same class, dtype, shape and element-wise identical values
    # (NaN/NaT positions included, -0.0 vs 0.0 told apart via bytes).
    if type(a) is not type(b): return False
    if a.dtype != b.dtype or a.shape != b.shape: return False
    if a.dtype.kind in "biufcmMSUV?" and not a.dtype.hasobject:
        return a.tobytes() == b.tobytes()
    return all(same_scalar(x, y) for x, y in zip(list(a), list(b)))

def same_frame(a, b):
    return (type(a) is type(b) and
            list(a.keys()) == list(b.keys()) and
            all(same_array(a[k], b[k]) for k in a) and
            a._group_colnames == b._group_colnames)

def outcome(function):
    # Result or (exception type, message) of calling function.
    try:
        return ("value", function())
    except Exception as e:
        return ("error", type(e), str(e))

def same_outcome(x, y, same=None):
    if x[0] != y[0]: return False
    if x[0] == "error": return x[1:] == y[1:]
    return (same or same_frame)(x[1], y[1])

# --- Change 2: DataFrame._get_join_indices: map(lambda ...) -> generator
# expression, np.where(condition) -> np.nonzero(condition).

class OldDataFrame(DataFrame):
    # The previous implementation, everything else inherited.
    def _get_join_indices(self, other, by1, by2):
        other_ids = list(zip(*[other[x] for x in by2]))
        other_by_id = {other_ids[i]: i for i in range(other.nrow)}
        self_ids = zip(*[self[x] for x in by1])
        src = map(lambda x: other_by_id.get(x, -1), self_ids)
        src = np.fromiter(src, int, count=self.nrow)
        found = np.where(src > -1)
        return found, src

def as_old(data):
    new = OldDataFrame()
    dict.update(new, {k: v.copy() for k, v in data.items()})
    new._group_colnames = data._group_colnames
    return new

def same_frame_any_class(a, b):
    return (list(a.keys()) == list(b.keys()) and
            all(same_array(a[k], b[k]) for k in a) and
            a._group_colnames == b._group_colnames)

def same_indices(x, y):
    (found1, src1), (found2, src2) = x, y
    return (type(found1) is tuple and type(found2) is tuple and
            len(found1) == len(found2) == 1 and
            same_array(found1[0], found2[0]) and
            same_array(src1, src2))

# 1. Plain Python expectation for ordinary data.
a = DataFrame(id=[5, 3, 9, 3, 7], v=["a", "b", "c", "d", "e"])
b = DataFrame(id=[3, 7, 3, 1], w=[10, 20, 30, 40])
first = {}
for j, key in enumerate([3, 7, 3, 1]):
    first.setdefault(key, j)
# unique() keeps rows 0, 1, 3 of b, i.e. ids 3, 7, 1 at positions 0, 1, 2
position = {3: 0, 7: 1, 1: 2}
expected_src = [position.get(k, -1) for k in [5, 3, 9, 3, 7]]
found, src = a._get_join_indices(b.unique("id"), ["id"], ["id"])
check("indices: src", src.tolist() == expected_src == [-1, 0, -1, 0, 1])
check("indices: found", type(found) is tuple and len(found) == 1 and found[0].tolist() == [1, 3, 4])
check("indices: types", type(src) is np.ndarray and src.dtype == np.dtype(int) and type(found[0]) is np.ndarray and found[0].dtype == np.intp)
check("left_join", a.left_join(b, "id").w.tolist() == [None, 10, None, 10, 20])
check("inner_join", a.inner_join(b, "id").v.tolist() == ["b", "d", "e"] and a.inner_join(b, "id").w.tolist() == [10, 10, 20])
check("semi_join", a.semi_join(b, "id").v.tolist() == ["b", "d", "e"])
check("anti_join", a.anti_join(b, "id").v.tolist() == ["a", "c"])
# full_join also keeps the rows of b that were not used as a match (the second id 3),
# merged with the first matching row of a and sorted in after it.
check("full_join", a.full_join(b, "id").id.tolist() == [5, 3, 3, 9, 3, 7, 1] and a.full_join(b, "id").w.tolist() == [None, 10, 30, None, 10, 20, 40])

# 2. Old against new on all kinds of keys.
NaT = np.datetime64("NaT")
def col(values, dtype=None):
    return DataFrameColumn(np.array(values, dtype)) if dtype is not None else DataFrameColumn(values)
key_columns = {
    "int": (col([3, 1, 2, 2, 5]), col([2, 9, 3, 2])),
    "int_empty_other": (col([3, 1, 2]), col([], int)),
    "int_empty_self": (col([], int), col([3, 1])),
    "both_empty": (col([], int), col([], int)),
    "single": (col([1]), col([1])),
    "float_nan_inf": (col([1.0, np.nan, np.inf, -np.inf, -0.0, np.nan]), col([np.nan, 0.0, np.inf, np.nan, -np.inf])),
    "all_nan": (col([np.nan, np.nan]), col([np.nan])),
    "int_vs_float": (col([1, 2, 3]), col([2.0, 3.5, 1.0])),
    "uint64": (col([0, 2**64 - 1, 2**63], np.uint64), col([2**64 - 1, 1, 2**63], np.uint64)),
    "uint64_vs_int64": (col([0, 2**63, 5], np.uint64), col([5, -1, 0], np.int64)),
    "extreme": (col([2**63 - 1, -2**63, 0]), col([-2**63, 2**63 - 1])),
    "int8_vs_int64": (col([1, -1, 127], np.int8), col([127, 1, 300])),
    "big_int_vs_float": (col([2**53 + 1, 2**53]), col([2.0**53, 1.0])),
    "string": (col(["b", "a", "", "ö", "𝔘𝔫𝔦", "a"]), col(["a", "", "𝔘𝔫𝔦", "a", "Ö"])),
    "string_all_na": (col(["", ""]), col([""])),
    "fixed_string": (col(["b", "a", "c"], "U1"), col(["a", "b"], "U3")),
    "bytes": (col([b"a", b"b", b""]), col([b"b", b"", b"zz"])),
    "date": (col(["2020-01-01", "NaT", "2020-01-03"], "datetime64[D]"), col(["2020-01-03", "NaT", "2020-01-01", "2020-01-03"], "datetime64[D]")),
    "date_vs_datetime": (col(["2020-01-01", "2020-01-02"], "datetime64[D]"), col(["2020-01-01T00:00:00", "2020-01-02T00:00:01"], "datetime64[s]")),
    "timedelta": (col([1, "NaT", 3], "timedelta64[s]"), col([3, 1, "NaT"], "timedelta64[s]")),
    "bool": (col([True, False, True]), col([False])),
    "object": (DataFrameColumn([None, "a", 1, (1, 2)], object), DataFrameColumn([(1, 2), None, 1.0, "a"], object)),
    "ties": (col([1, 1, 1, 2, 2]), col([2, 2, 1, 1])),
}
for name, (x, y) in key_columns.items():
    a = DataFrame(k=x, a=np.arange(len(x)), s=[f"s{i}" for i in range(len(x))])
    b = DataFrame(k=y, b=np.arange(len(y)) * 1.5, s=[f"t{i}" for i in range(len(y))], kk=y)
    # The helper itself, the way the joins call it
    with warnings.catch_warnings():
        warnings.simplefilter("ignore")
        u = outcome(lambda: a._get_join_indices(b.drop_na("k").unique("k"), ["k"], ["k"]))
        v = outcome(lambda: as_old(a)._get_join_indices(b.drop_na("k").unique("k"), ["k"], ["k"]))
        check(f"{name}: indices", same_outcome(u, v, same_indices))
        # ... and without deduplication, so that later duplicates overwrite
        u = outcome(lambda: a._get_join_indices(b, ["k"], ["k"]))
        v = outcome(lambda: as_old(a)._get_join_indices(b, ["k"], ["k"]))
        check(f"{name}: indices, duplicates in other", same_outcome(u, v, same_indices))
        for method in ["left_join", "inner_join", "semi_join", "anti_join", "full_join"]:
            for by in [("k",), (("k", "kk"),), ("k", "s"), (("k", "kk"), "s")]:
                u = outcome(lambda: getattr(a, method)(b, *by))
                v = outcome(lambda: getattr(as_old(a), method)(as_old(b), *by))
                check(f"{name}: {method} by {by}", same_outcome(u, v, same_frame_any_class))
                u = outcome(lambda: getattr(b, method)(a, *by))
                v = outcome(lambda: getattr(as_old(b), method)(as_old(a), *by))
                check(f"{name}: reverse {method} by {by}", same_outcome(u, v, same_frame_any_class))

# 3. Odd calls fail the same way.
a = DataFrame(k=[1, 2], v=[1, 2])
b = DataFrame(k=[2, 3], w=[1, 2])
o = DataFrame(k=DataFrameColumn([[1], [2]], object) if False else [1, 2])
lists = DataFrame()
dict.update(lists, {"k": np.array([None, None], object).view(DataFrameColumn)})
lists["k"][0] = [1]; lists["k"][1] = [2]
cases = {
    "no by": lambda f: f(a).left_join(f(b)),
    "no by, both empty": lambda f: f(a.head(0)).left_join(f(b.head(0))),
    "no by, other empty": lambda f: f(a).inner_join(f(b.head(0))),
    "no by, self empty": lambda f: f(a.head(0)).inner_join(f(b)),
    "missing column": lambda f: f(a).left_join(f(b), "nope"),
    "missing in other": lambda f: f(a).semi_join(f(b), "v"),
    "unhashable keys in self": lambda f: f(lists)._get_join_indices(f(b), ["k"], ["k"]),
    "unhashable keys in other": lambda f: f(b)._get_join_indices(f(lists), ["k"], ["k"]),
    "other not a data frame": lambda f: f(a).left_join({"k": [1]}, "k"),
    "grouped": lambda f: f(a.copy().group_by("k")).left_join(f(b.copy().group_by("w")), "k"),
}
for name, function in cases.items():
    u = outcome(lambda: function(lambda x: x))
    v = outcome(lambda: function(as_old))
    same = same_indices if "unhashable" in name else same_frame_any_class
    check(f"{name}: {u[0]} {u[1].__name__ if u[0] == 'error' else ''}", same_outcome(u, v, same))

# 4. Arguments untouched, result independent, repeated calls.
a = DataFrame(k=[1, 2, 3], v=[1.0, 2.0, 3.0])
b = DataFrame(k=[3, 1], w=["x", "y"])
a0, b0 = a.deepcopy(), b.deepcopy()
r1 = a.left_join(b, "k")
r2 = a.left_join(b, "k")
check("repeated call", same_frame(r1, r2))
check("arguments untouched", same_frame(a, a0) and same_frame(b, b0))
r1.v[0] = 100; r1.w[0] = "changed"
check("result independent", same_frame(a, a0) and same_frame(b, b0) and same_frame(a.left_join(b, "k"), r2))
check("no sharing", not any(np.shares_memory(r2[k], a[k]) for k in a))
found, src = a._get_join_indices(b, ["k"], ["k"])
check("found and src are separate writable arrays", found[0].flags.writeable and src.flags.writeable and not np.shares_memory(found[0], src))

print(f"{len(FAILURES)} failures")
sys.exit(1 if FAILURES else 0)
