import os, sys; sys.path.insert(0, os.getcwd())

# Change 5: util.xopen merges its keyword defaults with dict unpacking,
# defaults first so that whatever the caller passed wins (also an explicit
# encoding=None or compresslevel=0), and hands the compresslevel default to
# both compressing siblings bz2.open and gzip.open, but not to lzma.open/open.

import bz2
import gzip
import lzma
import pathlib
import shutil
import tempfile

from dataiter import util

FAILURES = []

def check(cond, label):
    if not cond:
        FAILURES.append(label)
        print("FAIL:", label)

def make_old_xopen(bz2_open, gzip_open, lzma_open, plain_open):
    # The implementation before the change, verbatim.
    def xopen(path, mode="r", **kwargs):
        if "b" not in mode:
            kwargs.setdefault("encoding", "utf-8")
        if str(path).endswith(".bz2"):
            kwargs.setdefault("compresslevel", 6)
            return bz2_open(path, mode, **kwargs)
        if str(path).endswith(".gz"):
            kwargs.setdefault("compresslevel", 6)
            return gzip_open(path, mode, **kwargs)
        if str(path).endswith(".xz"):
            return lzma_open(path, mode, **kwargs)
        return plain_open(path, mode, **kwargs)
    return xopen

# Part 1: record what reaches the four openers for every argument combination.

CALLS = []
def recorder(name):
    def opener(*args, **kwargs):
        CALLS.append((name, args, kwargs))
        return name
    return opener

class CountingPath:
    # A path-like whose str() calls are counted.
    def __init__(self, text):
        self.text = text
        self.count = 0
    def __str__(self):
        self.count += 1
        return self.text

recorders = {x: recorder(x) for x in ["bz2", "gzip", "lzma", "open"]}
old_xopen = make_old_xopen(recorders["bz2"], recorders["gzip"], recorders["lzma"], recorders["open"])

real = (util.bz2.open, util.gzip.open, util.lzma.open)
util.bz2 = type("fake_bz2", (), {"open": staticmethod(recorders["bz2"])})
util.gzip = type("fake_gzip", (), {"open": staticmethod(recorders["gzip"])})
util.lzma = type("fake_lzma", (), {"open": staticmethod(recorders["lzma"])})
util.open = recorders["open"]

paths = ["x.csv", "x.csv.bz2", "x.csv.gz", "x.csv.xz", "x.gz.csv", "x.GZ", ".bz2", "gz", "",
         "ä€😀.json.gz", "dir.gz/x.txt", "x.bz2.gz", "x.gz.xz", "x.xz.bz2",
         pathlib.Path("p/x.csv.gz"), pathlib.Path("p/x.csv"), pathlib.Path("x.xz")]
modes = [None, "r", "rt", "rb", "w", "wt", "wb", "a", "ab", "xb", "x", "", "b", "br", "r+b", "U"]
kwarg_sets = [
    {},
    {"encoding": "utf-8"},
    {"encoding": "latin-1"},
    {"encoding": None},               # explicit None must reach the opener
    {"encoding": ""},
    {"compresslevel": 6},
    {"compresslevel": 0},             # explicit 0 (no compression) must reach the opener
    {"compresslevel": 9},
    {"compresslevel": None},
    {"encoding": None, "compresslevel": 0},
    {"compresslevel": 1, "encoding": "utf-16"},
    {"errors": "replace", "newline": ""},
    {"newline": None, "errors": None},
    {"preset": 0},
    {"bogus": False},
]

count = 0
for path in paths:
    for mode in modes:
        for kwargs in kwarg_sets:
            args = (path,) if mode is None else (path, mode)
            given = dict(kwargs)
            del CALLS[:]
            a = util.xopen(*args, **kwargs)
            new_calls = list(CALLS)
            check(kwargs == given and list(kwargs) == list(given), f"caller's dict mutated: {args} {given}")
            del CALLS[:]
            b = old_xopen(*args, **kwargs)
            old_calls = list(CALLS)
            check(a == b, f"opener differs: {args} {kwargs}")
            check(new_calls == old_calls, f"{args} {kwargs}: {new_calls} vs {old_calls}")
            check(len(new_calls) == 1, f"one opener call: {args} {kwargs}")
            count += 1

# Independent expectations for the defaults.
def sent(*args, **kwargs):
    del CALLS[:]
    util.xopen(*args, **kwargs)
    return CALLS[0]

check(sent("a.txt") == ("open", ("a.txt", "r"), {"encoding": "utf-8"}), "text default encoding")
check(sent("a.txt", "rb") == ("open", ("a.txt", "rb"), {}), "binary: no encoding")
check(sent("a.txt", encoding=None) == ("open", ("a.txt", "r"), {"encoding": None}), "explicit encoding=None kept")
check(sent("a.txt", "w", encoding="") == ("open", ("a.txt", "w"), {"encoding": ""}), "explicit encoding='' kept")
check(sent("a.gz", "wb") == ("gzip", ("a.gz", "wb"), {"compresslevel": 6}), "gz default level")
check(sent("a.bz2", "wb") == ("bz2", ("a.bz2", "wb"), {"compresslevel": 6}), "bz2 default level")
check(sent("a.gz", "wb", compresslevel=0) == ("gzip", ("a.gz", "wb"), {"compresslevel": 0}), "gz explicit level 0 kept")
check(sent("a.bz2", "wb", compresslevel=9) == ("bz2", ("a.bz2", "wb"), {"compresslevel": 9}), "bz2 explicit level kept")
check(sent("a.gz", "wt") == ("gzip", ("a.gz", "wt"), {"encoding": "utf-8", "compresslevel": 6}), "gz text")
check(sent("a.gz", "wt", encoding="latin-1", compresslevel=1) ==
      ("gzip", ("a.gz", "wt"), {"encoding": "latin-1", "compresslevel": 1}), "gz text explicit")
check(sent("a.xz", "wb") == ("lzma", ("a.xz", "wb"), {}), "xz: no compresslevel")
check(sent("a.xz", "wt") == ("lzma", ("a.xz", "wt"), {"encoding": "utf-8"}), "xz text")
check(sent("a.csv", "wb") == ("open", ("a.csv", "wb"), {}), "plain: no compresslevel")
check(sent("a.csv", "wb", compresslevel=3) == ("open", ("a.csv", "wb"), {"compresslevel": 3}), "plain: passed through")

# str(path) is evaluated exactly as often as before.
for text in ["x.bz2", "x.gz", "x.xz", "x.csv"]:
    p1, p2 = CountingPath(text), CountingPath(text)
    util.xopen(p1, "rb")
    old_xopen(p2, "rb")
    check(p1.count == p2.count, f"str(path) count for {text}: {p1.count} vs {p2.count}")

# Same exceptions for junk modes.
def outcome(function, *args, **kwargs):
    try:
        return ("ok", function(*args, **kwargs))
    except Exception as error:
        return (type(error).__name__, str(error))

for mode in [None, 1, b"rb", ["b"]]:
    a = outcome(util.xopen, "x.gz", mode)
    b = outcome(old_xopen, "x.gz", mode)
    check(a == b, f"mode {mode!r}: {a} vs {b}")
a = outcome(util.xopen, "x.gz", "r", "utf-8")
check(a[0] == "TypeError", "extra positional argument")

# Part 2: the real thing, round trips through actual files.

util.bz2, util.gzip, util.lzma = bz2, gzip, lzma
del util.open
real_old_xopen = make_old_xopen(bz2.open, gzip.open, lzma.open, open)

text = "id,name\n1,ä€😀\n2,\n" * 50
tmp = tempfile.mkdtemp(dir=os.path.dirname(os.path.abspath(__file__)))
try:
    for suffix in ["", ".bz2", ".gz", ".xz"]:
        for encoding in [None, "utf-8", "utf-16", "latin-1"]:
            for level in [None, 0, 1, 9]:
                kwargs = {}
                if encoding is not None: kwargs["encoding"] = encoding
                if level is not None: kwargs["compresslevel"] = level
                results = []
                for i, function in enumerate([util.xopen, real_old_xopen]):
                    path = os.path.join(tmp, f"{i}-ä.csv{suffix}")
                    def roundtrip():
                        with function(path, "wt", **kwargs) as f:
                            f.write(text)
                        with function(pathlib.Path(path), "rt", **kwargs) as f:
                            back = f.read()
                        with function(path, "rb") as f:
                            raw = f.read()
                        with open(path, "rb") as f:
                            size = len(f.read())
                            f.seek(0)
                            # gzip: byte 8 of the header records the compression level used.
                            flag = f.read(9)[8:9] if suffix == ".gz" else b""
                        return back, raw, size, flag
                    results.append(outcome(roundtrip))
                label = f"roundtrip {suffix!r} {kwargs}"
                check(results[0] == results[1], f"{label}: {results[0][0]} vs {results[1][0]}")
                if results[0][0] == "ok" and encoding != "latin-1":
                    check(results[0][1][0] == text, f"{label}: content")
                count += 1
    # Default level 6 really is in effect for both compressors, explicit 0 / 9 too.
    sizes = {}
    payload = (text * 20).encode("utf-8")
    for suffix in [".gz", ".bz2"]:
        for level in [None, 1, 6, 9] + ([0] if suffix == ".gz" else []):
            path = os.path.join(tmp, f"level{suffix}")
            kwargs = {} if level is None else {"compresslevel": level}
            with util.xopen(path, "wb", **kwargs) as f:
                f.write(payload)
            sizes[suffix, level] = os.path.getsize(path)
        check(sizes[suffix, None] == sizes[suffix, 6], f"{suffix}: default is level 6")
    check(sizes[".gz", 0] > len(payload), "gz: explicit level 0 stores without compression")
    check(sizes[".gz", 0] > sizes[".gz", 6], "gz: level 0 is not the default")
finally:
    shutil.rmtree(tmp)

print(count, "combinations")
print("FAILED" if FAILURES else "OK", len(FAILURES))
sys.exit(1 if FAILURES else 0)
