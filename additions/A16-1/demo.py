import os, sys; sys.path.insert(0, os.getcwd())

# Change 1: DataFrame.drop_na builds the row mask with one
# np.logical_or.reduce over the per-column is_na() masks (seeded with an
# all-false row) instead of a Python loop of "drop = drop | mask".

import math
import datetime
import numpy as np
import dataiter as di

from dataiter import DataFrame, Vector

FAILURES = []

def check(cond, label):
    if not cond:
        FAILURES.append(label)
        print("FAIL:", label)

def canon(column):
    # Type-exact, NaN/NaT-safe representation of a column.
    return (type(column).__name__, str(column.dtype), column.shape,
            [(type(x).__name__, repr(x)) for x in column])

def same_frame(a, b):
    return (type(a) is type(b) and
            list(a.keys()) == list(b.keys()) and
            all(canon(a[k]) == canon(b[k]) for k in a))

def old_drop_na(self, *colnames):
    # The implementation before the change, verbatim.
    drop = Vector.fast([False], bool).repeat(self.nrow)
    for colname in colnames:
        drop = drop | self[colname].is_na()
    return self.filter_out(drop)

def py_is_missing(value, is_object):
    # Independent plain-Python definition of "missing":
    # in object columns only None counts.
    if is_object: return value is None
    if value is None: return True
    if isinstance(value, (np.datetime64, np.timedelta64)):
        return str(value) == "NaT"
    if isinstance(value, (float, np.floating)):
        return math.isnan(value)
    if isinstance(value, str):
        return value == ""
    return False

def expected_rows(data, colnames):
    keep = []
    for i in range(data.nrow):
        if not any(py_is_missing(data[c][i], data[c].dtype == object) for c in colnames):
            keep.append(i)
    return keep

def obj(*values):
    out = np.empty(len(values), object)
    for i, value in enumerate(values):
        out[i] = value
    return out

nan = float("nan")
frames = {}
frames["mixed"] = DataFrame(
    f=[1.5, nan, -0.0, math.inf, -math.inf, nan, 7.0],
    f32=np.array([nan, 1, 2, 3, nan, 5, 6], np.float32),
    i=np.array([0, -1, 2**63 - 1, -2**63, 5, 6, 7], np.int64),
    u=np.array([0, 1, 2**64 - 1, 3, 4, 5, 6], np.uint64),
    b=[True, False, True, False, True, False, True],
    s=["a", "", "ä€😀", "", "b", "NaN", "None"],
    o=obj(None, 1, "x", nan, None, (1, 2), ""),
    d=np.array(["2020-01-01", "NaT", "1970-01-01", "NaT", "2021-01-01", "2022-01-01", "NaT"], "datetime64[D]"),
    t=np.array([1, "NaT", 0, -5, "NaT", 3, 4], "timedelta64[s]"),
    y=np.array([b"a", b"", b"c", b"d", b"e", b"f", b"g"]),
)
frames["all_missing"] = DataFrame(
    f=[nan, nan, nan],
    s=["", "", ""],
    o=obj(None, None, None),
    d=np.array(["NaT"] * 3, "datetime64[ns]"),
)
frames["none_missing"] = DataFrame(x=[3, 1, 2], y=["a", "b", "c"])
frames["one_row"] = DataFrame(x=[nan], y=["a"])
frames["zero_rows"] = DataFrame(x=np.array([], float), y=np.array([], object), z=Vector([], str))
frames["no_columns"] = DataFrame()
frames["geojson_like_subclass"] = type("Sub", (DataFrame,), {})(x=[1.0, nan], y=["", "b"])

for name, data in frames.items():
    colnames = data.colnames
    selections = [(), tuple(colnames), tuple(reversed(colnames))]
    selections += [(c,) for c in colnames]
    selections += [(c, c) for c in colnames[:2]]
    selections += [tuple(colnames[i:i+2]) for i in range(len(colnames))]
    for sel in selections:
        before = data.deepcopy()
        new = data.drop_na(*sel)
        old = old_drop_na(data, *sel)
        label = f"{name} {sel}"
        check(same_frame(new, old), f"{label}: new != old")
        # Independent expectation in plain Python.
        keep = expected_rows(data, sel)
        check(new.nrow == len(keep) if data else new.nrow == 0, f"{label}: row count")
        for c in data:
            want = [data[c][i] for i in keep]
            got = list(new[c])
            check([repr(x) for x in got] == [repr(x) for x in want], f"{label}: values of {c}")
            check(new[c].dtype == data[c].dtype, f"{label}: dtype of {c}")
            check(isinstance(new[c], di.DataFrameColumn), f"{label}: column type of {c}")
            # The result is a fresh copy, never a view of the input.
            check(not np.shares_memory(new[c], data[c]), f"{label}: aliasing of {c}")
        check(same_frame(data, before), f"{label}: input mutated")
        check(new is not data, f"{label}: same object returned")
        # Repeated call gives the same thing; mutating the result doesn't leak.
        again = data.drop_na(*sel)
        check(same_frame(again, new), f"{label}: repeated call")
        if new.nrow > 0 and "f" in new:
            new.f[0] = 12345.0
            check(same_frame(data, before), f"{label}: result mutation leaked")

# Same exceptions.
def outcome(function, *args):
    try:
        return ("ok", function(*args))
    except Exception as error:
        return (type(error).__name__, str(error))

data = frames["mixed"]
for sel in [("nope",), ("f", "nope"), ("nope", "f"), (1,), (None,)]:
    a = outcome(data.drop_na, *sel)
    b = outcome(old_drop_na, data, *sel)
    check(a == b and a[0] == "KeyError", f"exception for {sel}: {a} vs {b}")
a = outcome(DataFrame().drop_na, "x")
b = outcome(old_drop_na, DataFrame(), "x")
check(a == b and a[0] == "KeyError", "exception for missing column in empty frame")

# A frame corrupted through the plain dict API fails the same way.
bad = DataFrame(x=[1.0, nan, 3.0])
bad.setdefault("y", di.DataFrameColumn([1.0, nan]))
a = outcome(bad.drop_na, "x")
b = outcome(old_drop_na, bad, "x")
check(a == b and a[0] == "ValueError", f"corrupted frame: {a} vs {b}")

# Grouping state is not carried over, as before.
data = DataFrame(g=[1, 1, 2], x=[nan, 1.0, 2.0]).group_by("g")
check(data.drop_na("x")._group_colnames == old_drop_na(data, "x")._group_colnames == (), "group colnames")

print("FAILED" if FAILURES else "OK", len(FAILURES))
sys.exit(1 if FAILURES else 0)
