import os, sys; sys.path.insert(0, os.getcwd())

# Change 1: ListOfDicts.__deepcopy__ takes a shortcut for flat items of
# immutable scalars. Compare with item-wise copy.deepcopy (the old code) and
# with independently built expectations.

import copy
import enum
import math

import numpy as np

from attd import AttributeDict, FallbackAttributeDict
from dataiter import ListOfDicts

failures = []

def check(condition, message):
    if not condition:
        failures.append(message)
        print("FAIL:", message[:1000])

def same_value(a, b):
    # Structural equality that is strict about types and treats NaN as equal.
    if type(a) is not type(b):
        return False
    if isinstance(a, dict):
        return (list(a.keys()) == list(b.keys()) and
                all(same_value(a[k], b[k]) for k in a))
    if isinstance(a, (list, tuple)):
        return len(a) == len(b) and all(map(same_value, a, b))
    if isinstance(a, float) and math.isnan(a):
        return math.isnan(b)
    if isinstance(a, np.ndarray):
        return a.dtype == b.dtype and np.array_equal(a, b, equal_nan=a.dtype.kind in "fc")
    if isinstance(a, Opaque):
        return a.x == b.x
    if isinstance(a, np.generic):
        return repr(a) == repr(b)
    return a == b

class Opaque:
    # Hashable, mutable, deep-copyable key or value.
    def __init__(self, x):
        self.x = x
    def __hash__(self):
        return 1
    def __eq__(self, other):
        return isinstance(other, Opaque) and self.x == other.x

class Color(enum.IntEnum):
    RED = 1

class MyInt(int):
    pass

class MyStr(str):
    pass

def scribble(value):
    # Change every mutable object reachable from value.
    if isinstance(value, dict):
        for x in list(value.values()): scribble(x)
        value["__scribble__"] = 1
    if isinstance(value, (list, tuple)):
        for x in value: scribble(x)
    if isinstance(value, list):
        value.append("changed")
    if isinstance(value, Opaque):
        scribble(value.x)
        value.x = "changed"

def old_deepcopy(data):
    # The implementation before the change.
    new = data.__class__(map(copy.deepcopy, data), as_is=True)
    new._group_keys = data._group_keys
    return new

def compare(name, data):
    before = copy.deepcopy([dict(x) for x in data])
    new = data.deepcopy()
    ref = old_deepcopy(data)
    check(type(new) is type(ref), f"{name}: container type")
    check(len(new) == len(ref) == len(data), f"{name}: length")
    check(new._group_keys == data._group_keys, f"{name}: group keys")
    check(new._predecessor is None, f"{name}: predecessor")
    check(new._obsolete is False, f"{name}: obsolete")
    for i, (x, y, z) in enumerate(zip(data, new, ref)):
        check(y is not x, f"{name}[{i}]: fresh item")
        check(type(y) is type(z), f"{name}[{i}]: item type {type(y)} vs {type(z)}")
        check(same_value(dict(y), dict(z)), f"{name}[{i}]: value {y!r} vs {z!r}")
        check(getattr(y, "__dict__", None) == getattr(z, "__dict__", None), f"{name}[{i}]: instance dict")
        for kx, ky, kz in zip(x, y, z):
            # Keys: same identity pattern as the old code.
            check((ky is kx) == (kz is kx), f"{name}[{i}]: key identity {kx!r}")
        for key, vx, vy, vz in zip(x, x.values(), y.values(), z.values()):
            # Values: shared exactly when the old code shared them.
            check((vy is vx) == (vz is vx), f"{name}[{i}].{key!r}: value identity")
            check(type(vy) is type(vz), f"{name}[{i}].{key!r}: value type")
    # The original is left as it was.
    check(all(same_value(dict(x), b) for x, b in zip(data, before)), f"{name}: original intact")
    # Copies are independent of the original and of each other.
    again = data.deepcopy()
    for item in new:
        item["__added__"] = 1
        scribble(item)
    check(all(same_value(dict(x), b) for x, b in zip(data, before)), f"{name}: independent of original")
    check(all(same_value(dict(x), dict(z)) for x, z in zip(again, ref)), f"{name}: repeated call")
    return new

nan = float("nan")
big = 2**64 + 1
shared = [1, 2, 3]

cases = {
    "empty": ListOfDicts([]),
    "empty items": ListOfDicts([{}, {}]),
    "flat": ListOfDicts([{"a": 1, "b": "x", "c": None, "d": True, "e": 1.5}] * 3),
    "floats": ListOfDicts([{"x": nan, "y": float("inf"), "z": -float("inf"), "w": -0.0}]),
    "integers": ListOfDicts([{"x": big, "y": -big, "z": 2**63, "w": 0, "v": 18446744073709551615}]),
    "text": ListOfDicts([{"näme": "Åland ☃ 日本", "": "", "b": b"\xff\x00", "c": 1+2j}]),
    "nested": ListOfDicts([{"a": 1, "b": [1, [2, 3]], "c": {"d": {"e": [4]}}}, {"a": 2}]),
    "tuples": ListOfDicts([{"a": (1, 2), "b": (1, [2])}]),
    "dict in tuple": ListOfDicts([{"a": ({"x": [1]},)}, {"b": [{"y": 1}]}]),
    "sets": ListOfDicts([{"a": {1, 2}, "b": frozenset([1])}]),
    "shared": ListOfDicts([{"a": shared}, {"a": shared}]),
    "int keys": ListOfDicts([{1: "a", 2.5: "b", None: "c", True: "d"}]),
    "tuple keys": ListOfDicts([{(1, 2): "a", "b": 2}]),
    "opaque keys": ListOfDicts([{Opaque(1): 1, "b": 2}]),
    "opaque values": ListOfDicts([{"a": Opaque([1]), "b": 2}]),
    "subclassed scalars": ListOfDicts([{"a": Color.RED, "b": MyInt(3), "c": MyStr("x"), MyStr("k"): 1}]),
    "numpy scalars": ListOfDicts([{"a": np.float64(1.5), "b": np.int64(3), "c": np.datetime64("NaT"),
                                   "d": np.uint64(2**64 - 1), "e": np.str_("ö")}]),
    "numpy arrays": ListOfDicts([{"a": np.array([1.0, nan]), "b": 1}]),
    "types and functions": ListOfDicts([{"a": int, "b": len, "c": ..., "d": range(3)}]),
    "plain dicts as is": ListOfDicts([{"a": 1}, {"b": [1]}], as_is=True),
    "fallback dicts": ListOfDicts([FallbackAttributeDict(a=1), FallbackAttributeDict(b=[1])], as_is=True),
    "same item twice": ListOfDicts([AttributeDict(a=1)] * 2, as_is=True),
}
cases["grouped"] = ListOfDicts([{"g": 1, "x": 2}, {"g": 1, "x": 3}]).group_by("g")
cases["sliced"] = cases["nested"][:1]

item = AttributeDict(a=1)
object.__setattr__(item, "hidden", [1])
cases["instance attribute"] = ListOfDicts([item], as_is=True)

for name, data in cases.items():
    compare(name, data)

# Independent expectations, not relying on the old code.
data = ListOfDicts([{"a": 1, "b": "ö"}, {"a": nan, "c": [1, 2]}])
new = data.deepcopy()
check([type(x) for x in new] == [AttributeDict] * 2, "expected: item types")
check(new[0] == {"a": 1, "b": "ö"} and list(new[0]) == ["a", "b"], "expected: flat item")
check(new[0] is not data[0] and new[1] is not data[1], "expected: fresh items")
check(new[1].c == [1, 2] and new[1].c is not data[1].c, "expected: nested list copied")
check(math.isnan(new[1].a), "expected: nan kept")
new[0].a = 100
new[1].c.append(3)
check(data[0].a == 1 and data[1].c == [1, 2], "expected: original untouched")
data[0].b = "changed"
check(new[0].b == "ö", "expected: copy untouched")
check(copy.deepcopy(data) == data and copy.deepcopy(data)[0] is not data[0], "expected: copy.deepcopy")
check(copy.deepcopy(data, {}) == data, "expected: copy.deepcopy with memo")

# Shared nested objects are not shared between copied items (as before).
data = cases["shared"]
new = data.deepcopy()
check(new[0].a is not new[1].a, "expected: shared list split")

# The same item listed twice gives two separate copies (as before).
data = cases["same item twice"]
new = data.deepcopy()
check(new[0] is not new[1], "expected: duplicate item split")

# Items that cannot be deep-copied raise the same error.
import threading
data = ListOfDicts([{"a": 1}, {"a": threading.Lock()}])
for function in (lambda: data.deepcopy(), lambda: old_deepcopy(data)):
    try:
        function()
        check(False, "expected: TypeError for lock")
    except TypeError as error:
        check("pickle" in str(error), "expected: message for lock")

# Methods building on deepcopy.
data = ListOfDicts([{"g": "b", "x": 1}, {"g": "a", "x": 2}, {"g": "b", "x": None}])
stat = data.group_by("g").aggregate(n=len, total=lambda x: sum(filter(None, x.pluck("x"))))
check(stat == [{"g": "a", "n": 1, "total": 2}, {"g": "b", "n": 2, "total": 1}], "expected: aggregate")
check(data == [{"g": "b", "x": 1}, {"g": "a", "x": 2}, {"g": "b", "x": None}], "expected: aggregate leaves data")
a = ListOfDicts([{"id": 1, "x": "a"}, {"id": 2, "x": "b"}])
b = ListOfDicts([{"id": 2, "y": "c"}, {"id": 3, "y": "d"}])
joined = a.full_join(b, "id")
check(joined == [{"id": 1, "x": "a"}, {"id": 2, "x": "b", "y": "c"}, {"id": 3, "y": "d"}], "expected: full_join")
check(a == [{"id": 1, "x": "a"}, {"id": 2, "x": "b"}], "expected: full_join leaves a")
check(b == [{"id": 2, "y": "c"}, {"id": 3, "y": "d"}], "expected: full_join leaves b")

print("failures:", len(failures))
sys.exit(1 if failures else 0)
