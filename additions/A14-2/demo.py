import os, sys; sys.path.insert(0, os.getcwd())

# Change 2: Vector.rank (methods "min" and "max") takes the group sizes from
# np.unique(..., return_counts=True) instead of np.bincount(inverse).
# Compare against a verbatim copy of the old method and against ranks
# computed with plain Python.

import datetime
import random
import warnings
import numpy as np

warnings.simplefilter("ignore")

from dataiter import Vector

def old_rank(self, *, method="min"):
    # Verbatim copy of the method before the change.
    if self.length == 0:
        return self.fast([], int)
    na = self.is_na()
    if na.all():
        self = self.fast(np.repeat(1, self.length))
    self = self._optimize_for_argsort()
    out = np.zeros_like(self, int)
    if method == "min":
        inv = np.unique(self[~na], return_inverse=True)[1]
        out[~na] = np.concatenate(([0], np.bincount(inv))).cumsum()[inv] + 1
        out[na] = (~na).sum() + 1
        return out.view(self.__class__)
    if method == "max":
        inv = np.unique(self[~na], return_inverse=True)[1]
        out[~na] = np.bincount(inv).cumsum()[inv]
        out[na] = len(self)
        return out.view(self.__class__)
    if method == "ordinal":
        indices = self[~na].argsort(kind="stable")
        rank = np.zeros_like(indices)
        rank[indices] = np.arange(len(indices)) + 1
        out[~na] = rank
        out[na] = len(rank) + np.arange(na.sum()) + 1
        return out.view(self.__class__)
    raise ValueError(f"Unexpected method: {method!r}")

def python_rank(values, na, method):
    # values: plain Python, orderable where not missing.
    present = [v for v, m in zip(values, na) if not m]
    out = []
    for v, m in zip(values, na):
        if m:
            out.append(len(present) + 1 if method == "min" else len(values))
        elif method == "min":
            out.append(1 + sum(1 for w in present if w < v))
        else:
            out.append(sum(1 for w in present if w <= v))
    return out

def run(f):
    try:
        return ("ok", f())
    except BaseException as e:
        return ("error", type(e), str(e))

def same(a, b):
    if a[0] != b[0]: return False
    if a[0] == "error": return a[1:] == b[1:]
    a, b = a[1], b[1]
    return (type(a) is type(b) and a.dtype == b.dtype and a.shape == b.shape and
            a.tobytes() == b.tobytes())

random.seed(1)
NaT = np.datetime64("NaT")
D = lambda s: np.datetime64(s)
long_a, long_b = "a" * 60, "b" * 60
vectors = {
    "empty": Vector([]),
    "empty int": Vector([], int),
    "empty str": Vector([], str),
    "single": Vector([5]),
    "single na": Vector([np.nan]),
    "int ties": Vector([3, 1, 1, 1, 2, 2]),
    "int extreme": Vector([2**63 - 1, -2**63, 0, -2**63, 2**63 - 1]),
    "uint64": Vector([2**64 - 1, 0, 2**63, 2**64 - 1, 2**63 + 1], np.uint64),
    "uint8": Vector([255, 0, 255, 1], np.uint8),
    "int8": Vector([-128, 127, -128], np.int8),
    "float": Vector([2.5, np.nan, -np.inf, np.inf, 2.5, -0.0, 0.0, np.nan, np.inf]),
    "float32": Vector([1.5, np.nan, 1.5, -1], np.float32),
    "float all na": Vector([np.nan, np.nan, np.nan]),
    "bool": Vector([True, False, True, True]),
    "bool na (object)": Vector([True, None, False, None, True]),
    "str": Vector(["b", "", "a", "b", "", "ö", "😀", "a"]),
    "str all na": Vector(["", "", ""]),
    "str long": Vector([long_b, "", long_a, long_b, "a"]),
    "str one empty only": Vector([""]),
    "str fixed": Vector.fast(np.array(["b", "", "a", "b"])),
    "bytes": Vector([b"b", b"a", b"b", b""]),
    "date": Vector([D("2020-01-02"), NaT, D("2020-01-01"), D("2020-01-02"), NaT]),
    "datetime": Vector([D("2020-01-02T10:00"), NaT, D("1969-12-31T23:59"), D("2020-01-02T10:00")]),
    "datetime all na": Vector([NaT, NaT]),
    "timedelta": Vector([3, "NaT", -1, 3], "timedelta64[s]"),
    "object": Vector([3, None, 1, 3, None, 2.5], object),
    "object all na": Vector([None, None], object),
    "object str": Vector(["b", None, "a", "b"], object),
    "object unorderable": Vector([3, None, "a", 3], object),
    "object nan": Vector([float("nan"), 1.0, float("nan"), 1.0], object),
    "complex": Vector([1j, 0, 1j, complex("nan"), 1 + 1j, complex("nan")], complex),
    "random int": Vector([random.randint(-5, 5) for i in range(500)]),
    "random float na": Vector([random.choice([np.nan, 0.5, 1.5, -2.0, np.inf]) for i in range(500)]),
    "random str": Vector([random.choice(["", "a", "b", "ä", "ab"]) for i in range(500)]),
}

n = 0
for name, v in vectors.items():
    copy = v.copy()
    for method in ["min", "max", "ordinal", "average", None]:
        old = run(lambda: old_rank(v, method=method))
        new = run(lambda: v.rank(method=method))
        assert same(old, new), (name, method, old, new)
        again = run(lambda: v.rank(method=method))
        assert same(new, again), (name, method)
        if new[0] == "ok":
            r = new[1]
            assert isinstance(r, Vector) and r.dtype == np.dtype("int64")
            assert not np.shares_memory(r, v)
            if r.size:
                assert not np.shares_memory(r, again[1])
                r[0] = -1  # changing a result does not change later results
                assert same(old, run(lambda: v.rank(method=method))), (name, method)
        # The vector itself is untouched.
        assert v.dtype == copy.dtype and v.tolist() == copy.tolist() or name in ("object nan", "complex")
        n += 1
    assert same(run(lambda: old_rank(v)), run(lambda: v.rank())), name

# Independent expectations with plain Python for everything orderable.
for name, v in vectors.items():
    if name in ("object unorderable", "object nan", "complex"): continue
    na = v.is_na().tolist()
    values = v.tolist()
    if name == "bytes" or name == "str fixed":
        values = [x for x in np.asarray(v).tolist()]
    for method in ["min", "max"]:
        expected = python_rank(values, na, method)
        assert v.rank(method=method).tolist() == expected, (name, method, v.rank(method=method), expected)

# A few literal expectations, including those of the documentation.
assert Vector([3, 1, 1, 1, 2, 2]).rank(method="min").tolist() == [6, 1, 1, 1, 4, 4]
assert Vector([3, 1, 1, 1, 2, 2]).rank(method="max").tolist() == [6, 3, 3, 3, 5, 5]
assert Vector([3, 1, 1, 1, 2, 2]).rank().tolist() == [6, 1, 1, 1, 4, 4]
assert Vector([2.0, np.nan, 2.0, np.nan]).rank(method="min").tolist() == [1, 3, 1, 3]
assert Vector([2.0, np.nan, 2.0, np.nan]).rank(method="max").tolist() == [2, 4, 2, 4]
assert Vector([np.nan, np.nan]).rank(method="min").tolist() == [1, 1]
assert Vector([np.nan, np.nan]).rank(method="max").tolist() == [2, 2]
assert Vector(["ö", "", "a", "ö"]).rank(method="min").tolist() == [2, 4, 1, 2]
assert Vector(["ö", "", "a", "ö"]).rank(method="max").tolist() == [3, 4, 1, 3]
assert Vector([2**64 - 1, 0, 2**64 - 1], np.uint64).rank(method="max").tolist() == [3, 1, 3]
assert run(lambda: vectors["object unorderable"].rank())[1] is TypeError

print(f"OK, {n} combinations compared")
