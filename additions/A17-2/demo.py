import os, sys; sys.path.insert(0, os.getcwd())

# Change 2: the fallback branch of Vector.is_na (object, boolean, integer,
# bytes, ... vectors) fills the boolean result with np.fromiter from a
# generator of identity tests instead of building a Python list first.
# The demo compares with the old expression and with plain-Python values.

import datetime
import numpy as np
import dataiter as di
from dataiter import Vector, DataFrameColumn

failures = []
def check(ok, what):
    if not ok:
        failures.append(what)
        print("MISMATCH:", what)

def old_is_na(self):
    # The old fallback branch, verbatim.
    return self.fast([x is None for x in self], bool)

class Weird:
    # Equal to everything, including None: must not count as missing.
    def __eq__(self, other): return True
    def __hash__(self): return 0

class NoBool:
    # Comparisons give something without a truth value.
    def __eq__(self, other): return np.array([1, 2])
    __hash__ = None

obj_elements = [None, 0, "", False, float("nan"), np.nan, np.datetime64("NaT"),
                [], (), {}, [None], (None,), np.array([1, 2, 3]), np.array([]),
                np.array(None), np.array([None]), Weird(), NoBool(), "None", b"",
                "日本語", 2**70, -2**70, datetime.date(2020, 1, 1), None]

def obj_vector(elements):
    array = np.empty(len(elements), object)
    for i, x in enumerate(elements):
        array[i] = x
    return array.view(Vector)

vectors = {
    "object mixed": obj_vector(obj_elements),
    "object all none": Vector([None, None, None], object),
    "object no none": Vector([1, "a", 2.5], object),
    "object empty": Vector([], object),
    "object one none": Vector([None], object),
    "object lists": obj_vector([[1, 2], None, [3], []]),
    "object arrays": obj_vector([np.arange(3), None, np.arange(2)]),
    "bool": Vector([True, False, True]),
    "bool empty": Vector([], bool),
    "int64 extreme": Vector.fast(np.array([-2**63, 0, 2**63 - 1], np.int64)),
    "uint64": Vector.fast(np.array([0, 2**64 - 1], np.uint64)),
    "int8": Vector.fast(np.array([-128, 127], np.int8)),
    "int empty": Vector([], int),
    "bytes": Vector.fast(np.array([b"", b"abc"], "S3")),
    "complex": Vector.fast(np.array([1 + 2j, complex("nan")])),
    "structured": Vector.fast(np.array([(1, 2.0), (3, 4.0)], [("a", int), ("b", float)])),
    "column object": DataFrameColumn([None, 1, "a"], object),
    "column bool": DataFrameColumn([True, False]),
    "strided object": obj_vector(obj_elements)[::2],
    "reversed object": obj_vector(obj_elements)[::-1],
    "big object": obj_vector([None if i % 7 == 0 else i for i in range(10000)]),
}

for name, v in vectors.items():
    new = v.is_na()
    old = old_is_na(v)
    expected = [x is None for x in v.view(np.ndarray).tolist()] if v.dtype == object else [False] * len(v)
    check(type(new) is type(old) is type(v), f"{name}: type {type(new)}")
    check(new.dtype == old.dtype == np.dtype(bool), f"{name}: dtype {new.dtype}")
    check(new.shape == old.shape == (len(v),), f"{name}: shape {new.shape}")
    check(new.tolist() == old.tolist() == expected, f"{name}: values")
    # A fresh, writeable array that shares nothing with the vector.
    check(not np.shares_memory(new, v), f"{name}: shares memory")
    check(new.flags.writeable == old.flags.writeable == True, f"{name}: writeable")
    check(new.flags.owndata == old.flags.owndata, f"{name}: owndata")
    check(new.flags.c_contiguous and new.flags.f_contiguous, f"{name}: contiguous")
    check(type(new.base) is type(old.base), f"{name}: base")
    before = v.copy() if v.dtype != object else list(v)
    if len(new):
        new[:] = True
        again = v.is_na()
        check(again.tolist() == expected, f"{name}: repeated call after mutating the result")
    # Later mutation of the vector does not change an earlier result.
    if v.dtype == object and len(v) and v.flags.writeable:
        first = v.is_na()
        saved = v[0]
        v[0] = None if saved is not None else 1
        check(first.tolist() == expected, f"{name}: result independent of later mutation")
        check(v.is_na()[0] == (saved is not None), f"{name}: sees mutation")
        v[0] = saved

# The other branches are untouched: float, datetime, timedelta, string.
NAN = float("nan")
check(Vector([1.0, NAN, float("inf")]).is_na().tolist() == [False, True, False], "float")
check(Vector([1, None, 3]).is_na().tolist() == [False, True, False], "int with None becomes float")
check(Vector(["a", "", None, "ä"]).is_na().tolist() == [False, True, True, False], "string")
check(Vector(["2020-01-01", None]).as_date().is_na().tolist() == [False, True], "date")
check(Vector.fast(np.array([1, "NaT"], "timedelta64[s]")).is_na().tolist() == [False, True], "timedelta")
check(Vector.fast(np.array(["a", ""], "U1")).is_na().tolist() == [False, True], "fixed width string")

# Same exceptions for things that are not one-dimensional vectors.
def outcome(f, *args):
    try:
        r = f(*args)
        return ("ok", type(r).__name__, getattr(r, "dtype", None), np.asarray(r).tolist())
    except Exception as e:
        return ("error", type(e).__name__, str(e))

zero_d = np.array(None, object).view(Vector)
check(outcome(Vector.is_na, zero_d) == outcome(old_is_na, zero_d), f"0-d: {outcome(Vector.is_na, zero_d)}")
check(outcome(Vector.is_na, zero_d)[0] == "error", "0-d raises")
two_d = np.array([[None, 1], [2, None], [None, None]], object).view(Vector)
check(outcome(Vector.is_na, two_d) == outcome(old_is_na, two_d), f"2-d: {outcome(Vector.is_na, two_d)}")
two_d_int = np.arange(6).reshape(3, 2).view(Vector)
check(outcome(Vector.is_na, two_d_int) == outcome(old_is_na, two_d_int), "2-d int")

# Methods built on is_na, with plain-Python expectations.
v = Vector([None, "b", 1, None, "a", 2.5], object)
check(v.drop_na().tolist() == ["b", 1, "a", 2.5], "drop_na")
check(v.replace_na(0).tolist() == [0, "b", 1, 0, "a", 2.5], "replace_na")
check(v.tolist() == [None, "b", 1, None, "a", 2.5], "tolist")
check(v.sort().tolist() == sorted(["b", 1, "a", 2.5], key=str) + [None, None], "sort")
check(v.equal(Vector([None, "b", 1, None, "a", 2.5], object)), "equal")
check(not v.equal(Vector(["x", "b", 1, None, "a", 2.5], object)), "not equal")
b = Vector([True, False])
check(b.drop_na().tolist() == [True, False] and b.drop_na().dtype == bool, "bool drop_na")
data = di.DataFrame(g=[1, 1, 2, 2], o=Vector([None, 5, None, None], object))
stat = data.group_by("g").aggregate(n=di.count("o", drop_na=True), f=di.first("o", drop_na=True))
check(stat.n.tolist() == [1, 0] and stat.f.tolist() == [5, None], "aggregate with drop_na")
check(data.drop_na("o").nrow == 1, "data frame drop_na")

print("failures:", len(failures))
sys.exit(1 if failures else 0)
