import os, sys; sys.path.insert(0, os.getcwd())

# Change 5: ListOfDicts.fill_missing_keys returns early for a list of no
# items. The result (an empty list, the old one marked obsolete) must be
# exactly what the general code gave, and nothing may change for lists
# that have items.

import contextlib
import io

import numpy as np

from dataiter import ListOfDicts

FAILURES = []

def check(ok, what):
    if not ok:
        FAILURES.append(what)
        print("MISMATCH:", what)

def old_fill_missing_keys(self, **key_value_pairs):
    # fill_missing_keys as it was before the change, decorators included (reference).
    def generate(key_value_pairs=key_value_pairs):
        if not key_value_pairs:
            key_value_pairs = dict.fromkeys(self.keys(), None)
        key_value_pairs = key_value_pairs.items()
        for item in self:
            for key, value in key_value_pairs:
                if key not in item:
                    item[key] = value
            yield item
    value = self._new(generate())
    self._mark_obsolete()
    return value

class Sub(ListOfDicts):
    pass

nan = float("nan")
ROWS = [{"a": 1, "b": None}, {"b": 2, "c": nan}, {}, {"d": [1, 2], "a": None}]
shared_list, shared_dict = [1, 2], {"k": 1}
KWARGS = [{}, {"a": None}, {"a": 0}, {"z": 0}, {"a": 1, "z": shared_list}, {"z": shared_dict},
          {"b": nan, "c": np.float64("nan"), "e": np.datetime64("NaT")}, {"self": 1, "key": 2}]

def inputs():
    # Each gives the list to call, and its ancestors for the obsolete flags.
    def plain(cls, rows):
        data = cls(rows)
        return data, [data]
    def sliced(cls, rows, index):
        parent = cls(ROWS)
        data = parent[index]
        return data, [data, parent]
    def filtered(cls, rows):
        grand = cls(ROWS)
        parent = grand.filter(lambda x: True).group_by("a")
        data = parent.filter(lambda x: x in rows)
        return data, [data, parent, grand]
    def used(cls, rows):
        data = cls(rows)
        data.modify(q=lambda x: 1)
        return data, [data]
    for cls in (ListOfDicts, Sub):
        for rname, rows in [("no items", []), ("one item", ROWS[:1]), ("one empty dict", [{}]),
                            ("empty dicts", [{}, {}]), ("four items", ROWS), ("all missing", [{"a": None}, {"a": None}])]:
            yield f"{cls.__name__} {rname}", lambda cls=cls, rows=rows: plain(cls, rows)
            yield f"{cls.__name__} {rname} grouped", lambda cls=cls, rows=rows: (lambda d: (d[0].group_by("a", "b"), d[1]))(plain(cls, rows))
            yield f"{cls.__name__} {rname} filtered", lambda cls=cls, rows=rows: filtered(cls, rows)
            yield f"{cls.__name__} {rname} obsolete", lambda cls=cls, rows=rows: used(cls, rows)
        yield f"{cls.__name__} empty slice", lambda cls=cls: sliced(cls, ROWS, slice(0, 0))
        yield f"{cls.__name__} slice beyond the end", lambda cls=cls: sliced(cls, ROWS, slice(4, None))
        yield f"{cls.__name__} slice of one", lambda cls=cls: sliced(cls, ROWS, slice(-1, None))
        yield f"{cls.__name__} cleared", lambda cls=cls: (lambda p: (p.clear(), [p]))(cls(ROWS))
        yield f"{cls.__name__} head(0)", lambda cls=cls: (lambda p: (p.head(0), [p]))(cls(ROWS))

def outcome(function, made, kwargs):
    data, family = made
    out = io.StringIO()
    try:
        with contextlib.redirect_stdout(out):
            value = function(data, **kwargs)
        result = ("ok", type(value).__name__, repr([list(x.items()) for x in value]),
                  [type(x).__name__ for x in value],
                  [[i for i, y in enumerate(data) if x is y] for x in value],
                  # Values given are coerced by attd, item by item.
                  [[k for k, v in x.items() if v is shared_list or v is shared_dict] for x in value],
                  value._group_keys, value._predecessor is data, value._obsolete, value._obsolete_warned,
                  value is data)
    except Exception as error:
        result = ("exc", type(error).__name__)
    return (result, out.getvalue(), repr([list(x.items()) for x in data]),
            [(x._obsolete, x._obsolete_warned, x._group_keys, len(x)) for x in family])

count = 0
names = [x[0] for x in inputs()]
for i, name in enumerate(names):
    for kwargs in KWARGS:
        a = list(inputs())[i][1]()
        b = list(inputs())[i][1]()
        for call in (1, 2):
            # The second call runs on the objects the first one left behind.
            new = outcome(type(a[0]).fill_missing_keys, a, kwargs)
            old = outcome(old_fill_missing_keys, b, kwargs)
            count += 1
            check(new == old, f"{name} {kwargs} call {call}:\n  {new}\n  {old}")
        # Through the instance as well: this is where the warning of
        # an obsolete object is printed.
        a = list(inputs())[i][1]()
        b = list(inputs())[i][1]()
        new = outcome(lambda data, **kw: data.fill_missing_keys(**kw), a, kwargs)
        old = outcome(lambda data, **kw: (data.keys, old_fill_missing_keys(data, **kw))[1], b, kwargs)
        count += 1
        check(new == old, f"{name} {kwargs} through the instance:\n  {new}\n  {old}")
print(count, "comparisons with the old fill_missing_keys")

# Expected values built by hand, not with the library.

for cls in (ListOfDicts, Sub):
    for kwargs in KWARGS:
        if "self" in kwargs: continue # TypeError of the call itself, old and new
        data = cls([]).group_by("g")
        value = data.fill_missing_keys(**kwargs)
        check(type(value) is cls and value == [] and len(value) == 0, f"hand: no items {kwargs}: empty list of the same class")
        check(value is not data and value._predecessor is data, f"hand: no items {kwargs}: a new object that knows its predecessor")
        check(value._group_keys == ("g",), f"hand: no items {kwargs}: group keys kept")
        check(data._obsolete is True and value._obsolete is False, f"hand: no items {kwargs}: the old list is marked obsolete, as for any list")
    parent = cls([{"a": 1}, {"b": 2}])
    value = parent[:0].fill_missing_keys()
    check(value == [] and parent._obsolete is True, "hand: empty slice: the parent is marked obsolete too")
    check(list(map(dict, parent)) == [{"a": 1}, {"b": 2}], "hand: empty slice: items of the parent untouched")
    data = cls([{"a": 1}, {"b": 2}, {}])
    value = data.fill_missing_keys()
    check(list(map(dict, value)) == [{"a": 1, "b": None}, {"b": 2, "a": None}, {"a": None, "b": None}], "hand: all keys")
    check([list(x) for x in value] == [["a", "b"], ["b", "a"], ["a", "b"]], "hand: all keys, order")
    check(all(x is y for x, y in zip(value, data)) and data._obsolete is True, "hand: all keys, the same dicts")
    data = cls([{"a": 1}, {"b": 2}, {}])
    value = data.fill_missing_keys(b=0, z="z")
    check(list(map(dict, value)) == [{"a": 1, "b": 0, "z": "z"}, {"b": 2, "z": "z"}, {"b": 0, "z": "z"}], "hand: given keys")
    data = cls([{}])
    check(list(map(dict, data.fill_missing_keys())) == [{}], "hand: one empty dict, all keys")
    check(list(map(dict, cls([{}]).fill_missing_keys(a=None))) == [{"a": None}], "hand: one empty dict, given key")

print("FAILURES:", len(FAILURES))
sys.exit(1 if FAILURES else 0)
