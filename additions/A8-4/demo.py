import os, sys; sys.path.insert(0, os.getcwd())
import statistics
import warnings
import numpy as np
import dataiter as di
from collections import Counter
from dataiter import Vector
from dataiter.aggregate import mode1, mode_apply

warnings.simplefilter("error")

def old_mode1(x):
    # The original implementation, verbatim.
    try:
        return statistics.mode(x)
    except statistics.StatisticsError:
        return Counter(x).most_common(1)[0][0]

def plain_mode_index(lst):
    # Independent: position of the first element of the most common value,
    # ties resolved by first occurrence. Plain Python floats and ints only.
    best, best_n = None, 0
    for i, a in enumerate(lst):
        if any(lst[j] == a for j in range(i)): continue
        n = sum(1 for b in lst if b == a)
        if n > best_n:
            best, best_n = i, n
    return best

def canon(r):
    return (type(r), repr(r), np.signbit(r) if isinstance(r, np.floating) else None)

def run(f, *args):
    try:
        return canon(f(*args))
    except Exception as e:
        return ("raised", type(e).__name__, str(e))

rng = np.random.default_rng(42)
nan, inf = float("nan"), float("inf")
vectors = []
for n in (1, 2, 3, 49, 50, 51, 200, 1000):
    for dt in (np.int8, np.int16, np.int32, np.int64, np.uint8, np.uint16, np.uint32, np.uint64):
        info = np.iinfo(dt)
        vectors.append(Vector.fast(rng.integers(0, 5, n), dt))                         # many ties
        vectors.append(Vector.fast(np.array([info.min, info.max, 0, 1], dt)[rng.integers(0, 4, n)], dt))     # extreme integers
        vectors.append(Vector.fast(np.arange(n) % 128, dt))                            # everything tied
        vectors.append(Vector.fast((np.arange(n) % 100)[::-1], dt))                    # tied, descending
    for dt in (np.float16, np.float32, np.float64, np.longdouble):
        vectors.append(Vector.fast(rng.choice([0.0, -0.0, 1.5, inf, -inf], n), dt))    # signed zeros, infinities
        vectors.append(Vector.fast(rng.choice([-0.0, 0.0], n), dt))
        vectors.append(Vector.fast(rng.choice([0.0, -0.0, 1.5, nan], n), dt))          # NaN: not vectorized
        vectors.append(Vector.fast(np.full(n, nan), dt))                               # all missing
        vectors.append(Vector.fast(rng.integers(0, 3, n) / 3, dt))
    vectors.append(Vector.fast(rng.integers(0, 2, n), bool))
    vectors.append(Vector.fast(rng.integers(0, 3, n), "timedelta64[s]"))               # kind "m", is_integer() true
    vectors.append(Vector.fast(rng.choice([0, 1, "NaT"], n), "timedelta64[s]"))
    vectors.append(Vector.fast(rng.integers(0, 3, n), "datetime64[D]"))
    vectors.append(Vector.fast(rng.choice(["a", "", "ö", "日本語"], n), str))
    vectors.append(Vector.fast(rng.choice([1, 2.5, "x", None], n), object))
    vectors.append(Vector.fast(rng.integers(0, 3, n), complex))
    vectors.append(Vector.fast(rng.integers(0, 3, n), ">i4"))                          # non-native byte order
    vectors.append(Vector.fast(rng.integers(0, 3, 2 * n), int)[::2])                   # strided view
    vectors.append(Vector.fast(rng.integers(0, 3, n), float)[::-1])

# -0.0 first, then 0.0 most common together with it: statistics.mode returns the first one, -0.0.
z = Vector.fast([-0.0] + [1.0] * 30 + [0.0] * 29, float)
assert len(z) >= 50 and np.signbit(old_mode1(z)) and np.signbit(mode1(z)) and mode1(z) == 0
vectors.append(z)
# A tie where the smallest value comes last and the largest first.
t = Vector.fast([9] * 25 + [5] * 25 + [1] * 25, int)
assert mode1(t) == 9 and old_mode1(t) == 9
vectors.append(t)

for v in vectors:
    keep = v.copy()
    new, old = run(mode1, v), run(old_mode1, v)
    assert new == old, (v.dtype, len(v), new, old)
    assert run(mode1, v) == new                     # repeated call
    assert v.equal(keep) or v.dtype.kind in "cO"    # argument not modified (e.g. not sorted in place)
    if v.dtype.kind in "iuf" and not (v.dtype.kind == "f" and np.isnan(v).any()):
        i = plain_mode_index(v.tolist())
        assert canon(mode1(v)) == canon(v[i]), (v.dtype, len(v), mode1(v), v[i])
    # The public functions, element-wise and group-wise (one group and several).
    for drop_na in (True, False):
        r = run(lambda: di.mode(v, drop_na=drop_na))
        w = v[~v.is_na()] if drop_na else v
        e = run(lambda: old_mode1(w) if len(w) >= 1 else w.na_value)
        assert r == e, (v.dtype, len(v), drop_na, r, e)
    if v.dtype.kind != "O":
        for group in (np.zeros(len(v), int), np.arange(len(v)) // 60):
            got = mode_apply(v, group, False)
            exp = [old_mode1(v[group == g]) for g in np.unique(group)]
            assert [canon(a) for a in got] == [canon(a) for a in exp], (v.dtype, len(v))

# Other inputs: unchanged, including the exceptions.
for other in ([], [1, 1, 2], (3, 3, 1), np.array([1, 2, 2] * 30), Vector.fast([], int), Vector.fast([], float),
              np.arange(200).reshape(100, 2).view(Vector), np.array(5).view(Vector), None, 5, "aab",
              np.ma.masked_array([1, 2, 2] * 30, [0, 1, 1] * 30)):
    assert run(mode1, other) == run(old_mode1, other), (other, run(mode1, other), run(old_mode1, other))

# Data frame aggregation (with or without Numba) still agrees with plain Python.
g = rng.integers(0, 3, 500)
for dt in (np.int32, np.int64, np.float32, np.float64):
    x = rng.integers(0, 4, 500).astype(dt)
    data = di.DataFrame(g=g, x=x)
    out = data.group_by("g").aggregate(m=di.mode("x"))
    for gi, m in zip(out.g, out.m):
        lst = x[g == gi].tolist()
        assert m == lst[plain_mode_index(lst)]
    assert out.m.dtype == dt, (out.m.dtype, dt)
print("OK")
