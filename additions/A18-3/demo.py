import os, sys; sys.path.insert(0, os.getcwd())
import datetime
import gzip
import shutil
import tempfile

from dataiter import ListOfDicts

HERE = os.path.dirname(os.path.abspath(__file__))
tmpdir = tempfile.mkdtemp(dir=HERE)

# Independent plain-Python CSV formatting: "unix" dialect (line terminator
# "\n", quote character '"' doubled inside fields) with minimal quoting,
# superset of all keys in order of first appearance, None written as empty.
def expected_csv(items, header=True, sep=","):
    keys = []
    for item in items:
        for key in item:
            if key not in keys:
                keys.append(key)
    def field(value):
        text = "" if value is None else str(value)
        if any(c in text for c in (sep, '"', "\n", "\r")):
            text = '"' + text.replace('"', '""') + '"'
        return text
    def line(values):
        fields = [field(x) for x in values]
        if fields == [""]:
            # A lone empty field is always quoted.
            fields = ['""']
        return sep.join(fields) + "\n"
    lines = [line(keys)] if header else []
    lines += [line([item.get(x) for x in keys]) for item in items]
    return "".join(lines)

class Bomb:
    def __str__(self):
        raise RuntimeError("boom")

CASES = {
    "ordinary": [{"a": 1, "b": "x"}, {"a": 2, "b": "y"}],
    "ragged": [{"b": 1}, {"a": "x", "b": 2}, {"c": 1.5, "a": "y"}, {}, {"d": True, "b": None}],
    "missing": [{"a": None, "b": None}, {"a": None}, {"b": ""}],
    "single-column": [{"a": None}, {"a": ""}, {}, {"a": 0}, {"a": False}],
    "quoting": [{"a": 'say "hi"', "b": "x,y", "c": "line\nbreak", "d": "semi;colon", "e": " pad "}],
    "non-ascii": [{"nimi": "Töölö", "名前": "東京"}, {"名前": "大阪"}],
    "numbers": [{"i": 2**64, "f": float("nan")}, {"i": -2**63, "f": float("inf")},
                {"i": 0, "f": -0.0}, {"i": 18446744073709551615, "f": 1e-320}],
    "dates": [{"d": datetime.date(2020, 1, 1), "t": datetime.datetime(2020, 1, 1, 12, 30)}],
    "one": [{"a": 1}],
}

def read(path):
    opener = gzip.open if path.endswith(".gz") else open
    with opener(path, "rt", encoding="utf-8", newline="") as f:
        return f.read()

n = 0
for label, dicts in CASES.items():
    for kwargs in [{}, {"header": False}, {"sep": ";"}, {"header": False, "sep": "\t"},
                   {"header": True, "sep": ","}, {"header": 0}, {"header": None}]:
        for ext in [".csv", ".csv.gz"]:
            n += 1
            path = os.path.join(tmpdir, f"sub{n}", f"{label}{ext}")
            data = ListOfDicts(dicts)
            before = [dict(x) for x in data]
            value = data.write_csv(path, **kwargs)
            assert value is None
            want = expected_csv(dicts, header=kwargs.get("header", True), sep=kwargs.get("sep", ","))
            got = read(path)
            assert got == want, (label, kwargs, got, want)
            # Items are not modified (missing keys are NOT filled in),
            # nothing is marked obsolete.
            assert [dict(x) for x in data] == before
            assert [list(x) for x in data] == [list(x) for x in before]
            assert not data._obsolete
            # Writing again over the same file gives the same.
            data.write_csv(path, **kwargs)
            assert read(path) == want

# Other encoding.
path = os.path.join(tmpdir, "latin.csv")
ListOfDicts([{"å": "ö"}]).write_csv(path, encoding="latin-1")
assert open(path, "rb").read() == "å\nö\n".encode("latin-1")

# Empty list: ValueError and no file (nor its directory) created.
path = os.path.join(tmpdir, "nodir", "empty.csv")
try:
    ListOfDicts([]).write_csv(path)
    raise SystemExit("expected ValueError")
except ValueError as error:
    assert str(error) == "Cannot write empty CSV file"
assert not os.path.exists(os.path.dirname(path))

# Failure half way: the rows before the bad one have been written.
path = os.path.join(tmpdir, "bomb.csv")
data = ListOfDicts([{"a": 1, "b": 2}, {"a": 3}, {"a": Bomb()}, {"a": 4}])
try:
    data.write_csv(path)
    raise SystemExit("expected RuntimeError")
except RuntimeError as error:
    assert str(error) == "boom"
assert read(path) == "a,b\n1,2\n3,\n", repr(read(path))

# Bad separator: TypeError from csv after the file has been created.
path = os.path.join(tmpdir, "badsep.csv")
try:
    ListOfDicts([{"a": 1}]).write_csv(path, sep=",,")
    raise SystemExit("expected TypeError")
except TypeError:
    pass
assert read(path) == ""

shutil.rmtree(tmpdir)
print("OK")
