import os, sys; sys.path.insert(0, os.getcwd())
import warnings
import numpy as np
from dataiter import Vector, dtypes
from numpy.dtypes import StringDType

warnings.simplefilter("error")   # the shortcut must not hide (or add) warnings

def old_equal(self, other):
    # The original implementation, verbatim.
    if not (isinstance(other, Vector) and
            self.length == other.length and
            str(self.na_value) == str(other.na_value)):
        return False
    ii = self.is_na()
    jj = other.is_na()
    return (np.all(ii == jj) and
            np.all(self[~ii] == other[~jj]))

def run(f, *args):
    try:
        r = f(*args)
        return (type(r), bool(r))
    except Exception as e:
        return (type(e).__name__, str(e))

class Weird:
    def __eq__(self, other): return False
    __hash__ = object.__hash__

nan = float("nan")
cases = [
    Vector([1, 2, 3]),
    Vector.fast([0, 2**64 - 1], np.uint64),
    Vector.fast([-2**63, 2**63 - 1], np.int64),
    Vector.fast([-128, 127], np.int8),
    Vector([True, False]),
    Vector([1.5, None, np.inf, -np.inf, -0.0, 0.0]),
    Vector.fast([nan, nan], float),                 # all missing
    Vector.fast([1, nan], np.float16),
    Vector.fast([1, nan], np.float32),
    Vector.fast([1, nan], np.longdouble),
    Vector.fast(["2020-01-01", "NaT"], "datetime64[D]"),
    Vector.fast(["2020-01-01T00:00:00.000000001", "NaT"], "datetime64[ns]"),
    Vector.fast([1, "NaT"], "timedelta64[s]"),
    Vector.fast(["NaT", "NaT"], "timedelta64[s]"),
    Vector(["a", "", "ö", "日本語", None]),
    Vector(["", ""]),
    Vector.fast(["a", ""], StringDType()),          # other string dtypes: no shortcut needed
    Vector.fast(["a", "b"], StringDType(na_object=np.nan)),
    Vector.fast(["a", ""], "U1"),
    Vector.fast([b"a", b""], bytes),
    Vector.fast([1 + 2j, complex("nan")], complex), # NaN != NaN and not "missing": False
    Vector.fast([1 + 2j], complex),
    Vector.fast([1.5, nan], object),                # NaN inside object: False
    Vector.fast([1.5, None], object),
    Vector.fast([Weird(), None], object),           # x != x: False
    Vector([True, None]),
    Vector.fast([(1, 2)], [("a", int), ("b", float)]),
    Vector.fast([], int), Vector.fast([], float), Vector.fast([], str),
    Vector.fast([], object), Vector.fast([], "datetime64[us]"),
    Vector(np.arange(10))[::2],
]
for v in cases:
    new, old = run(v.equal, v), run(old_equal, v, v)
    assert new == old, (v.dtype, new, old)
    if new[0] is np.bool_ and new[1]:
        assert v.equal(v) is np.True_ and old_equal(v, v) is np.True_
    # A view or a copy is not "self": regular path, same answer as before.
    for other in (v.view(Vector), v.copy(), v[:], v[::-1], v[:-1]):
        assert run(v.equal, other) == run(old_equal, v, other), v.dtype
    # Not vectors at all.
    for other in (np.asarray(v), v.tolist() if v.dtype.kind != "V" else None, None, 1):
        assert v.equal(other) is False

# Independent expectations.
assert Vector([1, 2, 3]).equal(Vector([1, 2, 3]))
v = Vector([1.5, None]); assert v.equal(v) is np.True_
o = Vector.fast([1.5, nan], object); assert not o.equal(o)
c = Vector.fast([complex("nan")], complex); assert not c.equal(c)
w = Vector.fast([Weird()], object); assert not w.equal(w)

# Object elements that are arrays: same exception as before.
a = Vector.fast([None, None], object); a[0] = np.arange(3); a[1] = np.arange(3)
assert run(a.equal, a) == run(old_equal, a, a)

# Wrong dimensions: the length check still raises first.
bad = np.arange(6).reshape(2, 3).view(Vector)
assert run(bad.equal, bad) == run(old_equal, bad, bad)
assert run(bad.equal, bad)[0] == "ValueError"

# Repeated calls and later mutation.
v = Vector([1.0, 2.0, 3.0])
assert v.equal(v) is np.True_
v[1] = np.nan
assert v.equal(v) is np.True_ and not v.equal(Vector([1.0, 2.0, 3.0]))
print("OK")
