import os, sys; sys.path.insert(0, os.getcwd())

# Change 6: util.ulen returns len() directly for printable-ASCII strings.
# Compare with (a) a verbatim copy of the old implementation (wcwidth only)
# and (b) for ASCII, a count made with plain Python.

import itertools
import numpy as np
import wcwidth
import dataiter as di

from dataiter import util
from dataiter import DataFrame, Vector

def old_ulen(string):
    length = wcwidth.wcswidth(string)
    return length if length >= 0 else 0

def outcome(function):
    try:
        value = function()
        return "ok", type(value), value
    except Exception as error:
        return "error", type(error), str(error)

n = 0
def check(string):
    global n
    new = outcome(lambda: util.ulen(string))
    old = outcome(lambda: old_ulen(string))
    assert new == old, (string, new, old)
    n += 1
    return new

# Every single code point of the Basic Multilingual Plane and a good part of
# the rest, alone and surrounded by printable ASCII.
for i in itertools.chain(range(0x3000), range(0x3000, 0x110000, 7), range(0xd7f0, 0xe010),
                         range(0xfe00, 0x10000), range(0x1f000, 0x1fb00), range(0xe0000, 0xe0200)):
    c = chr(i)
    check(c)
    check("ab" + c)
    check(c + "ab")
    check("a" + c + "b")

# All strings of up to three characters over an alphabet that has ordinary
# ASCII, the ASCII controls, DEL, the first non-ASCII characters, the zero
# width joiner and the variation selector that wcwidth treats specially.
alphabet = ["a", " ", "~", "\x00", "\t", "\n", "\x1f", "\x7f", "\x80", "\xa0", "é", "‍", "️", "日", "❤"]
for r in range(4):
    for chars in itertools.product(alphabet, repeat=r):
        check("".join(chars))

# Printable ASCII: the display width is the number of characters, as counted
# here with plain Python.
for string in ["", " ", "a", "hello world", "~!@#$%^&*()_+{}|:\"<>?", "x" * 10000,
               "".join(chr(i) for i in range(32, 127)), "1,234.5", "-inf", "nan", "NaT",
               "18446744073709551615", "-9223372036854775808", "2020-01-01T00:00:00.000000"]:
    result = check(string)
    count = 0
    for char in string:
        assert 32 <= ord(char) <= 126
        count += 1
    assert result == ("ok", int, count), (string, result)

# str subclasses, NumPy strings, strings with surrogates.
class Text(str): pass
class Shouting(str):
    def __len__(self): return 1000
class Short(str):
    def __len__(self): return 1
class Lying(str):
    def isascii(self): return True
    def isprintable(self): return True
class Shifted(str):
    def __getitem__(self, i): return "日"
for string in [Text("abc"), Text("åäö"), Text("a\tb"), np.str_("abc"), np.str_("日本語"), np.str_(""),
               Shouting("abc"), Shouting("日本"), Short("abc"), Short("日本"), Short(""), Lying("日本"), Lying("a\tb"),
               Shifted("abc"), "\ud800", "a\udfff", "ab\udc80"]:
    check(string)
for vector in [Vector.fast(["abc", "", "åäö", "a\nb"], str), Vector.fast(["abc", "", "åäö"], "U3")]:
    for string in vector:
        check(string)

# Not strings: the same exception as before, or the same answer.
class Odd:
    def __len__(self): return 1
    def __getitem__(self, i): raise RuntimeError("odd")
for value in [None, 1, 1.5, np.nan, True, b"abc", b"", bytearray(b"ab"), [], ["a"], ["ab", "c"], ["日", "a"],
              (), ("a", "b"), {}, {"a": 1}, {0: "a"}, set(), Odd(), np.array(["a", "b"]), np.array([]),
              np.bytes_(b"ab"), np.float64(1), range(3), object(), [None], ["\t"], [""], ["", "a"]]:
    check(value)

# Repeated calls (wcwidth caches per character) still agree.
for string in ["abc", "日本語", "a\tb", "abc", "日本語", "a\tb"]:
    check(string)

# The callers: upad, utruncate, printing.
assert util.upad(["a", "日本", "åäö", "a\tb"]) == ["   a", "日本", " åäö", "    a\tb"]
assert util.utruncate("hello world", 5) == "hello"
assert util.utruncate("日本語", 3) == "日"
data = DataFrame(x=[1.5, np.nan], s=["åäö", "plain"], t=["日本語", "tab\there"])
lines = data.to_string().splitlines()
assert lines[1].split() == ["x", "s", "t"]
assert str(Vector.fast(["a", "bcd"], str)) == '[ "a" "bcd" ] string'

print(f"ulen: {n} cases agree")
