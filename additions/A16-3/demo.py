import os, sys; sys.path.insert(0, os.getcwd())

# Change 3: DataFrame.slice_off picks the columns to keep with one boolean
# mask, np.isin(np.arange(ncol), cols, invert=True), instead of testing
# "i in cols" (a full scan of the cols vector) once per column.

import itertools
import math
import numpy as np
import dataiter as di

from dataiter import DataFrame, Vector

FAILURES = []

def check(cond, label):
    if not cond:
        FAILURES.append(label)
        print("FAIL:", label)

def canon(column):
    return (type(column).__name__, str(column.dtype), column.shape,
            [(type(x).__name__, repr(x)) for x in column])

def same_frame(a, b):
    return (type(a) is type(b) and
            list(a.keys()) == list(b.keys()) and
            all(canon(a[k]) == canon(b[k]) for k in a))

def old_slice_off(self, rows=None, cols=None):
    # The implementation before the change, verbatim
    # (generator body wrapped the way deco.new_from_generator does).
    def generate():
        nonlocal rows, cols
        rows = [] if rows is None else rows
        cols = [] if cols is None else cols
        rows = self._parse_rows_from_integer(rows)
        cols = self._parse_cols_from_integer(cols)
        for i, colname in enumerate(self.colnames):
            if i in cols: continue
            yield colname, np.delete(self[colname], rows)
    return self._new(generate())

def outcome(function, *args, **kwargs):
    try:
        return ("ok", function(*args, **kwargs))
    except Exception as error:
        return (type(error).__name__, str(error))

def same_outcome(a, b):
    if a[0] != b[0]: return False
    if a[0] == "ok": return same_frame(a[1], b[1])
    return a[1] == b[1]

def obj(*values):
    out = np.empty(len(values), object)
    for i, value in enumerate(values):
        out[i] = value
    return out

nan = float("nan")
frames = {}
frames["mixed"] = DataFrame(
    f=[1.5, nan, -0.0, math.inf, -math.inf],
    i=np.array([0, -1, 2**63 - 1, -2**63, 5], np.int64),
    u=np.array([0, 1, 2**64 - 1, 3, 4], np.uint64),
    b=[True, False, True, False, True],
    s=["a", "", "ä€😀", "", "b"],
    o=obj(None, 1, "x", nan, (1, 2)),
    d=np.array(["2020-01-01", "NaT", "1970-01-01", "NaT", "2021-01-01"], "datetime64[D]"),
    t=np.array([1, "NaT", 0, -5, "NaT"], "timedelta64[s]"),
)
frames["one_column"] = DataFrame(x=[3, 1, 2])
frames["zero_rows"] = DataFrame(x=np.array([], float), y=np.array([], object), z=Vector([], str))
frames["no_columns"] = DataFrame()
frames["subclass"] = type("Sub", (DataFrame,), {})(x=[1.0, nan], y=["", "b"], z=[1, 2])

big = 2**63 - 1
def col_selections(ncol):
    yield None
    yield []
    yield ()
    yield np.array([], int)
    yield np.array([], float)
    yield 0                                  # scalar
    yield np.int64(ncol - 1)
    for i in range(-ncol - 1, ncol + 2):     # negative and out-of-range indices
        yield [i]
    yield list(range(ncol))                  # everything
    yield list(range(ncol)) * 2              # duplicates
    yield [0, 0, 0]
    yield list(reversed(range(ncol)))
    yield [0, ncol + 5]
    yield [-1, 0]                            # negatives never match a position
    yield [big, 0]
    yield [-big - 1, 1]
    yield [big, -big - 1]                    # extreme range
    yield np.array([0, 1], np.uint8)
    yield np.array([1], np.uint64)
    yield [True, False]                      # converted to 1, 0
    yield [0.0, 1.9]                         # truncated to 0, 1
    yield Vector([1, 0])
    yield range(0, ncol, 2)
    yield (x for x in [1])                   # generator
    yield [[0, 1]]                           # two-dimensional
    yield [[0], [2]]
    yield "a"                                # junk
    yield [None]
    yield [nan]

def row_selections(nrow):
    yield None
    yield []
    yield [0]
    yield [nrow - 1]
    yield [-1]
    yield [0, 0]
    yield list(range(nrow))
    yield [nrow]                             # out of bounds
    yield np.array([], int)

import warnings
warnings.simplefilter("ignore")

count = 0
kinds = {}
for name, data in frames.items():
    ncols = len(list(col_selections(data.ncol)))
    nrows = len(list(row_selections(data.nrow)))
    for ci in range(ncols):
        for ri in range(nrows):
            # Build every argument afresh for each call:
            # generators can be consumed only once.
            pick = lambda gen, i: next(itertools.islice(gen, i, None))
            cols_new = pick(col_selections(data.ncol), ci)
            cols_old = pick(col_selections(data.ncol), ci)
            rows_new = pick(row_selections(data.nrow), ri)
            rows_old = pick(row_selections(data.nrow), ri)
            before = data.deepcopy()
            label = f"{name} rows={rows_new!r} cols={cols_new!r}"
            a = outcome(data.slice_off, rows_new, cols_new)
            b = outcome(old_slice_off, data, rows_old, cols_old)
            check(same_outcome(a, b), f"{label}: {a} vs {b}")
            check(same_frame(data, before), f"{label}: input mutated")
            kinds[a[0]] = kinds.get(a[0], 0) + 1
            count += 1
            if a[0] == "ok":
                for c in a[1]:
                    check(not np.shares_memory(a[1][c], data[c]), f"{label}: aliasing of {c}")
                    check(isinstance(a[1][c], di.DataFrameColumn), f"{label}: column type")
print(kinds)

# Independent plain-Python expectation for ordinary calls.
data = frames["mixed"]
names = data.colnames
for cols in [[], [0], [1, 3], [7, 0], [0, 0, 2], list(range(8)), [-1], [8, 100], [-8]]:
    for rows in [[], [0], [4, 1], [-1]]:
        got = data.slice_off(rows=rows, cols=cols)
        want_names = [x for i, x in enumerate(names) if i not in set(cols)]
        drop_rows = {r % data.nrow for r in rows}
        want_rows = [i for i in range(data.nrow) if i not in drop_rows]
        check(got.colnames == want_names, f"expected names {cols}")
        for c in want_names:
            want = [repr(data[c][i]) for i in want_rows]
            check([repr(x) for x in got[c]] == want, f"expected values {c} {rows} {cols}")
            check(got[c].dtype == data[c].dtype, f"expected dtype {c}")

# Keyword and positional forms, later mutation of the arguments and the result.
cols = [0, 2]
rows = np.array([1])
new = data.slice_off(rows, cols)
check(same_frame(new, data.slice_off(rows=rows, cols=cols)), "keyword form")
cols.append(1); rows[0] = 0
check(new.colnames == [x for i, x in enumerate(names) if i not in (0, 2)], "argument mutation leaked")
before = data.deepcopy()
new.i[0] = 42
check(same_frame(data, before), "result mutation leaked")

# A frame corrupted through the plain dict API behaves the same way.
bad = DataFrame(x=[1.0, nan, 3.0])
bad.setdefault("y", di.DataFrameColumn([1.0, nan]))
for kwargs in [dict(), dict(cols=[0]), dict(cols=[1]), dict(rows=[0]), dict(rows=[2])]:
    a = outcome(bad.slice_off, **kwargs)
    b = outcome(old_slice_off, bad, **kwargs)
    check(same_outcome(a, b), f"corrupted frame {kwargs}: {a} vs {b}")

print(count, "combinations")
print("FAILED" if FAILURES else "OK", len(FAILURES))
sys.exit(1 if FAILURES else 0)
