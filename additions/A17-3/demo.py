import os, sys; sys.path.insert(0, os.getcwd())

# Change 3: in dt.replace the two key lists plus the nested loop that refreshed
# a shared keyword dict are replaced by two dicts (scalar and vector components)
# merged per element: replace(**scalars, **{k: v[i] ...}).
# The demo compares with a verbatim copy of the old function and with values
# built with datetime.replace in plain Python.

import datetime
import itertools
import numpy as np
import dataiter as di
from dataiter import dt, util, Vector, DataFrameColumn
from dataiter.dt import _pull_datetime

failures = []
def check(ok, what):
    if not ok:
        failures.append(what)
        print("MISMATCH:", what)

def old_replace(x, year=None, month=None, day=None, hour=None, minute=None, second=None, microsecond=None):
    kwargs = {k: v for k, v in locals().items() if k != "x" and v is not None}
    if all(map(util.is_scalar, kwargs.values())):
        return _pull_datetime(x, lambda y: y.replace(**kwargs))
    for value in kwargs.values():
        assert util.is_scalar(value) or len(value) == len(x)
    scalar_keys = [x for x in kwargs if util.is_scalar(kwargs[x])]
    vector_keys = [x for x in kwargs if x not in scalar_keys]
    # Like _pull_datetime, but no vectorized function.
    assert isinstance(x, np.ndarray)
    assert np.issubdtype(x.dtype, np.datetime64)
    out = np.full_like(x, np.nan)
    out = Vector.fast(out, np.datetime64)
    na = np.isnat(x)
    xobj = x.astype(object)
    kwargs_scalar = {x: kwargs[x] for x in scalar_keys}
    for i in np.flatnonzero(~na):
        for key in vector_keys:
            kwargs_scalar[key] = kwargs[key][i]
        out[i] = xobj[i].replace(**kwargs_scalar)
    return out

def outcome(f, x, kwargs):
    try:
        r = f(x, **kwargs)
    except BaseException as e:
        return ("error", type(e).__name__, str(e))
    if isinstance(r, np.ndarray):
        return ("ok", type(r).__name__, str(r.dtype), r.shape, r.astype(str).tolist(), r.flags.owndata, r.flags.writeable)
    return ("ok", type(r).__name__, str(r))

def expected(x, kwargs):
    # Plain Python: datetime.replace element by element.
    out = []
    for i, value in enumerate(x.astype(object).tolist() if isinstance(x, np.ndarray) else [x]):
        if value is None:
            out.append("NaT")
            continue
        kw = {k: (v if util.is_scalar(v) else list(v)[i]) for k, v in kwargs.items() if v is not None}
        kw = {k: (v.item() if isinstance(v, np.generic) else v) for k, v in kw.items()}
        out.append(value.replace(**kw))
    return out

dates = dt.new(["2022-10-15", "NaT", "2020-02-29", "1969-12-31", "0001-01-01", "9999-12-31"])
times = Vector(["2022-10-15T12:34:56.789012", None, "2020-02-29T23:59:59.999999",
                "1969-12-31T00:00:00", "NaT", "2000-01-01T00:00:00"]).as_datetime()
n = len(dates)
xs = {
    "dates": dates,
    "datetimes us": times,
    "datetimes s": times.as_datetime("s"),
    "datetimes ms": times.as_datetime("ms"),
    "datetimes ns": times.as_datetime("ns"), # astype(object) gives integers: error in both
    "all NaT": dt.new(["NaT"] * n),
    "all NaT us": Vector([None] * n).as_datetime(),
    "column": DataFrameColumn.fast(dates),
    "ndarray": np.asarray(times),
    "strided": Vector.fast(np.repeat(np.asarray(times), 2))[::2],
}
vec = {
    "year": [[2001, 2002, 2003, 2004, 2005, 2006], Vector([1, 9999, 2000, 1970, 1969, 2024]), np.array([2001] * n, np.uint16)],
    "month": [[1, 2, 3, 4, 5, 6], Vector([12] * n), [0, 1, 2, 3, 4, 5], (1, 1, 1, 1, 1, 1)],
    "day": [[1] * n, Vector([28, 1, 1, 28, 28, 28]), [31] * n, np.array([1.0] * n)],
    "hour": [[0] * n, Vector([0, 1, 2, 3, 23, 24])],
    "minute": [[0, 0, 0, 0, 0, 59]],
    "second": [Vector([0, 59, 0, 59, 0, 59])],
    "microsecond": [[0, 1, 999999, 0, 0, 0], np.array([0] * n, np.int8)],
}
sca = {"year": [2000, 0, 1, np.int64(1999)], "month": [1, 12, 13, 0], "day": [1, 28, 30, 0], "hour": [0, 23],
       "minute": [0, 59, False], "second": [0, 60], "microsecond": [0, 999999, ""]}

cases = []
keys = list(vec)
for r in (1, 2, 3):
    for combo in itertools.combinations(keys, r):
        # each key either a vector or a scalar, at least one vector
        for kinds in itertools.product("vs", repeat=r):
            if "v" not in kinds: continue
            for pick in range(2):
                kw = {}
                for k, kind in zip(combo, kinds):
                    pool = vec[k] if kind == "v" else sca[k]
                    kw[k] = pool[pick % len(pool)]
                cases.append(kw)
                # and with the keywords given in reverse order
                cases.append(dict(reversed(list(kw.items()))))
# All seven at once, scalars only, nothing at all, wrong lengths, odd things.
cases.append({k: v[0] for k, v in vec.items()})
cases.append({k: v[0] for k, v in sca.items()})
cases.append({})
cases.append({"year": None, "day": [1] * n})
cases.append({"day": [1, 2]})
cases.append({"day": []})
cases.append({"day": [1] * n, "hour": [1]})
cases.append({"day": [None] * n})
cases.append({"day": ["1"] * n})
cases.append({"day": [1] * n, "month": "1"})
cases.append({"hour": [1] * n, "minute": 3})   # dates: invalid keyword, scalar one reported first
cases.append({"minute": 3, "hour": [1] * n})
cases.append({"hour": [1] * n, "minute": [3] * n})
cases.append({"minute": [3] * n, "hour": [1] * n})
cases.append({"day": np.array([[1] * n])})
cases.append({"day": iter([1] * n)})
cases.append({"day": range(1, n + 1)})
cases.append({"day": {i: 1 for i in range(n)}})

count = 0
for xname, x in xs.items():
    for kw in cases:
        if any(hasattr(v, "__next__") for v in kw.values()):
            kw_old = {k: iter([1] * n) if hasattr(v, "__next__") else v for k, v in kw.items()}
            kw_new = {k: iter([1] * n) if hasattr(v, "__next__") else v for k, v in kw.items()}
        else:
            kw_old = kw_new = kw
        snapshot = {k: (np.array(v, copy=True) if isinstance(v, np.ndarray) else v) for k, v in kw.items()}
        x_before = x.copy()
        old = outcome(old_replace, x, kw_old)
        new = outcome(dt.replace, x, kw_new)
        check(old == new, f"{xname} {kw}: {old} != {new}")
        count += 1
        # Arguments untouched.
        check(np.array_equal(x, x_before, equal_nan=True), f"{xname} {kw}: x modified")
        for k, v in kw.items():
            if isinstance(v, np.ndarray):
                check(np.array_equal(v, snapshot[k]), f"{xname} {kw}: {k} modified")
        if new[0] == "ok" and isinstance(x, np.ndarray) and "ns" not in xname:
            try:
                exp = expected(x, kw)
            except Exception:
                continue
            got = dt.replace(x, **kw)
            exp = [np.datetime64(v).astype(got.dtype) for v in exp]
            check(all((a == b) or (np.isnat(a) and np.isnat(b)) for a, b in zip(got, exp)),
                  f"{xname} {kw}: differs from datetime.replace")
            check(len(got) == len(exp), f"{xname} {kw}: length")
            check(not np.shares_memory(got, x), f"{xname} {kw}: aliasing")

# Empty vectors and vector components.
for x in (dt.new([]), Vector([], "datetime64[us]")):
    for kw in ({"day": []}, {"day": [], "month": 1}, {"day": Vector([], int)}, {"day": 1}):
        check(outcome(old_replace, x, kw) == outcome(dt.replace, x, kw), f"empty {kw}")
        check(dt.replace(x, **kw).dtype == x.dtype and len(dt.replace(x, **kw)) == 0, f"empty {kw} dtype")

# Scalars.
for x in (np.datetime64("2022-10-15"), np.datetime64("2022-10-15T12:00:00"), np.datetime64("NaT"),
          datetime.date(2022, 10, 15), datetime.datetime(2022, 10, 15, 1, 2, 3)):
    for kw in ({"day": 1}, {"day": [1]}, {"hour": 0}, {}):
        check(outcome(old_replace, x, kw) == outcome(dt.replace, x, kw), f"scalar {x!r} {kw}")

# Repeated calls give the same thing; results are independent.
a = dt.replace(dates, day=[1, 2, 3, 4, 5, 6], month=1)
b = dt.replace(dates, day=[1, 2, 3, 4, 5, 6], month=1)
check(a.equal(b) and not np.shares_memory(a, b), "repeated calls")
check(a.astype(str).tolist() == ["2022-01-01", "NaT", "2020-01-03", "1969-01-04", "0001-01-05", "9999-01-06"], "plain values")
# The proxy passes everything on.
check(dates.dt.replace(day=[1, 2, 3, 4, 5, 6], month=1).equal(a), "proxy")

print("cases:", count, "failures:", len(failures))
sys.exit(1 if failures else 0)
