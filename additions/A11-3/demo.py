import os, sys; sys.path.insert(0, os.getcwd())

# Change 3: aggregate.yield_groups states the zero-row case.
# Expected groups are built with itertools.groupby on plain lists.

import itertools
import math
import numpy as np
import dataiter as di

from dataiter import Vector
from dataiter import aggregate

NaN = float("nan")
problems = []

def is_missing(value):
    return (value is None or value == "" or
            (isinstance(value, float) and math.isnan(value)))

def expected_groups(x, group, drop_na):
    out = []
    for key, items in itertools.groupby(zip(group, x), key=lambda gx: gx[0]):
        items = [v for g, v in items]
        if drop_na:
            items = [v for v in items if not is_missing(v)]
        out.append(items)
    return out

def as_lists(groups):
    return [xg.tolist() for xg in groups]

def equal_lists(a, b):
    return repr(a) == repr(b)  # repr so that nan == nan

CASES = [
    ([], [], None), ([], [], int), ([], [], str), ([], [], object),
    ([1], [5], int), ([1], [NaN], float), ([1], [""], str),
    ([1, 1], [NaN, NaN], float),
    ([1, 1, 2, 2, 2, 3], [1.0, NaN, NaN, NaN, 2.0, 3.0], float),
    ([1, 2, 3], [1, 2, 3], int),
    ([1, 1, 1], ["a", "", "b"], str),
    ([2, 2, 1, 1], [None, "a", "b", None], object),
    ([1, 2, 1], [1, 2, 3], int),  # not contiguous: three runs
]

for g, x, dtype in CASES:
    for drop_na in [False, True]:
        vx = Vector(x, dtype)
        vg = Vector(g, int)
        generator = aggregate.yield_groups(vx, vg, drop_na)
        if not hasattr(generator, "__next__"):
            problems.append("yield_groups is not a generator")
        got = list(generator)
        expected = expected_groups(x, g, drop_na)
        if not (len(got) == len(expected) and
                all(type(xg) is Vector and xg.dtype == vx.dtype for xg in got) and
                equal_lists(as_lists(got), [Vector(e, vx.dtype).tolist() for e in expected])):
            problems.append(f"yield_groups({x!r}, {g!r}, {drop_na}): {got!r} vs {expected!r}")
        if list(generator) != []:
            problems.append("exhausted generator yields again")

# Zero rows: group is never looked at, whatever it is (as before).
for group in [None, [], Vector([], int), Vector([1, 2, 3]), "abc", 5]:
    for drop_na in [False, True]:
        for x in [Vector([]), Vector([], str), Vector([], object), [], (), np.array([])]:
            got = list(aggregate.yield_groups(x, group, drop_na))
            if got != []:
                problems.append(f"zero rows, group {group!r}: {got!r}")

# Something without a length: TypeError at the first next(), not at the call.
generator = aggregate.yield_groups(5, [1], False)
try:
    next(generator)
except TypeError:
    pass
else:
    problems.append("len(5) did not raise TypeError")

# One row: one group of one element; drop_na can make it an empty group.
got = list(aggregate.yield_groups(Vector([NaN], float), Vector([1]), True))
if not (len(got) == 1 and got[0].length == 0 and got[0].dtype == np.dtype(float)):
    problems.append(f"one all-missing row: {got!r}")

# The pure-Python group-wise functions on zero rows: an empty list.
ex, eg = Vector([], str), Vector([], int)
for label, got in [
    ("count_unique_apply", aggregate.count_unique_apply(ex, eg, False)),
    ("count_unique_apply", aggregate.count_unique_apply(ex, eg, True)),
    ("mode_apply", aggregate.mode_apply(ex, eg, True)),
    ("nth_apply", aggregate.nth_apply(ex, eg, 0, False)),
    ("nth_apply", aggregate.nth_apply(ex, eg, -1, True)),
    ("quantile_apply", aggregate.quantile_apply(Vector([], float), eg, 0.5, True)),
    ("generic(len)", aggregate.generic(len)(ex, eg, False, 0, 0)),
    ("generic(np.std, ddof=1)", aggregate.generic(np.std, ddof=1)(Vector([], float), eg, True, NaN, 2)),
]:
    if got != []:
        problems.append(f"{label} on zero rows: {got!r}")

# Whole frames: string and object columns take the pure-Python path.
def run(data, by):
    grouped = data.group_by(*by) if by else data.group_by()
    return grouped.aggregate(
        n=di.count(),
        nx=di.count("x", drop_na=True),
        nu=di.count_unique("x", drop_na=True),
        first=di.first("x"),
        last=di.last("x", drop_na=True),
        third=di.nth("x", 2),
        mode=di.mode("x"),
        min=di.min("x"),
        max=di.max("x"))

for g, x in [([], []), ([1], [""]), ([1], ["a"]), ([1, 1, 2, 2, 2, 3], ["b", "", "", "", "a", "a"])]:
    data = di.DataFrame(g=Vector(g, int), x=Vector(x, str))
    stat = run(data, ["g"])
    keys = sorted(set(g))
    groups = {k: [v for gg, v in zip(g, x) if gg == k] for k in keys}
    present = {k: [v for v in groups[k] if v != ""] for k in keys}
    expected = {
        "g": keys,
        "n": [len(groups[k]) for k in keys],
        "nx": [len(present[k]) for k in keys],
        "nu": [len(set(present[k])) for k in keys],
        "first": [groups[k][0] for k in keys],
        "last": [present[k][-1] if present[k] else "" for k in keys],
        "third": [groups[k][2] if len(groups[k]) > 2 else "" for k in keys],
        "mode": [max(present[k], key=present[k].count) if present[k] else "" for k in keys],
        "min": [min(present[k]) if present[k] else "" for k in keys],
        "max": [max(present[k]) if present[k] else "" for k in keys],
    }
    if stat.nrow != len(keys) or list(stat.colnames) != list(expected):
        problems.append(f"frame {x!r}: shape {stat.nrow} x {stat.colnames}")
        continue
    for name in expected:
        got = [v if v is not None else "" for v in stat[name].tolist()]
        if got != expected[name]:
            problems.append(f"frame {x!r}, column {name}: {got!r} vs {expected[name]!r}")

for problem in problems:
    print("PROBLEM:", problem)
print("OK" if not problems else f"{len(problems)} problems")
sys.exit(1 if problems else 0)
