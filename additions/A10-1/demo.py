import os, sys; sys.path.insert(0, os.getcwd())
# Demo for change 1: DataFrame.sort() without any colname=dir pair raises
# TypeError (as before, np.lexsort did that), everything else is unchanged.
import datetime, math
import numpy as np
import dataiter as di

FAILS = []
def check(label, ok):
    print(("ok   " if ok else "FAIL ") + label)
    if not ok: FAILS.append(label)

def exc_class(f):
    try:
        f()
    except BaseException as e:
        return type(e), str(e)
    return None, None

def same(a, b):
    # compare two python lists treating NaN == NaN
    if len(a) != len(b): return False
    for x, y in zip(a, b):
        if isinstance(x, float) and isinstance(y, float) and math.isnan(x) and math.isnan(y): continue
        if x != y or type(x) is not type(y): return False
    return True

def rows_of(data):
    cols = [data[k].tolist() for k in data.colnames]
    return [tuple(r) for r in zip(*cols)]

def expected_sort(rows, colnames, pairs):
    # independent, plain Python: stable sort, missing (None) last
    def key(row):
        out = []
        for name, dir in pairs:
            v = row[colnames.index(name)]
            if v is None:
                out.append((1, 0))
            elif isinstance(v, str):
                uniq = sorted(set(r[colnames.index(name)] for r in rows if r[colnames.index(name)] is not None))
                out.append((0, dir * uniq.index(v)))
            else:
                out.append((0, dir * v))
        return tuple(out)
    return sorted(rows, key=key)

def frames():
    yield "ordinary", di.DataFrame(g=[2, 1, 2, 1, 3], x=[0.5, 1.5, -1.0, 3.0, 2.0], s=["b", "a", "c", "a", "b"])
    yield "with nan", di.DataFrame(g=[2, 1, 2, 1, 3], x=[np.nan, 1.5, -np.inf, np.inf, np.nan], s=["b", "a", "c", "a", "b"])
    yield "one row", di.DataFrame(g=[7], x=[np.nan], s=["z"])
    yield "zero rows", di.DataFrame(g=di.Vector([], int), x=di.Vector([], float), s=di.Vector([], str))
    yield "all missing", di.DataFrame(g=[1, 1, 1], x=[np.nan, np.nan, np.nan], s=["a", "a", "a"])
    yield "bool/date", di.DataFrame(g=[True, False, True], x=[3.0, 2.0, 1.0], s=["q", "r", "s"])

# 1. sorting WITH keys gives what an independent Python sort gives
for label, data in frames():
    colnames = data.colnames
    rows = rows_of(data)
    before = rows_of(data)
    for pairs in ([("g", 1)], [("g", -1)], [("x", 1)], [("x", -1)], [("s", 1)], [("s", -1)],
                  [("g", 1), ("x", -1)], [("s", -1), ("g", 1)], [("g", 1), ("s", 1), ("x", 1)]):
        if label == "bool/date" and any(n == "g" and d == -1 for n, d in pairs):
            continue # ~bool is not -bool, leave booleans descending out of the plain Python model
        got = data.sort(**dict(pairs))
        exp = expected_sort(rows, colnames, pairs)
        check(f"{label}: sort{pairs}", all(same(list(a), list(b)) for a, b in zip(rows_of(got), exp)) and got.nrow == len(exp))
        check(f"{label}: sort{pairs} colnames, dtypes, no aliasing",
              got.colnames == colnames and
              all(got[k].dtype == data[k].dtype for k in colnames) and
              all(not np.shares_memory(got[k], data[k]) for k in colnames if data.nrow and not data[k].is_string()) and
              got._group_colnames == ())
    check(f"{label}: input left alone", all(same(list(a), list(b)) for a, b in zip(rows_of(data), before)))
    # grouped frames sort the same and keep their grouping on the input only
    grouped = data.copy().group_by("g")
    got = grouped.sort(x=1)
    check(f"{label}: grouped sort", all(same(list(a), list(b)) for a, b in zip(rows_of(got), expected_sort(rows, colnames, [("x", 1)]))) and grouped._group_colnames == ("g",))

# 2. bad dir still ValueError, unknown column still KeyError
data = di.DataFrame(g=[2, 1], x=[1.0, 2.0])
for dir in (0, 2, -2, None, "1", 1.5):
    check(f"dir={dir!r} -> ValueError", exc_class(lambda: data.sort(g=dir))[0] is ValueError)
check("dir=True behaves as 1", rows_of(data.sort(g=True)) == [(1, 2.0), (2, 1.0)])
check("unknown column -> KeyError", exc_class(lambda: data.sort(nope=1))[0] is KeyError)
check("unknown column with bad dir -> ValueError first", exc_class(lambda: data.sort(nope=3))[0] is ValueError)

# 3. NO keys: TypeError, for every kind of frame, repeatedly, input untouched
nokeys = list(frames()) + [("no columns", di.DataFrame()), ("grouped", di.DataFrame(g=[1, 2]).group_by("g"))]
for label, data in nokeys:
    before = rows_of(data); group = data._group_colnames
    for i in range(2):
        cls, msg = exc_class(lambda: data.sort())
        check(f"{label}: sort() -> TypeError [{msg}]", cls is TypeError)
    cls, msg = exc_class(lambda: data.sort(**{}))
    check(f"{label}: sort(**{{}}) -> TypeError", cls is TypeError)
    check(f"{label}: untouched after failure", rows_of(data) == before or all(same(list(a), list(b)) for a, b in zip(rows_of(data), before)))
    check(f"{label}: grouping untouched", data._group_colnames == group)

# 4. callers: aggregate of an UNGROUPED frame sorts by no keys and therefore
#    raises TypeError as well (today too), grouped aggregate and split work
data = di.DataFrame(g=[2, 1, 2], x=[1.0, 2.0, 3.0])
check("ungrouped aggregate -> TypeError", exc_class(lambda: data.aggregate(n=di.count()))[0] is TypeError)
check("split() without by -> TypeError", exc_class(lambda: data.split())[0] is TypeError)
stat = data.group_by("g").aggregate(n=di.count(), x=di.sum("x"))
check("grouped aggregate", rows_of(stat) == [(1, 1, 2.0), (2, 2, 4.0)])
check("split by g", [x.tolist() for x in data.split("g")] == [[1], [0, 2]])
check("count", rows_of(di.DataFrame(g=[2, 1, 2]).count("g")) == [(1, 1), (2, 2)])

print("FAILURES:", FAILS)
sys.exit(1 if FAILS else 0)
