import os, sys; sys.path.insert(0, os.getcwd())

# Change 6: the two assertions in regex._prep say what they were given.
# Expected values come from the re module applied to plain lists.

import re
import numpy as np
import dataiter as di

from dataiter import regex
from dataiter import Vector

problems = []

CASES = [
    [],
    [""],
    ["", ""],
    ["asdf"],
    ["asdf", "1234", "", "as df 12", "ASDF"],
    ["", "one two  three", "four"],
    ["x" * 100, "ä€", ""],
]

# name -> (arguments before string, keyword arguments)
CALLS = [
    ("findall", (r"[a-z]+",), {}),
    ("findall", (r"[a-z]+",), {"flags": re.IGNORECASE}),
    ("fullmatch", (r"[a-z]+",), {}),
    ("match", (r"[a-z]",), {}),
    ("search", (r"\d",), {}),
    ("split", (r" +",), {}),
    ("split", (r" +",), {"maxsplit": 1}),
    ("split", (r" +",), {"maxsplit": -1}),
    ("sub", (r"[a-z]", "X"), {}),
    ("sub", (r"[a-z]", "X"), {"count": 1}),
    ("sub", (r"$", "!"), {}),
    ("sub", (r".*", ""), {}),
    ("subn", (r"[a-z]", "X"), {}),
    ("subn", (r"[a-z]", "X"), {"count": 2, "flags": re.IGNORECASE}),
]

def plain(value):
    # re.Match objects have no equality: compare what they matched.
    if isinstance(value, re.Match):
        return ("match", value.span(), value.group(0))
    return value

for strings in CASES:
    vector = Vector(strings, str)
    before = vector.copy()
    for name, args, kwargs in CALLS:
        for via in ["module", "proxy"]:
            label = f"{via} {name}{args!r} {kwargs!r} on {strings!r}"
            if via == "module":
                got = getattr(regex, name)(*args, vector, **kwargs)
            else:
                got = getattr(vector.re, name)(*args, **kwargs)
            expected = [None if s == "" else plain(getattr(re, name)(*args, s, **kwargs)) for s in strings]
            if name == "sub":
                dtype = di.dtypes.string
                # A blank result is a missing value in a string vector.
                expected = [e or None for e in expected]
            else:
                dtype = object
            if type(got) is not Vector or got.dtype != np.dtype(dtype) or got.ndim != 1:
                problems.append(f"{label}: {type(got).__name__} {got.dtype}")
                continue
            values = [plain(x) for x in got.tolist()]
            if values != expected:
                problems.append(f"{label}: got {values!r}, expected {expected!r}")
    if not (vector.equal(before) and vector.dtype == before.dtype):
        problems.append(f"input changed: {strings!r}")

# Scalars go straight to re.
for name, args, kwargs in CALLS:
    for s in ["asdf 12", ""]:
        got = plain(getattr(regex, name)(*args, s, **kwargs))
        expected = plain(getattr(re, name)(*args, s, **kwargs))
        if got != expected:
            problems.append(f"scalar {name} on {s!r}: {got!r}")

def expect(label, error_class, function):
    try:
        function()
    except error_class as error:
        return error
    except Exception as error:
        problems.append(f"{label}: {type(error).__name__} instead of {error_class.__name__}")
    else:
        problems.append(f"{label}: did not raise")

# Not a string vector: AssertionError as before, for all seven functions.
NOT_STRING_VECTORS = [
    ["a", "b"], ("a", "b"), [], {"a": 1}, range(3),
    np.array(["a", "b"]),                 # fixed-width strings
    np.array(["a", "b"]).view(Vector),
    np.array([1, 2]),
    Vector([1, 2]), Vector([1.5]), Vector([True]), Vector(["a", None], object),
    Vector([]), Vector([], object), Vector([b"a"]),
    Vector(["2020-01-01"], "datetime64[D]"),
]
for bad in NOT_STRING_VECTORS:
    for name, args, kwargs in CALLS:
        error = expect(f"{name} on {bad!r}", AssertionError,
                       lambda: getattr(regex, name)(*args, bad, **kwargs))
        if error is not None and type(error) is not AssertionError:
            problems.append(f"{name} on {bad!r}: {type(error).__name__}")
    if isinstance(bad, Vector):
        expect(f"proxy on {bad!r}", AssertionError, lambda: bad.re.sub("a", "b"))

# A plain ndarray of the string dtype is accepted, as before.
array = np.array(["ab", "", "b"], di.dtypes.string)
if regex.sub("b", "c", array).tolist() != ["ac", None, "c"]:
    problems.append("plain StringDType array")

# None, numbers and bytes are scalars: TypeError from re itself, as before.
for bad in [None, 5, 1.5, b"bytes"]:
    expect(f"scalar {bad!r}", TypeError, lambda: regex.search(r"a", bad))

# A bad pattern is only noticed when there is something to apply it to.
expect("bad pattern", re.error, lambda: regex.search(r"(", Vector(["a"], str)))
expect("bad pattern after blank", re.error, lambda: regex.sub(r"(", "", Vector(["", "a"], str)))
for nothing in [Vector([], str), Vector(["", ""], str)]:
    if regex.search(r"(", nothing).tolist() != [None] * nothing.length:
        problems.append("bad pattern on nothing")
    if regex.sub(r"(", "", nothing).tolist() != [None] * nothing.length:
        problems.append("bad pattern on nothing (sub)")

for problem in problems:
    print("PROBLEM:", problem)
print("OK" if not problems else f"{len(problems)} problems")
sys.exit(1 if problems else 0)
