import os, sys; sys.path.insert(0, os.getcwd())
import datetime
import numpy as np
import dataiter as di
from dataiter import Vector, dt

def old_to_string(x, format):
    # The original implementation, verbatim.
    return dt._pull_str(x, lambda x: x.strftime(format))

def run(f, *args):
    try:
        r = f(*args)
        if isinstance(r, np.ndarray):
            return (type(r), r.dtype, r.shape, r.tolist() if not isinstance(r, Vector) else np.asarray(r).tolist())
        return (type(r), r)
    except Exception as e:
        return ("raised", type(e).__name__, str(e))

rng = np.random.default_rng(1)
days = ["2022-10-15", "NaT", "2022-10-15", "1969-12-31", "0001-01-01", "9999-12-31", "2024-02-29", "2022-10-15", "NaT", "1000-01-01", "0999-12-31"]
times = ["2022-10-15T12:34:56.789012", "NaT", "2022-10-15T12:34:56.789012", "2022-10-15T12:34:56.789013",
         "2022-10-15T00:00:00", "2022-10-15T00:00:00.000001", "1969-12-31T23:59:59.999999", "0001-01-01T00:00:00", "9999-12-31T23:59:59.999999"]
vectors = [Vector.fast(days, f"datetime64[{u}]") for u in ("Y", "M", "W", "D")]
vectors += [Vector.fast(times, f"datetime64[{u}]") for u in ("h", "m", "s", "ms", "us")]
vectors += [Vector.fast(days, "datetime64[h]"), Vector.fast(days, "datetime64[us]")]   # datetimes at midnight vs dates
vectors += [Vector.fast(["2022-10-15T12:34:56.789012345", "NaT"], "datetime64[ns]")]   # ints as objects: AttributeError
vectors += [Vector.fast(["20000-01-01", "2000-01-01"], "datetime64[D]")]               # beyond year 9999: ints as objects
vectors += [Vector.fast(["2000-01-01", "20000-01-01"], "datetime64[D]")]
vectors += [Vector.fast(["-0001-01-01"], "datetime64[D]")]
vectors += [Vector.fast([], "datetime64[D]"), Vector.fast([], "datetime64[us]")]       # empty
vectors += [Vector.fast(["NaT", "NaT"], "datetime64[D]"), Vector.fast(["NaT"], "datetime64[us]")]   # all missing
vectors += [Vector.fast(["2022-10-15"], "datetime64[D]")]                              # single
vectors += [Vector.fast(rng.integers(0, 30, 2000), "datetime64[D]")]                   # lots of duplicates
vectors += [Vector.fast(rng.integers(-10**6, 10**6, 500), "datetime64[s]")[::2]]       # strided view
vectors += [np.array(days, "datetime64[D]")]                                           # plain ndarray
formats = ["%d.%m.%Y", "%Y-%m-%dT%H:%M:%S.%f", "%A %B %j %U %p %%", "", "no codes", "%Y年%m月%d日 ö", "%Q %", "%H:%M", "%y"]

for v in vectors:
    keep = v.copy()
    for format in formats + [None, 5, b"%Y"]:
        new, old = run(dt.to_string, v, format), run(old_to_string, v, format)
        assert new == old, (v.dtype, format, new, old)
        assert run(dt.to_string, v, format) == new            # repeated call
        if isinstance(v, Vector):
            assert run(v.dt.to_string, format) == new         # via the proxy
        if new[0] != "raised":
            # Independent expectation: format one at a time in plain Python.
            exp = ["" if x is None else x.strftime(format) for x in np.where(np.isnat(v), None, v).tolist()]
            out = dt.to_string(v, format)
            assert out.tolist() == [x or None for x in exp] and out.is_string() and type(out) is Vector
            # The result is fresh: mutating it does not affect the next one.
            if len(out): out[0] = "changed"
            assert dt.to_string(v, format).tolist() == [x or None for x in exp]
    assert np.array_equal(v, keep, equal_nan=True)            # argument untouched

# No memory is kept between calls with different formats.
v = Vector.fast(["2022-10-15", "2022-10-15"], "datetime64[D]")
assert dt.to_string(v, "%Y").tolist() == ["2022", "2022"]
assert dt.to_string(v, "%m").tolist() == ["10", "10"]
v[1] = np.datetime64("2023-11-16")                            # later mutation of the argument
assert dt.to_string(v, "%Y").tolist() == ["2022", "2023"]

# Scalars, of all accepted kinds, including missing.
for x in [np.datetime64("2022-10-15"), np.datetime64("2022-10-15T12:34:56"), np.datetime64("NaT"),
          datetime.date(2022, 10, 15), datetime.datetime(2022, 10, 15, 12, 34, 56, 789), "2022-10-15", None, float("nan"), 5]:
    for format in formats:
        assert run(dt.to_string, x, format) == run(old_to_string, x, format), (x, format)
assert dt.to_string(np.datetime64("2022-10-15"), "%d.%m.%Y") == "15.10.2022"

# Not datetimes: same assertion as before.
for bad in [Vector([1, 2]), Vector(["2022-10-15"]), Vector.fast([1], "timedelta64[s]"), [np.datetime64("2022-10-15")]]:
    assert run(dt.to_string, bad, "%Y") == run(old_to_string, bad, "%Y")

# A data frame column.
data = di.DataFrame(x=Vector.fast(days, "datetime64[D]"))
assert data.x.dt.to_string("%m").tolist() == [None if d == "NaT" else d[5:7] for d in days]
print("OK")
