import os, sys; sys.path.insert(0, os.getcwd())

import collections
import contextlib
import io
import types

from attd import AttributeDict
from dataiter import ListOfDicts

failures = []

def check(label, ok):
    if not ok:
        failures.append(label)
        print("FAIL", label)

def expected_keys(dicts):
    # Plain Python: keys in order of first appearance, deduplicated
    # the way a dict does it (identity or equality).
    out = []
    for item in dicts:
        for key in item:
            if not any(key is k or key == k for k in out):
                out.append(key)
    return out

def same_list(a, b):
    # Identity-or-equality and same types, so that NaN keys, 1 vs 1.0 vs True compare strictly.
    return len(a) == len(b) and all((x is y) or (x == y and type(x) is type(y)) for x, y in zip(a, b))

nan1, nan2 = float("nan"), float("nan")
CASES = {
    "empty": [],
    "single": [{"a": 1}],
    "single empty dict": [{}],
    "all empty dicts": [{}, {}, {}],
    "ordinary": [{"a": 1, "b": 2}, {"a": 3, "b": 4}],
    "ragged": [{"a": 1}, {"b": 2}, {"c": 3, "a": 4}, {}, {"d": None}],
    "order differs": [{"b": 1, "a": 2}, {"a": 3, "b": 4}, {"c": 5, "b": 6}],
    "non-ascii": [{"ä": 1, "山": 2}, {"\U0001f600": 3, "ä": 4}, {"ä": 5}],
    "non-string keys": [{1: "a", 2.5: "b", None: "c", (1, 2): "d"}, {1.0: "e", True: "f", 0: "g"}, {False: "h", -0.0: "i"}],
    "nan keys": [{nan1: 1}, {nan2: 2}, {nan1: 3, nan2: 4}, {float("inf"): 5, float("-inf"): 6}],
    "extreme int keys": [{2**64: 1, -2**63: 2}, {2**64: 3, 10**40: 4}],
    "keys like methods": [{"keys": 1, "items": 2}, {"get": 3, "keys": 4}],
    "many": [{f"k{j}": j for j in range(i % 7, i % 7 + 5)} for i in range(3000)],
}

for label, dicts in CASES.items():
    data = ListOfDicts(dicts)
    gen = data.keys()
    check(f"{label}: generator", isinstance(gen, types.GeneratorType))
    got = list(gen)
    check(f"{label}: keys", same_list(got, expected_keys(dicts)))
    check(f"{label}: exhausted", list(gen) == [])
    check(f"{label}: second call", same_list(list(data.keys()), expected_keys(dicts)))
    check(f"{label}: data untouched", [dict(x) for x in data] == [dict(x) for x in dicts])
    check(f"{label}: not obsolete", data._obsolete is False)
    # Grouped and sliced variants.
    check(f"{label}: sliced", same_list(list(data[1:].keys()), expected_keys(dicts[1:])))
    check(f"{label}: reversed", same_list(list(data.reverse().keys()), expected_keys(dicts[::-1])))

# The key objects yielded are the ones of the first item having them.
k1, k2 = "key-%d" % 1, "key-%d" % 1
assert k1 is not k2
data = ListOfDicts([{k1: 1}, {k2: 2}])
check("identity of yielded key", list(data.keys())[0] is k1)

# Laziness: nothing is evaluated before the first next(), so a mutation
# between the call and the first next() is seen, one after it is not.
data = ListOfDicts([{"a": 1}])
gen = data.keys()
list.append(data, AttributeDict(b=2))
data[0]["c"] = 3
check("lazy start", list(gen) == ["a", "c", "b"])
gen = data.keys()
first = next(gen)
list.append(data, AttributeDict(z=2))
data[0]["y"] = 3
check("snapshot after first next", [first] + list(gen) == ["a", "c", "b"])

# Items that are not dicts (as_is=True): other mappings work, other iterables
# contribute their elements, non-iterables raise the same TypeError lazily.
data = ListOfDicts([collections.OrderedDict(b=1, a=2), {"c": 1}, collections.defaultdict(int, d=1)], as_is=True)
check("as_is mappings", list(data.keys()) == ["b", "a", "c", "d"])
data = ListOfDicts([("x", "y"), "zx", {"w": 1}], as_is=True)
check("as_is iterables", list(data.keys()) == ["x", "y", "z", "w"])
data = ListOfDicts([{"a": 1}, 5], as_is=True)
gen = data.keys() # no error yet
try:
    next(gen)
    check("non-iterable item should raise", False)
except TypeError as e:
    check("non-iterable message", str(e) == "'int' object is not iterable")
data = ListOfDicts([[["unhashable"]]], as_is=True)
try:
    list(data.keys())
    check("unhashable key should raise", False)
except TypeError as e:
    check("unhashable message", str(e) == "unhashable type: 'list'")

# Obsolescence warning: printed once, on first access of a callable attribute.
data = ListOfDicts([{"a": 1}, {"b": 2}])
new = data.modify(c=lambda x: 1)
out = io.StringIO()
with contextlib.redirect_stdout(out):
    keys1 = list(data.keys())
    keys2 = list(data.keys())
check("obsolete warning once", out.getvalue() == "Warning: A successor has modified the shared dicts\n")
check("obsolete keys", keys1 == keys2 == ["a", "c", "b"])
out = io.StringIO()
with contextlib.redirect_stdout(out):
    check("successor keys", list(new.keys()) == ["a", "c", "b"])
check("successor no warning", out.getvalue() == "")

# Users of keys(): fill_missing_keys, write_csv (via reading back), print_na_counts.
data = ListOfDicts([{"a": 1}, {"b": None}, {}])
filled = data.deepcopy().fill_missing_keys()
check("fill_missing_keys", [dict(x) for x in filled] == [{"a": 1, "b": None}, {"b": None, "a": None}, {"a": None, "b": None}])
check("fill_missing_keys order", [list(x) for x in filled] == [["a", "b"], ["b", "a"], ["a", "b"]])
out = io.StringIO()
with contextlib.redirect_stdout(out):
    data.print_na_counts()
check("print_na_counts", out.getvalue() == "Missing counts:\n... a: 2 (66.7%)\n... b: 3 (100.0%)\n")

# A very long list (argument unpacking is not needed any more, result the same).
data = ListOfDicts({"k%d" % (i % 10): i} for i in range(200000))
check("long", list(data.keys()) == ["k%d" % i for i in range(10)])

print("failures:", len(failures))
sys.exit(1 if failures else 0)
