import os, sys; sys.path.insert(0, os.getcwd())

# Change 5: ListOfDicts.drop_na has a loop of its own for a single key.
# Compare with the old implementation and with hand-written expectations.

import contextlib
import io
import math

import numpy as np

from attd import AttributeDict
from dataiter import ListOfDicts

failures = []

def check(condition, message):
    if not condition:
        failures.append(message)
        print("FAIL:", message[:1000])

def old_drop_na(self, *keys):
    # The implementation before the change, decorator spelled out.
    def generate(self, *keys):
        for item in self:
            if not any(item.get(x, None) is None for x in keys):
                yield item
    return self._new(generate(self, *keys))

def run(function, data, keys):
    before = [(id(x), type(x), list(x.items())) for x in data]
    with contextlib.redirect_stdout(io.StringIO()) as f:
        try:
            new = function(data, *keys)
            result = (type(new), [id(x) for x in new], new is data,
                      new._group_keys, new._obsolete, new._predecessor is data)
        except Exception as error:
            result = (type(error), str(error))
    after = [(id(x), type(x), list(x.items())) for x in data]
    return result, repr(before) == repr(after), data._obsolete, f.getvalue()

nan = float("nan")

class Falsy:
    def __bool__(self):
        return False
    def __eq__(self, other):
        return other is None
    __hash__ = None

cases = {
    "empty": ListOfDicts([]),
    "empty items": ListOfDicts([{}, {}]),
    "single item": ListOfDicts([{"a": 1}]),
    "single missing item": ListOfDicts([{"a": None}]),
    "nothing missing": ListOfDicts([{"a": 1, "b": 2}, {"a": 3, "b": 4}]),
    "all missing": ListOfDicts([{"a": None, "b": None}, {}, {"c": 1}]),
    "mixed": ListOfDicts([{"a": 1, "b": None}, {"a": None, "b": 2}, {"b": 3}, {"a": 4}, {"a": 5, "b": 6}]),
    "falsy values": ListOfDicts([{"a": 0}, {"a": ""}, {"a": False}, {"a": 0.0}, {"a": []}, {"a": {}},
                                 {"a": nan}, {"a": Falsy()}, {"a": -0.0}, {"a": ()}]),
    "floats": ListOfDicts([{"a": nan}, {"a": float("inf")}, {"a": -float("inf")}, {"a": None}]),
    "numpy": ListOfDicts([{"a": np.nan}, {"a": np.datetime64("NaT")}, {"a": np.float64("nan")},
                          {"a": np.uint64(2**64 - 1)}, {"a": np.array([1, 2])}, {"a": None}]),
    "integers": ListOfDicts([{"a": 2**64}, {"a": -2**63}, {"a": None}, {"a": 0}]),
    "text": ListOfDicts([{"näme": "Åland"}, {"näme": None}, {"日本": "☃"}, {"näme": "", "日本": None}]),
    "odd keys": ListOfDicts([{1: "a", None: "b"}, {1: None, None: "c"}, {"get": None}, {"get": 1, "items": 2}]),
    "same item twice": ListOfDicts([AttributeDict(a=1)] * 2 + [AttributeDict(a=None)] * 2, as_is=True),
    "plain dicts as is": ListOfDicts([{"a": 1}, {"a": None}, {"b": 2}], as_is=True),
    "grouped": ListOfDicts([{"g": 1, "a": None}, {"g": 2, "a": 1}]).group_by("g"),
    "sliced": ListOfDicts([{"a": 1}, {"a": None}, {"a": 2}])[1:],
    "many": ListOfDicts([{"i": i, "odd": i if i % 2 else None} for i in range(1000)]),
}

all_keys = [
    (),
    ("a",),
    ("b",),
    ("zzz",),
    ("a", "b"),
    ("b", "a"),
    ("a", "a"),
    ("a", "zzz"),
    ("näme",),
    ("日本", "näme"),
    (1,),
    (None,),
    ("get",),
    ("odd",),
    ("i", "odd"),
    (["unhashable"],),
    (("a", "b"),),
    ("a", ["unhashable"]),
]

for name, data in cases.items():
    for keys in all_keys:
        new = run(ListOfDicts.drop_na, data, keys)
        old = run(old_drop_na, data, keys)
        check(new == old, f"{name} {keys}: {new} vs {old}")
        check(new[1] and not new[2], f"{name} {keys}: data changed")

# Hand-written expectations.
data = cases["mixed"]
check(data.drop_na("a") == [{"a": 1, "b": None}, {"a": 4}, {"a": 5, "b": 6}], "expected: a")
check(data.drop_na("b") == [{"a": None, "b": 2}, {"b": 3}, {"a": 5, "b": 6}], "expected: b")
check(data.drop_na("a", "b") == [{"a": 5, "b": 6}], "expected: a and b")
check(data.drop_na() == data and data.drop_na() is not data, "expected: no keys")
check(data.drop_na("zzz") == [], "expected: unknown key")
new = data.drop_na("a")
check(new[0] is data[0] and new[1] is data[3] and new[2] is data[4], "expected: same dict objects")
check(type(new) is ListOfDicts and new._predecessor is data and not data._obsolete, "expected: attributes")
data = cases["falsy values"]
new = data.drop_na("a")
check(len(new) == 10 and all(x is y for x, y in zip(new, data)), "expected: falsy values kept")
data = cases["floats"]
new = data.drop_na("a")
check(len(new) == 3 and math.isnan(new[0].a) and new[1].a == float("inf"), "expected: nan and inf kept")
data = cases["nothing missing"]
new = data.drop_na("a")
check(new == data and new is not data, "expected: nothing missing, still a new list")
list.append(new, AttributeDict(a=None))
check(len(data) == 2, "expected: separate lists")
check(cases["grouped"].drop_na("a")._group_keys == ("g",), "expected: group keys")

# Repeated calls and later mutation.
data = ListOfDicts([{"a": 1}, {"a": None}])
check(data.drop_na("a") == data.drop_na("a") == [{"a": 1}], "expected: repeated call")
data[1].a = 0
data[0].a = None
check(data.drop_na("a") == [{"a": 0}], "expected: after mutation")

print("failures:", len(failures))
sys.exit(1 if failures else 0)
