import os, sys; sys.path.insert(0, os.getcwd())
import datetime
import gzip
import json
import shutil
import tempfile

from dataiter import ListOfDicts

HERE = os.path.dirname(os.path.abspath(__file__))
tmpdir = tempfile.mkdtemp(dir=HERE)

MISSING = object()

# Independent expectation: default=str, ensure_ascii=False, indent=2 unless the
# caller says otherwise -- whatever the caller says (None, 0, "", False) wins.
def expected_json(dicts, **kwargs):
    default = kwargs.pop("default", MISSING)
    ensure_ascii = kwargs.pop("ensure_ascii", MISSING)
    indent = kwargs.pop("indent", MISSING)
    return json.dumps(
        [dict(x) for x in dicts],
        default=str if default is MISSING else default,
        ensure_ascii=False if ensure_ascii is MISSING else ensure_ascii,
        indent=2 if indent is MISSING else indent,
        **kwargs)

def outcome(function, *args, **kwargs):
    try:
        return ("ok", function(*args, **kwargs))
    except Exception as error:
        return ("error", type(error), str(error))

def read(path):
    opener = gzip.open if path.endswith(".gz") else open
    with opener(path, "rt", encoding="utf-8") as f:
        return f.read()

def tag(x):
    return f"<{type(x).__name__}>"

DATA = {
    "ordinary": [{"a": 1, "b": "x"}, {"a": 2, "b": "y"}],
    "empty": [],
    "empty-item": [{}],
    "ragged": [{"b": 1}, {"a": None, "b": 2.5}, {"c": [1, 2, {"d": None}], "a": True}],
    "non-ascii": [{"nimi": "Töölö", "名前": "東京", "emoji": "\U0001F600"}],
    "floats": [{"x": float("nan")}, {"x": float("inf")}, {"x": -0.0}, {"x": 1e308}],
    "integers": [{"x": 2**64}, {"x": -2**63}, {"x": 0}],
    "dates": [{"d": datetime.date(2020, 1, 1), "t": datetime.timedelta(1), "s": {1, }}],
    "nonstring-keys": [{1: "a", None: "b", 2.5: "c", True: "d"}],
    "bad-keys": [{(1, 2): "a"}],
}

KWARGS = [
    {},
    {"indent": None}, {"indent": 0}, {"indent": 4}, {"indent": ""}, {"indent": "\t"}, {"indent": False},
    {"ensure_ascii": True}, {"ensure_ascii": False}, {"ensure_ascii": 0}, {"ensure_ascii": None}, {"ensure_ascii": 1},
    {"default": None}, {"default": tag}, {"default": repr}, {"default": str},
    {"sort_keys": True}, {"separators": (",", ":")}, {"allow_nan": False}, {"skipkeys": True},
    {"indent": None, "ensure_ascii": True, "default": None, "sort_keys": True},
    {"indent": 1, "separators": (", ", " = "), "default": tag},
    {"nonsense": 1},
    {"indent": 3, "nonsense": None},
]

n = 0
for label, dicts in DATA.items():
    for kwargs in KWARGS:
        data = ListOfDicts(dicts)
        passed = dict(kwargs)
        want = outcome(expected_json, dicts, **kwargs)
        got = outcome(data.to_json, **passed)
        assert got == want, (label, kwargs, got, want)
        # The caller's own dict is never touched.
        assert passed == kwargs and list(passed) == list(kwargs)
        # Repeated call, and the call after one with other options.
        assert outcome(data.to_json, **passed) == want
        assert outcome(data.to_json) == outcome(expected_json, dicts)
        for ext in [".json", ".json.gz"]:
            n += 1
            path = os.path.join(tmpdir, f"sub{n}", f"{label}{ext}")
            got = outcome(data.write_json, path, **passed)
            assert passed == kwargs and list(passed) == list(kwargs)
            if want[0] == "ok":
                assert got == ("ok", None), (label, kwargs, got)
                assert read(path) == want[1] + "\n", (label, kwargs, read(path), want)
            else:
                assert got[:2] == want[:2], (label, kwargs, got, want)
                # The file has been created by then, as ever.
                assert os.path.isfile(path)
        assert not data._obsolete
        assert [dict(x) for x in data] == [dict(x) for x in dicts]

# Defaults unchanged by calls with overrides: a later plain call still uses them.
data = ListOfDicts(DATA["non-ascii"] + DATA["dates"])
first = data.to_json()
data.to_json(indent=None, ensure_ascii=True, default=tag)
path = os.path.join(tmpdir, "x.json")
data.write_json(path, indent=None, ensure_ascii=True, default=tag)
assert read(path) == json.dumps([dict(x) for x in data], indent=None, ensure_ascii=True, default=tag) + "\n"
assert data.to_json() == first == expected_json(data)
data.write_json(path)
assert read(path) == first + "\n"
# to_string / repr go through to_json with the defaults.
assert str(data) == repr(data) == first

# Other encoding.
path = os.path.join(tmpdir, "latin.json")
ListOfDicts([{"å": "ö"}]).write_json(path, encoding="latin-1", indent=None)
assert open(path, "rb").read() == '[{"å": "ö"}]\n'.encode("latin-1")

shutil.rmtree(tmpdir)
print("OK")
