import os, sys; sys.path.insert(0, os.getcwd())
# Demo for change 3: the colnames setter asserts that it has exactly one new
# name per column before it pops the columns (zip would truncate silently
# otherwise). The assertion can never fire; every assignment works as before.
import itertools
import numpy as np
import dataiter as di

FAILS = []
def check(label, ok):
    print(("ok   " if ok else "FAIL ") + label)
    if not ok: FAILS.append(label)

def exc_class(f):
    try:
        f()
    except BaseException as e:
        return type(e), str(e)
    return None, None

def fresh(ncol, nrow=3, group=False):
    names = ["a", "b", "c", "d"][:ncol]
    data = di.DataFrame({k: np.arange(nrow) + 10 * i for i, k in enumerate(names)})
    return data.group_by("a") if group and ncol else data

def expected(old_names, old_values, names):
    # plain Python model: missing names are kept, surplus names ignored,
    # a repeated name keeps its first position and takes the last column
    names = list(names)[:len(old_names)]
    names = names + old_names[len(names):]
    # (the frame is empty when the first column is put back, so that one
    # is rebuilt -- an equal copy -- unless it has no rows; the others are
    # the very same objects)
    out = {}
    for i, (k, v) in enumerate(zip(names, old_values)):
        out[k] = (v, i > 0 or len(v) == 0)
    return out

candidates = [[], ["x"], ["x", "y"], ["x", "y", "z"], ["x", "y", "z", "w"], ["x", "y", "z", "w", "v"],
              ["b", "a"], ["c", "a", "b"], ["d", "c", "b", "a"], ["a", "a"], ["x", "x", "x", "x"], ["b"], ["c", "c"],
              ["not identifier", "items", ""], "xy", ("p", "q"), {"k1": 1, "k2": 2}]
for ncol in range(5):
    for nrow in (0, 1, 3):
        for group in (False, True):
            for names in candidates + [iter(["g1", "g2"]), (x for x in ["h1", "h2", "h3", "h4", "h5"]), np.array(["n1", "n2"])]:
                shown = names if isinstance(names, (list, str, tuple, dict)) else type(names).__name__
                data = fresh(ncol, nrow, group)
                old_names = list(data.keys())
                old_columns = [dict.__getitem__(data, k) for k in old_names]
                if not isinstance(names, (list, str, tuple, dict, np.ndarray)):
                    names, model_names = itertools.tee(names)
                else:
                    model_names = names
                exp = expected(old_names, old_columns, model_names)
                data.colnames = names
                ok = (list(data.keys()) == list(exp.keys()) and
                      all((dict.__getitem__(data, k) is v) == identical and
                          type(dict.__getitem__(data, k)) is di.DataFrameColumn and
                          dict.__getitem__(data, k).dtype == v.dtype and
                          dict.__getitem__(data, k).tolist() == v.tolist() for k, (v, identical) in exp.items()) and
                      data.colnames == list(exp.keys()) and
                      data._group_colnames == (("a",) if group and ncol else ()) and
                      # attribute placeholders exactly for identifier names
                      sorted(k for k in data.__dict__ if k != "_group_colnames") == sorted(k for k in exp if k.isidentifier() and not hasattr(dict, k)))
                check(f"ncol={ncol} nrow={nrow} group={group} colnames={shown!r} -> {list(exp.keys())}", ok)

# failures are the same as before: not iterable -> TypeError before
# anything is popped; a name that is not a string -> TypeError midway
for bad in (None, 1, 1.5):
    data = fresh(3)
    cls, msg = exc_class(lambda: setattr(data, "colnames", bad))
    check(f"colnames={bad!r} -> TypeError, frame untouched", cls is TypeError and data.colnames == ["a", "b", "c"] and data.a.tolist() == [0, 1, 2])
data = fresh(3)
cls, msg = exc_class(lambda: setattr(data, "colnames", ["x", 2, "z"]))
check("colnames=['x', 2, 'z'] -> TypeError with the columns popped (as before)", cls is TypeError and list(data.keys()) == ["x"])
data = fresh(2)
cls, msg = exc_class(lambda: setattr(data, "colnames", [["x"], "y"]))
check("colnames=[['x'], 'y'] -> TypeError with the columns popped (as before)", cls is TypeError and list(data.keys()) == [])
# repeated use
data = fresh(3)
for i in range(3):
    data.colnames = data.colnames[1:] + data.colnames[:1]
check("three rotations restore the names, not the columns' order", data.colnames == ["a", "b", "c"] and data.a.tolist() == [0, 1, 2])
data.colnames = [x.upper() for x in data.colnames]
check("upper", data.colnames == ["A", "B", "C"] and data.B.tolist() == [10, 11, 12])

print("FAILURES:", FAILS)
sys.exit(1 if FAILS else 0)
