import os, sys; sys.path.insert(0, os.getcwd())
import itertools, math, datetime, warnings
import numpy as np
import dataiter as di
from dataiter import DataFrame, DataFrameColumn, Vector, util

FAILURES = []

def check(label, ok):
    print(("ok   " if ok else "FAIL ") + label)
    if not ok:
        FAILURES.append(label)

def same_scalar(a, b):
    if type(a) is not type(b):
        return False
    if isinstance(a, (float, np.floating)) and a != a:
        return b != b
    if isinstance(a, (np.datetime64, np.timedelta64)) and np.isnat(a):
        return bool(np.isnat(b)) and a.dtype == b.dtype
    if isinstance(a, np.ndarray):
        return same_array(a, b)
    return bool(a == b)

def same_array(a, b):
    # Same class, dtype, shape and element-wise identical values
    # (NaN/NaT positions included, -0.0 vs 0.0 told apart via bytes).
    if type(a) is not type(b): return False
    if a.dtype != b.dtype or a.shape != b.shape: return False
    if a.dtype.kind in "biufcmMSUV?" and not a.dtype.hasobject:
        return a.tobytes() == b.tobytes()
    return all(same_scalar(x, y) for x, y in zip(list(a), list(b)))

def same_frame(a, b):
    return (type(a) is type(b) and
            list(a.keys()) == list(b.keys()) and
            all(same_array(a[k], b[k]) for k in a) and
            a._group_colnames == b._group_colnames)

def outcome(function):
    # Result or (exception type, message) of calling function.
    try:
        return ("value", function())
    except Exception as e:
        return ("error", type(e), str(e))

def same_outcome(x, y, same=None):
    if x[0] != y[0]: return False
    if x[0] == "error": return x[1:] == y[1:]
    return (same or same_frame)(x[1], y[1])

# --- Change 5 (fix): a single value can be assigned to a data frame with zero rows.

class OldDataFrame(DataFrame):
    # The previous implementation, everything else inherited.
    def _reconcile_column(self, column):
        if isinstance(column, DataFrameColumn):
            if column.nrow == self.nrow:
                return column
        nrow = self.nrow if self else None
        return DataFrameColumn(column, nrow=nrow)

def as_old(data):
    new = OldDataFrame()
    dict.update(new, {k: v.copy() for k, v in data.items()})
    new._group_colnames = data._group_colnames
    return new

def same_frame_any_class(a, b):
    return (list(a.keys()) == list(b.keys()) and
            all(same_array(a[k], b[k]) for k in a) and
            a._group_colnames == b._group_colnames)

BROADCAST = ("error", ValueError, "Bad arguments for broadcast")

# 1. The reported case.
full = DataFrame(id=[1, 2, 3], name=["a", "b", "c"])
empty = full.filter(full.id > 10)
check("zero rows to start with", empty.nrow == 0 and empty.ncol == 2)
old = as_old(empty)
check("used to raise: modify", outcome(lambda: old.modify(flag=True)) == BROADCAST)
check("used to raise: attribute", outcome(lambda: setattr(old, "flag", True)) == BROADCAST)
check("used to raise: item", outcome(lambda: old.__setitem__("flag", True)) == BROADCAST)
check("used to raise: cbind", outcome(lambda: old.cbind(DataFrame(source="x"))) == BROADCAST)
check("used to raise: update", outcome(lambda: old.update(DataFrame(source="x"))) == BROADCAST)
new = empty.modify(flag=True)
check("modify", new.colnames == ["id", "name", "flag"] and new.nrow == 0 and new.flag.dtype == np.dtype(bool))
new = empty.modify(flag=lambda x: 1.5)
check("modify with function", new.colnames == ["id", "name", "flag"] and new.nrow == 0 and new.flag.dtype == np.float64)
new = empty.copy()
new.flag = "yes"
new["n"] = 0
check("assignment", new.colnames == ["id", "name", "flag", "n"] and new.nrow == 0 and new.flag.is_string() and new.n.dtype == np.int64)
check("assigned column is a column", type(new.flag) is DataFrameColumn and new.flag.shape == (0,))
new = empty.cbind(DataFrame(source="x"))
check("cbind", new.colnames == ["id", "name", "source"] and new.nrow == 0 and new.source.is_string())
new = empty.update(DataFrame(source="x", id=5))
check("update", new.colnames == ["name", "source", "id"] and new.nrow == 0 and new.id.dtype == np.int64)
# Same types as with rows left.
values = [True, 1, 2**63 - 1, 1.5, np.nan, np.inf, "a", "ö𝔘", "", None, b"x", datetime.date(2020, 1, 1),
          datetime.datetime(2020, 1, 1, 12), np.datetime64("NaT"), np.timedelta64(5, "s"), np.timedelta64("NaT"),
          np.uint64(2**64 - 1), np.int8(-5), np.float32(1.5), [1], ["a"], [None], (2.5,), np.array([7], np.uint8),
          Vector([1.5]), DataFrameColumn(["x"]), np.array(["a"]), np.array(["a"], "U3"), iter([3]), range(1)]
for i, value in enumerate(values):
    a = empty.copy(); a.z = value if i != 28 else iter([3])
    b = full.copy(); b.z = value if i != 28 else iter([3])
    check(f"value {i} ({type(value).__name__}): zero rows, dtype as with rows", a.z.nrow == 0 and a.nrow == 0 and a.z.dtype == b.z.dtype and type(a.z) is type(b.z))
    check(f"value {i}: old raised", outcome(lambda: setattr(as_old(empty), "z", value if i != 28 else iter([3]))) == BROADCAST)
# The frame stays usable.
new = empty.modify(flag=True, n=1)
check("consistent afterwards", new.rbind(full.modify(flag=False, n=2)).nrow == 3 and new.sort(n=1).nrow == 0 and new.unique().nrow == 0 and "flag" in new.to_string())
# Fresh result: the given one-element column is not touched or shared.
one = DataFrameColumn([5])
new = empty.copy(); new.z = one
check("given column untouched", one.tolist() == [5] and not np.shares_memory(new.z, one) and new.z.base is None)
# DataFrameColumn itself is unchanged.
check("DataFrameColumn(1, nrow=0) still raises", outcome(lambda: DataFrameColumn(1, nrow=0)) == BROADCAST)
check("DataFrame(x=[], y=1) still raises", outcome(lambda: DataFrame(x=[], y=1)) == BROADCAST)

# 2. Everything else: old against new for _reconcile_column and the methods using it.
def make_values():
    # Fresh each time as there are iterators.
    return {
        "int": 1, "float": 1.5, "nan": np.nan, "str": "abc", "empty str": "", "none": None, "bool": False, "bytes": b"ab",
        "date": datetime.date(2020, 1, 1), "NaT": np.datetime64("NaT"), "np scalar": np.float32(2.5),
        "list 0": [], "list 1": [1], "list 2": [1, 2], "list 3": [1, None, 3], "list 3 str": ["a", "", "ö"], "list 4": [1, 2, 3, 4],
        "tuple 0": (), "tuple 3": (1.5, 2.5, np.nan),
        "array 0 int": np.array([], int), "array 0 U": np.array([], "U5"), "array 0 object": np.array([], object),
        "array 0 datetime": np.array([], "datetime64[D]"), "array 0 uint8": np.array([], np.uint8),
        "array 1": np.array([5]), "array 3": np.array([1, 2, 3]), "array 3 uint64": np.array([0, 2**64 - 1, 5], np.uint64),
        "array 3 U": np.array(["a", "bb", ""]), "array 2d": np.zeros((3, 2)), "array 2d one": np.zeros((1, 1)), "array 2d none": np.zeros((0, 2)),
        "array 0d": np.array(5),
        "vector 0": Vector([], str), "vector 1": Vector(["a"]), "vector 3": Vector([1.5, None, 2.5]),
        "column 0": DataFrameColumn([], float), "column 0 str": DataFrameColumn([], str), "column 1": DataFrameColumn([1]),
        "column 2": DataFrameColumn([1, 2]), "column 3": DataFrameColumn([1, 2, 3]), "column 3 NaT": DataFrameColumn(np.array(["NaT", "2020-01-01", "NaT"], "datetime64[D]")),
        "iterator 0": iter([]), "iterator 1": iter([1]), "iterator 3": iter([1, 2, 3]), "generator": (x for x in "ab"), "range 3": range(3), "range 0": range(0),
        "dict": {"a": 1}, "set": {1}, "object": object(), "frame": DataFrame(a=[1, 2, 3]), "ragged": [[1], [2, 3]], "nested": [[1, 2], [3, 4], [5, 6]],
    }
frames = {
    "no columns": DataFrame(),
    "zero rows": DataFrame(x=[], y=[]),
    "zero rows typed": DataFrame(x=DataFrameColumn([], int), y=DataFrameColumn([], str)),
    "one row": DataFrame(x=[1], y=["a"]),
    "three rows": DataFrame(x=[3, 1, 2], y=["a", "", "ö"]),
    "three rows grouped": DataFrame(x=[3, 1, 2], y=["a", "", "ö"]).group_by("y"),
    "zero rows grouped": DataFrame(x=[], y=[]).group_by("y"),
}
def same_column(a, b):
    return same_array(a, b)
for fname, frame in frames.items():
    for vname in make_values():
        expect_fix = frame.nrow == 0 and len(frame) > 0
        # _reconcile_column itself
        value = make_values()[vname]
        x = outcome(lambda: frame._reconcile_column(value))
        value2 = make_values()[vname] if "iterator" in vname or vname == "generator" else value
        y = outcome(lambda: as_old(frame)._reconcile_column(value2))
        if expect_fix and y == BROADCAST and x[0] == "value":
            # The fixed case, and that only for a single element.
            value3 = make_values()[vname]
            single = DataFrameColumn(value3)
            check(f"{fname} / {vname}: FIXED, single value to zero rows", single.nrow == 1 and same_array(x[1], single[:0]))
        else:
            check(f"{fname} / {vname}: _reconcile_column {x[0]}", same_outcome(x, y, same_column))
            if x[0] == "value" and isinstance(value, DataFrameColumn) and value.nrow == frame.nrow:
                check(f"{fname} / {vname}: fitting column passed through as is", x[1] is value)
        # The public methods
        methods = {
            "setitem": lambda f, v: (lambda d: (d.__setitem__("z", v), d)[1])(f(frame)),
            "setattr": lambda f, v: (lambda d: (setattr(d, "x", v), d)[1])(f(frame)),
            "modify": lambda f, v: f(frame).modify(z=v),
            "modify function": lambda f, v: f(frame).modify(x=lambda data: v),
            "cbind": lambda f, v: f(frame).cbind(DataFrame(z=v)),
            "update": lambda f, v: f(frame).update(DataFrame(x=v)),
        }
        for mname, method in methods.items():
            if vname in ["object", "dict", "set", "frame", "array 2d", "array 2d one", "array 2d none", "array 0d", "ragged", "nested"] and mname in ["cbind", "update"]:
                continue
            if mname.startswith("modify") and "grouped" in fname:
                continue
            u = outcome(lambda: method(lambda d: d.copy().group_by(*d._group_colnames), make_values()[vname]))
            v = outcome(lambda: method(as_old, make_values()[vname]))
            if expect_fix and v == BROADCAST and u[0] == "value":
                single = DataFrameColumn(make_values()[vname])
                name = "z" if "z" in u[1] else "x"
                check(f"{fname} / {vname}: FIXED {mname}", single.nrow == 1 and u[1].nrow == 0 and same_array(u[1][name], single[:0]))
            else:
                check(f"{fname} / {vname}: {mname} {u[0]}", same_outcome(u, v, same_frame_any_class))

# The fix applies to exactly the single-element values on the zero-row frames.
fixed = set()
for vname in make_values():
    y = outcome(lambda: as_old(frames["zero rows"])._reconcile_column(make_values()[vname]))
    x = outcome(lambda: frames["zero rows"]._reconcile_column(make_values()[vname]))
    if y[0] == "error" and x[0] == "value":
        fixed.add(vname)
expected = {"int", "float", "nan", "str", "empty str", "none", "bool", "bytes", "date", "NaT", "np scalar", "list 1", "array 1",
            "vector 1", "column 1", "iterator 1",
            # Iterables of one element (a dict and a data frame iterate over their one key)
            "dict", "set", "frame"}
check(f"fixed values: {sorted(fixed)}", fixed == expected)

# 3. Grouped modify and the other users of DataFrameColumn(nrow=...) unaffected.
data = DataFrame(g=[1, 2, 2, 3, 3, 3])
check("grouped modify", data.group_by("g").modify(f=lambda x: 1 / x.nrow).f.tolist() == [1, 1/2, 1/2, 1/3, 1/3, 1/3])
check("grouped modify on zero rows", same_outcome(outcome(lambda: frames["zero rows"].copy().group_by("y").modify(f=lambda x: 1)),
                                                  outcome(lambda: as_old(frames["zero rows"]).group_by("y").modify(f=lambda x: 1)), same_frame_any_class))
check("constructor broadcast", DataFrame(x=[1, 2, 3], y=1).y.tolist() == [1, 1, 1])

print(f"{len(FAILURES)} failures")
sys.exit(1 if FAILURES else 0)
