import os, sys; sys.path.insert(0, os.getcwd())
import copy, io, contextlib, itertools, math
from attd import AttributeDict
from dataiter import ListOfDicts

# ListOfDicts.full_join: new shortcut for an empty right-hand list compared
# with (1) a verbatim copy of the old method and (2) a plain-Python expectation.

def old_full_join(self, other, *by):
    acounter = itertools.count(start=1)
    bcounter = itertools.count(start=1)
    a = self.deepcopy().modify(_aid_=lambda x: next(acounter))
    b = other.deepcopy().modify(_bid_=lambda x: next(bcounter))
    ab = a.deepcopy().left_join(b, *by)
    ab = ab.fill_missing_keys(_bid_=next(bcounter))
    b = b.anti_join(ab, "_bid_")
    if len(b) == 0:
        return ab.unselect("_aid_", "_bid_")
    by_reverse = [
        tuple(reversed(x)) if isinstance(x, (list, tuple))
        else x
        for x in by]
    ba = b.left_join(a, *by_reverse)
    for item in by:
        if isinstance(item, (list, tuple)):
            for x in ba:
                x[item[0]] = x.pop(item[1])
    ba = ba.fill_missing_keys(_aid_=next(acounter))
    return (ab + ba).sort(_aid_=1, _bid_=1).unselect("_aid_", "_bid_")

def outcome(f):
    out = io.StringIO()
    try:
        with contextlib.redirect_stdout(out):
            value = f()
        return ("ok", value, out.getvalue())
    except BaseException as e:
        return ("err", type(e), str(e), out.getvalue())

def same(a, b):
    # equal including types, key order and NaN positions
    if type(a) is not type(b): return False
    if isinstance(a, dict):
        return list(a) == list(b) and all(same(a[k], b[k]) for k in a)
    if isinstance(a, (list, tuple)):
        return len(a) == len(b) and all(map(same, a, b))
    if isinstance(a, float) and math.isnan(a): return math.isnan(b)
    return a == b

nan = float("nan")
class Obj:
    def __init__(self, v): self.v = v
    def __eq__(self, o): return isinstance(o, Obj) and o.v == self.v
    def __hash__(self): return hash(self.v)

lefts = {
    "empty": lambda: ListOfDicts([]),
    "one": lambda: ListOfDicts([{"id": 1, "x": "ä"}]),
    "plain": lambda: ListOfDicts({"id": i % 3, "x": [i, {"y": i}], "s": "ö€" * i} for i in range(6)),
    "dupes+None": lambda: ListOfDicts([{"id": None, "v": 1}, {"id": None, "v": 2}, {"id": 2**70, "v": nan},
                                       {"id": nan, "v": float("inf")}, {"id": -0.0, "v": None}, {"id": 0, "v": True}]),
    "has _aid_/_bid_": lambda: ListOfDicts([{"_bid_": 7, "id": 1, "_aid_": "q"}, {"id": 2, "_aid_": 5}, {"id": 3}]),
    "missing key": lambda: ListOfDicts([{"id": 1}, {"x": 2}]),
    "unhashable": lambda: ListOfDicts([{"id": [1]}, {"id": 2}]),
    "set id": lambda: ListOfDicts([{"id": {1}}]),
    "objects": lambda: ListOfDicts([{"id": Obj(1), "o": Obj(2)}, {"id": Obj(1), "o": None}]),
    "grouped": lambda: ListOfDicts([{"id": 1, "g": 1}, {"id": 2, "g": 1}]).group_by("g"),
    "two keys": lambda: ListOfDicts([{"id": 1, "k": "a"}, {"id": 1, "k": "b"}]),
}
rights = {
    "empty": lambda: ListOfDicts([]),
    "empty grouped": lambda: ListOfDicts([]).group_by("zz"),
    "plain list []": lambda: [],
    "tuple ()": lambda: (),
    "None": lambda: None,
    "nonempty": lambda: ListOfDicts([{"id": 1, "r": "x"}, {"id": 5, "r": "y"}, {"id": None, "r": nan}]),
    "nonempty rid": lambda: ListOfDicts([{"rid": 1, "r": "x", "k": "b"}, {"rid": 9, "r": "y", "k": "c"}]),
    "obsolete empty": "obsolete",
}
bys = [("id",), (("id", "rid"),), (), ("id", "k"), (["id", "rid"], "k"), ("nope",), (("id",),), (5,)]

def make_right(name):
    if rights[name] == "obsolete":
        r = ListOfDicts([{"id": 1}])
        r.modify(id=lambda x: 2)   # marks r obsolete
        list.clear(r)
        return r
    return rights[name]()

n = 0
for lname, rname, by in itertools.product(lefts, rights, bys):
    l1, r1 = lefts[lname](), make_right(rname)
    l2, r2 = lefts[lname](), make_right(rname)
    snap = copy.deepcopy([dict(x) for x in l2]) if "set" not in lname else None
    exp = outcome(lambda: old_full_join(l1, r1, *by))
    got = outcome(lambda: l2.full_join(r2, *by))
    assert exp[0] == got[0], (lname, rname, by, exp, got)
    if exp[0] == "err":
        assert exp[1:] == got[1:], (lname, rname, by, exp, got)
    else:
        assert type(got[1]) is ListOfDicts
        assert same(list(map(dict, exp[1])), list(map(dict, got[1]))), (lname, rname, by, exp, got)
        assert all(type(x) is AttributeDict for x in got[1])
        assert exp[2] == got[2], (exp[2], got[2])  # same warnings printed
        assert got[1]._group_keys == exp[1]._group_keys == l2._group_keys
        assert got[1] is not l2 and not got[1]._obsolete
        # deep copy: no dict and no nested container is shared with self
        for x in got[1]:
            assert not any(x is y for y in l2)
            for k, v in x.items():
                if isinstance(v, (list, dict, Obj)):
                    assert not any(v is y.get(k) for y in l2)
        if rname.startswith("empty"):
            # independent expectation: deep copy of self without _aid_/_bid_
            want = [{k: v for k, v in x.items() if k not in ("_aid_", "_bid_")} for x in l2]
            assert same(want, list(map(dict, got[1]))), (lname, rname, by)
    # arguments untouched and not marked obsolete
    assert l1._obsolete == l2._obsolete == False
    if snap is not None:
        assert same(snap, [dict(x) for x in l2])
    if isinstance(r1, ListOfDicts):
        assert r1._obsolete == r2._obsolete and r1._obsolete_warned == r2._obsolete_warned
    n += 1

# repeated calls and later mutation
l = lefts["plain"](); r = ListOfDicts([])
a = l.full_join(r, "id"); b = l.full_join(r, "id")
a[0].x.append("changed"); a[1]["new"] = 1; list.pop(a)
assert same(list(map(dict, b)), list(map(dict, lefts["plain"]())))
assert same(list(map(dict, l)), list(map(dict, lefts["plain"]())))
print("checked", n, "combinations: OK")
