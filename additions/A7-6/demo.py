import os, sys; sys.path.insert(0, os.getcwd())

# DataFrame.sort: early return for data frames of at most one row.
# Compare against the old implementation (copied verbatim into a subclass
# below) and against expectations built with plain Python, for frames of
# 0, 1 and more rows, all data types, both directions and error cases.

import decimal
import fractions
import numpy as np
import warnings
import dataiter as di

# NumPy warns about some of the odd values below, the same before and after.
warnings.simplefilter("ignore")

from dataiter import deco

class OldDataFrame(di.DataFrame):
    @deco.new_from_generator
    def sort(self, **colname_dir_pairs):
        def sort_key(colname, dir):
            if dir not in [1, -1]:
                raise ValueError("dir should be 1 or -1")
            column = self[colname]
            column = column._optimize_for_argsort()
            if column._is_string_fixed():
                column = column.copy()
                column[column.is_na()] = "￿"
            if dir > 0 and any((
                column._is_string_fixed(),
                column.is_boolean(),
                column.is_bytes(),
                column.is_datetime(),
                column.is_float(),
                column.is_integer(),
                column.is_timedelta(),
            )): return column
            if not column.is_number():
                column = column.rank(method="min")
            if dir > 0:
                return column
            if column.is_integer() and not column.is_timedelta():
                return ~column
            return -column
        indices = np.lexsort(tuple(
            sort_key(*x) for x in reversed(colname_dir_pairs.items())))
        for colname, column in self.items():
            yield colname, column[indices].copy()

def outcome(function):
    try:
        return function()
    except Exception as error:
        return (type(error), str(error))

def assert_same(new, old, context):
    if isinstance(old, tuple):
        assert new == old, (context, new, old)
        return
    assert isinstance(new, di.DataFrame), (context, new)
    assert new.colnames == old.colnames, (context, new.colnames, old.colnames)
    assert new.nrow == old.nrow, (context, new.nrow, old.nrow)
    assert new._group_colnames == old._group_colnames == ()
    for name in new.colnames:
        a, b = new[name], old[name]
        assert type(a) is type(b) is di.DataFrameColumn, (context, name)
        assert a.dtype == b.dtype, (context, name, a.dtype, b.dtype)
        assert a.shape == b.shape and a.flags.c_contiguous and a.flags.writeable
        assert a.flags.owndata == b.flags.owndata, (context, name)
        assert a.is_na().tolist() == b.is_na().tolist(), (context, name)
        assert repr(list(a)) == repr(list(b)), (context, name, a, b)

NAN = np.nan
OBJ = di.Vector.fast([None] * 4, object)
OBJ[0] = [1, 2]
OBJ[1] = {"a": 1}
OBJ[3] = np.float64("nan")
COLUMNS = {
    "int8": np.array([-128, 127, 0, 0], np.int8),
    "int64": np.array([-2**63, 2**63 - 1, 0, 0]),
    "uint8": np.array([255, 0, 1, 1], np.uint8),
    "uint64": np.array([2**64 - 1, 0, 2**63, 2**63], np.uint64),
    "float": np.array([NAN, 1.5, np.inf, -np.inf]),
    "float_na": np.array([NAN, NAN, NAN, NAN]),
    "float_zero": np.array([0.0, -0.0, NAN, 0.0]),
    "float32": np.array([0.1, NAN, 1, 1], np.float32),
    "float16": np.array([NAN, 1, 2, 2], np.float16),
    "longdouble": np.array([1, NAN, 2, 2], np.longdouble),
    "complex": np.array([1+2j, complex(NAN, 1), 3, 3]),
    "bool": np.array([True, False, False, True]),
    "bytes": np.array([b"", b"a", b"\xff", b"a"]),
    "fixed": np.array(["", "ä", "日本語", "ä"]),
    "string": di.Vector(["", "ä", "日本語", "ä"]),
    "string_na": di.Vector(["", "", "", ""]),
    "string_long": di.Vector(["x" * 60, "", "ä" * 50, "y" * 49]),
    "date": np.array(["NaT", "2020-01-01", "1970-01-01", "NaT"], "datetime64[D]"),
    "datetime_ns": np.array(["1970-01-01", "NaT", "2020-01-01T00:00:00.000000001", "NaT"], "datetime64[ns]"),
    "datetime_na": np.array(["NaT"] * 4, "datetime64[s]"),
    "timedelta": np.array(["NaT", 0, -5, 0], "timedelta64[s]"),
    "timedelta_na": np.array(["NaT"] * 4, "timedelta64[D]"),
    "object": OBJ,
    "object_na": di.Vector.fast([None] * 4, object),
    "void": np.array([b"ab", b"cd", b"ab", b"ab"], "V2"),
    "struct": np.array([(1, 2.0)] * 4, [("a", int), ("b", float)]),
    "items": np.arange(4),
}
DIRS = [1, -1, 0, 2, -2, "1", "a", None, True, False, 1.0, -1.0, 1.5, NAN, np.int64(-1), np.int8(1),
        np.float32(-1), np.bool_(True), complex(1), complex(-1, 0), complex(1, 1),
        decimal.Decimal(1), decimal.Decimal(-1), fractions.Fraction(-1), fractions.Fraction(1, 2),
        np.array(1), np.array([1]), np.array([-1]), np.array([1, 1]), np.array([]), [1], (1,), [], {}]

def compare(data, **pairs):
    new = outcome(lambda: di.DataFrame(data).sort(**pairs))
    old = outcome(lambda: OldDataFrame(data).sort(**pairs))
    assert_same(new, old, (data.colnames, data.nrow, pairs))
    if isinstance(new, di.DataFrame):
        for a in new.columns:
            for b in data.columns:
                assert not np.shares_memory(a, b)
    return new

full = di.DataFrame(COLUMNS)
assert full.nrow == 4
for rows in [[0], [1], [2], [3], [], [0, 1], [1, 1], [3, 2, 1, 0], [0, 1, 2, 3]]:
    data = full.slice(rows)
    compare(data) # no keys is an error
    compare(data.select("int8"))
    for name in COLUMNS:
        for dir in (1, -1):
            compare(data, **{name: dir})
            compare(data.select(name), **{name: dir})
            compare(data, **{name: dir, "int8": -dir})
            compare(data, **{"string": dir, name: dir, "float": -1})
            compare(data.select("int8", "string"), **{name: dir}) # KeyError
    for dir in DIRS:
        compare(data, int8=dir)
        compare(data, string=dir)
        compare(data, object=dir)
        compare(data, nope=dir)
        # The order in which errors are found.
        compare(data, int8=dir, nope=1)
        compare(data, nope=1, int8=dir)
        compare(data, int8=dir, float=0)
        compare(data, float=0, int8=dir)
        compare(data, int8=1, float=dir, string=-1)
        compare(data, nope=dir, nada=0)
for data in [di.DataFrame(), di.DataFrame(x=[]), di.DataFrame(x=1, y="a"), di.DataFrame(x=NAN), di.DataFrame(x=None)]:
    for dir in DIRS:
        compare(data)
        compare(data, x=dir)
        compare(data, y=dir)
        compare(data, x=1, y=dir)
        compare(data, y=dir, x=-1)

# Independent expectations.
simple = full.select("int8", "float", "string", "date", "bool", "object")
for i in range(4):
    one = simple.slice([i])
    for pairs in [dict(int8=1), dict(float=-1), dict(string=-1, date=1), dict(bool=-1, object=1, int8=1)]:
        result = one.sort(**pairs)
        assert result is not one
        # (An object NaN is not equal to itself.)
        assert result.unselect("object") == one.unselect("object")
        assert result.colnames == one.colnames and result.nrow == 1
        assert [x.dtype for x in result.columns] == [x.dtype for x in simple.columns]
        for name in one:
            assert result[name] is not one[name] and not np.shares_memory(result[name], one[name])
            assert repr(list(result[name])) == repr([list(simple[name])[i]])
none = simple.slice([])
result = none.sort(int8=1, string=-1)
assert result == none and result is not none and result.nrow == 0
assert result.colnames == simple.colnames
assert [x.dtype for x in result.columns] == [x.dtype for x in simple.columns]
for data in (none, simple.slice([1]), simple):
    for pairs, error in [(dict(), TypeError), (dict(nope=1), KeyError), (dict(int8=0), ValueError),
                         (dict(int8=2), ValueError), (dict(int8="1"), ValueError),
                         (dict(int8=1, nope=1), KeyError), (dict(nope=1, int8=0), ValueError),
                         (dict(nope=0, int8=1), ValueError), (dict(int8=complex(1)), TypeError)]:
        result = outcome(lambda: data.sort(**pairs))
        assert isinstance(result, tuple) and result[0] is error, (pairs, result)

# Still a fresh copy: mutating the result or the original afterwards does
# not show in the other, repeated calls give separate frames.
one = di.DataFrame(a=[1], b=["x"], c=[NAN])
first = one.sort(a=1)
second = one.sort(b=-1, c=1)
assert first == second and first.a is not second.a
first.a[0] = 100
first.b[0] = "changed"
first.d = 1
assert one.a.tolist() == [1] and one.b.tolist() == ["x"] and one.colnames == ["a", "b", "c"]
assert second.a.tolist() == [1]
one.a[0] = 7
assert second.a.tolist() == [1] and first.a.tolist() == [100]
assert one.sort(a=-1).a.tolist() == [7]
# Grouping is not carried over, as before.
assert one.group_by("a").sort(a=1)._group_colnames == ()
one.group_by()

# More rows right after: nothing is remembered.
two = one.rbind(di.DataFrame(a=[-8], b=["y"], c=[1.5]))
assert two.sort(a=1).a.tolist() == [-8, 7] and two.sort(a=-1).a.tolist() == [7, -8]
assert two.sort(c=1).a.tolist() == [-8, 7] and one.sort(a=1).a.tolist() == [7]

# Methods built on sort with frames of at most one row.
simple = simple.unselect("object")
for data in [simple.slice([0]), simple.slice([]), simple.slice([2])]:
    old = OldDataFrame(data)
    assert_same(data.count("int8", "string"), old.count("int8", "string"), "count")
    assert_same(data.copy().group_by("float").aggregate(n=di.count(), x=di.first("int8")),
                old.copy().group_by("float").aggregate(n=di.count(), x=di.first("int8")), "aggregate")
    # (Raises for no rows, as before.)
    assert_same(outcome(lambda: data.copy().group_by("float", "date").modify(n=lambda x: x.nrow)),
                outcome(lambda: old.copy().group_by("float", "date").modify(n=lambda x: x.nrow)), "modify")
    assert [x.tolist() for x in data.split("date")] == [x.tolist() for x in old.split("date")]
    assert [x.tolist() for x in data.split("date", "string")] == [x.tolist() for x in old.split("date", "string")]
    a, b = outcome(lambda: data.split()), outcome(lambda: old.split())
    assert a == b and a[0] is TypeError, (a, b)
    assert_same(data.full_join(simple, "int8"), old.full_join(OldDataFrame(simple), "int8"), "full_join")
    assert_same(data.full_join(data, "string"), old.full_join(old, "string"), "full_join")

print("OK")
