import os, sys; sys.path.insert(0, os.getcwd())
# Demo for change 5: DataFrame.unique turns the list of rows to keep into an
# integer array (dtype stated: an EMPTY list would become float64 otherwise)
# before indexing the columns. Results are unchanged for every frame.
import datetime, math
import numpy as np
import dataiter as di

FAILS = []
def check(label, ok):
    print(("ok   " if ok else "FAIL ") + label)
    if not ok: FAILS.append(label)

def exc_class(f):
    try:
        f()
    except BaseException as e:
        return type(e), str(e)
    return None, None

NA = "<NA>"
def norm(x):
    if x is None: return NA
    if isinstance(x, float) and math.isnan(x): return NA
    return x

def rows_of(data):
    cols = [[norm(x) for x in data[k].tolist()] for k in data.colnames]
    return [tuple(r) for r in zip(*cols)]

def expected_unique(data, by):
    # plain Python: first row of each distinct combination, missing == missing
    rows = rows_of(data)
    by = list(by) or data.colnames
    idx = [data.colnames.index(k) for k in by]
    seen, keep = set(), []
    for i, row in enumerate(rows):
        key = tuple(row[j] for j in idx)
        if key in seen: continue
        seen.add(key); keep.append(i)
    return [rows[i] for i in keep]

D = datetime.date
def frames():
    yield "ordinary", di.DataFrame(g=[1, 2, 1, 2, 3], s=["a", "b", "a", "c", "a"], x=[1.0, 2.0, 1.0, 2.0, 1.0])
    yield "nan/inf", di.DataFrame(g=[1, 1, 1, 1, 1, 1], s=["a", "a", "a", "a", "a", "a"], x=[np.nan, 0.0, np.nan, np.inf, -np.inf, np.inf])
    yield "all missing", di.DataFrame(g=[1, 1, 1], s=["", "", ""], x=[np.nan, np.nan, np.nan])
    yield "missing strings", di.DataFrame(g=[1, 1, 1], s=di.Vector(["a", None, None]), x=[1.0, 1.0, 1.0])
    yield "dates with NaT", di.DataFrame(g=[1, 1, 1, 1], s=["a", "a", "a", "a"], x=di.Vector([D(2020, 1, 1), None, None, D(2020, 1, 1)]))
    yield "timedeltas", di.DataFrame(g=[1, 1, 1], s=["a", "a", "a"], x=di.Vector([np.timedelta64(1, "D"), np.timedelta64("NaT"), np.timedelta64(1, "D")]))
    yield "bool", di.DataFrame(g=[True, False, True], s=["a", "a", "a"], x=[1.0, 1.0, 1.0])
    yield "objects", di.DataFrame(g=[1, 1, 2], s=["a", "a", "a"], x=di.Vector([(1, 2), (1, 2), None], object))
    yield "one row", di.DataFrame(g=[5], s=["q"], x=[np.nan])
    yield "all same", di.DataFrame(g=[5] * 10, s=["q"] * 10, x=[0.5] * 10)
    yield "all different", di.DataFrame(g=list(range(10)), s=list("abcdefghij"), x=[i / 2 for i in range(10)])
    yield "zero rows", di.DataFrame(g=di.Vector([], int), s=di.Vector([], str), x=di.Vector([], float))
    yield "zero rows (dates)", di.DataFrame(g=di.Vector([], bool), s=di.Vector([], object), x=di.Vector([], "datetime64[D]"))

for label, data in frames():
    before = rows_of(data)
    dtypes = {k: data[k].dtype for k in data.colnames}
    for group in (False, True):
        frame = data.copy().group_by("g") if group else data
        for by in ((), ("g",), ("s",), ("x",), ("g", "s"), ("x", "g"), ("g", "s", "x"), ("g", "g")):
            got = frame.unique(*by)
            exp = expected_unique(data, by)
            check(f"{label} group={group} unique{by}: rows", rows_of(got) == exp and got.nrow == len(exp))
            check(f"{label} group={group} unique{by}: names, dtypes, class, grouping, no aliasing",
                  got.colnames == data.colnames and type(got) is di.DataFrame and
                  all(got[k].dtype == dtypes[k] for k in dtypes) and
                  all(isinstance(got[k], di.DataFrameColumn) and got[k].ndim == 1 and got[k].flags.c_contiguous and got[k].flags.owndata is not None for k in dtypes) and
                  got._group_colnames == () and
                  all(dict.__getitem__(got, k) is not dict.__getitem__(frame, k) and
                      (data.nrow == 0 or not np.shares_memory(got[k], data[k]) or data[k].is_string() or data[k].is_object()) for k in dtypes))
            again = frame.unique(*by)
            check(f"{label} group={group} unique{by}: repeatable", rows_of(again) == exp)
        check(f"{label} group={group}: input untouched", rows_of(frame) == before and all(frame[k].dtype == dtypes[k] for k in dtypes) and frame._group_colnames == (("g",) if group else ()))
    # writing into the result must not write into the input
    if data.nrow:
        got = data.unique("g")
        got.g[0] = got.g[0] ^ True if got.g.dtype == bool else got.g[0] + 100
        check(f"{label}: result is a copy", rows_of(data) == before)

# frames without columns
check("no columns: unique()", di.DataFrame().unique().colnames == [] and di.DataFrame().unique().nrow == 0)
check("no columns: unique('x') -> KeyError", exc_class(lambda: di.DataFrame().unique("x"))[0] is KeyError)
# failures as before
data = di.DataFrame(g=[1, 2], x=di.Vector([{"a": 1}, {"a": 1}], object))
check("unknown column -> KeyError", exc_class(lambda: data.unique("nope"))[0] is KeyError)
check("unhashable values -> TypeError", exc_class(lambda: data.unique("x"))[0] is TypeError)
check("unhashable values not looked at when not in by", data.unique("g").nrow == 2)
empty = di.DataFrame(g=di.Vector([], int), x=di.Vector([], object))
check("zero rows, object column", empty.unique("x").nrow == 0 and empty.unique("x").x.dtype == object)

# the callers
data = di.DataFrame(g=[2, 1, 2, 1], x=[1.0, 2.0, 3.0, np.nan])
check("aggregate", rows_of(data.group_by("g").aggregate(n=di.count(), x=di.sum("x"))) == [(1, 2, 2.0), (2, 2, 4.0)])
zero = di.DataFrame(g=di.Vector([], int), x=di.Vector([], float))
stat = zero.group_by("g").aggregate(n=di.count())
check("aggregate of zero rows", stat.nrow == 0 and stat.colnames == ["g", "n"] and stat.g.dtype == np.dtype(int))
check("split", [x.tolist() for x in data.split("g")] == [[1, 3], [0, 2]])
check("split of zero rows", [x.tolist() for x in zero.split("g")] == [[]])
other = di.DataFrame(g=[1, 1, 3], y=["p", "q", "r"])
check("left_join (first match)", rows_of(data.left_join(other, "g")) == [(2, 1.0, NA), (1, 2.0, "p"), (2, 3.0, NA), (1, NA, "p")])
check("left_join with an empty other", rows_of(data.left_join(other.filter(other.g > 5), "g")) == [(2, 1.0, NA), (1, 2.0, NA), (2, 3.0, NA), (1, NA, NA)])
check("anti_join", rows_of(data.anti_join(other, "g")) == [(2, 1.0), (2, 3.0)])
check("compare raises on duplicates", exc_class(lambda: data.compare(data, "g"))[0] is ValueError)

print("FAILURES:", FAILS)
sys.exit(1 if FAILS else 0)
