import os, sys; sys.path.insert(0, os.getcwd())
import numpy as np
from dataiter import Vector

def old_drop_na(v):
    # The original implementation, verbatim.
    return v[~v.is_na()].copy()

def same(a, b, src):
    assert type(a) is type(b), (type(a), type(b))
    assert a.dtype == b.dtype and a.dtype.byteorder == b.dtype.byteorder, (a.dtype, b.dtype)
    assert a.shape == b.shape and a.strides == b.strides, (a.shape, b.shape)
    assert a.tobytes() == b.tobytes()
    for r in (a, b):
        # A fresh, writable copy that owns its data and carries no cached proxies.
        assert r.base is None and r.flags.owndata and r.flags.writeable
        assert r.flags.c_contiguous
        assert not np.shares_memory(r, src)
        assert not vars(r), vars(r)

cases = []
ints = [0, 1, -1, 5, 5, 3]
for dt in [np.int8, np.int16, np.int32, np.int64]:
    info = np.iinfo(dt)
    cases.append(Vector.fast(ints + [info.min, info.max], dt))
for dt in [np.uint8, np.uint16, np.uint32, np.uint64]:
    info = np.iinfo(dt)
    cases.append(Vector.fast([0, 1, 5, 5, info.max], dt))
cases.append(Vector.fast([True, False, True], bool))
cases.append(Vector.fast([1, 2, 3], ">i4"))    # non-native byte order
cases.append(Vector.fast([1, 2, 3], "<u2"))
cases.append(Vector.fast([], int))             # empty
cases.append(Vector.fast([], bool))
cases.append(Vector.fast([], np.uint8))
cases.append(Vector.fast([7], int))            # single element
cases.append(Vector(np.arange(20))[::2])       # strided view
cases.append(Vector(np.arange(20))[::-1])      # negative stride
ro = Vector(np.arange(5)); ro.flags.writeable = False
cases.append(ro)                               # read-only source
# Types that CAN hold missing values must still go through is_na.
cases.append(Vector([1.5, None, np.inf, -np.inf, None]))
cases.append(Vector.fast([1, "NaT", 3], "timedelta64[s]"))   # is_integer() is true for this!
cases.append(Vector.fast(["2020-01-01", "NaT"], "datetime64[D]"))
cases.append(Vector(["a", "", "ö", None]))
cases.append(Vector([True, None, False]))      # object
cases.append(Vector.fast([1 + 2j, complex("nan")], complex))
cases.append(Vector.fast([b"a", b""], bytes))
cases.append(Vector.fast(["a", ""], "U1"))

for v in cases:
    v.str, v.dt, v.re                          # create cached proxy attributes on the source
    before = v.tobytes() if not v.is_object() else None
    new, old = v.drop_na(), old_drop_na(v)
    if v.is_object():
        assert new.tolist() == old.tolist() and new.dtype == old.dtype
    else:
        same(new, old, v)
        assert v.tobytes() == before           # source untouched
    # Independent expectation in plain Python.
    expected = [x for x in v.tolist() if x is not None]
    if not v.dtype.kind == "c":
        assert new.tolist() == expected, (new.tolist(), expected)
    # Later mutation of the result must not reach the source, nor vice versa.
    if new.length > 0 and v.dtype.kind in "biu":
        keep = v.tolist()
        new[0] = 1 - int(new[0]) if v.dtype.kind == "b" else 1
        assert v.tolist() == keep
        again = v.drop_na()
        assert again.tolist() == keep          # repeated call unaffected

# timedelta64 with NaT really is dropped (i.e. the fast path is not taken).
td = Vector.fast([1, "NaT", 3], "timedelta64[s]")
assert td.is_integer() and td.drop_na().length == 2

# Wrong dimensions behave as before (no fast path): same result or same exception.
for bad in [np.arange(6).reshape(2, 3).view(Vector), np.array(5).view(Vector)]:
    def run(f):
        try: return ("ok", f(bad).tolist())
        except Exception as e: return (type(e).__name__, str(e))
    assert run(lambda v: v.drop_na()) == run(old_drop_na), (run(lambda v: v.drop_na()), run(old_drop_na))

print("OK")
