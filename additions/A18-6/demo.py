import os, sys; sys.path.insert(0, os.getcwd())
import datetime
import gzip
import json
import shutil
import tempfile
import numpy as np

from attd import AttributeDict
from dataiter import GeoJSON

HERE = os.path.dirname(os.path.abspath(__file__))
tmpdir = tempfile.mkdtemp(dir=HERE)

MISSING = object()

def tag(x):
    return f"<{type(x).__name__}>"

def outcome(function, *args, **kwargs):
    try:
        return ("ok", function(*args, **kwargs))
    except Exception as error:
        return ("error", type(error), str(error))

def read(path):
    opener = gzip.open if path.endswith(".gz") else open
    with opener(path, "rt", encoding="utf-8", newline="") as f:
        return f.read()

# Independent expectation built from plain rows: default=str,
# ensure_ascii=False, indent=2 unless the caller says otherwise; the caller's
# value always wins; None / 0 / "" / False indents all mean no indentation;
# "indent" is never passed on to json.dumps, everything else goes to the
# metadata values and the features alike, ensure_ascii also to the metadata keys.
def expected_text(metadata, rows, **kwargs):
    default = kwargs.pop("default", MISSING)
    ensure_ascii = kwargs.pop("ensure_ascii", MISSING)
    indent = kwargs.pop("indent", MISSING)
    kwargs["default"] = str if default is MISSING else default
    kwargs["ensure_ascii"] = False if ensure_ascii is MISSING else ensure_ascii
    indent = 2 if indent is MISSING else indent
    width = indent if indent else 0
    pad1, pad2 = " " * width, " " * width * 2
    lines = ["{"]
    for key, value in metadata.items():
        name = json.dumps(key, ensure_ascii=kwargs["ensure_ascii"])
        lines.append(f"{pad1}{name}: {json.dumps(value, **kwargs)},")
    lines.append(f'{pad1}"features": [')
    for i, row in enumerate(rows):
        row = dict(row)
        geometry = row.pop("geometry")
        blob = json.dumps({"type": "Feature", "properties": row, "geometry": geometry}, **kwargs)
        lines.append(pad2 + blob + ("," if i < len(rows) - 1 else ""))
    lines.append(f"{pad1}]")
    lines.append("}")
    return "\n".join(lines) + "\n"

def point(x, y):
    return {"type": "Point", "coordinates": [x, y]}

def make(columns, metadata):
    data = GeoJSON(**{k: list(v) for k, v in columns.items()})
    if metadata is not None:
        data.metadata = AttributeDict(metadata)
    return data

DATA = {
    "ordinary": (
        {"name": ["a", "b"], "n": [1, 2], "geometry": [point(0, 0), point(1, 1)]},
        None),
    "non-ascii": (
        {"nimi": ["Töölö", "東京"], "geometry": [point(24.9, 60.2), None]},
        {"type": "FeatureCollection", "näme": "täst", "crs": {"ö": ["å", None, 1.5]}}),
    "missing": (
        {"s": ["a", None, ""], "f": [1.5, float("nan"), float("inf")], "o": [None, None, None],
         "b": [True, False, True], "geometry": [None, point(0, 0), None]},
        {"type": "FeatureCollection", "bbox": None, "z": "", "a": 0}),
    "dates": (
        {"d": [datetime.date(2020, 1, 1), datetime.date(2021, 2, 3)],
         "geometry": [point(0, 0), point(1, 1)]},
        {"type": "FeatureCollection", "when": datetime.date(1999, 12, 31), "who": {1, }}),
    "integers": (
        {"i": [2**63 - 1, -2**63], "u": np.array([0, 2**64 - 1], np.uint64),
         "geometry": [point(0, 0), point(1, 1)]},
        {"type": "FeatureCollection", "big": 2**70}),
    "one": ({"x": [1], "geometry": [point(0, 0)]}, {}),
    "only-geometry": ({"geometry": [point(0, 0), point(1, 1), point(2, 2)]}, None),
    "empty": ({"x": [], "geometry": []}, None),
}

KWARGS = [
    {},
    {"indent": None}, {"indent": 0}, {"indent": 1}, {"indent": 4}, {"indent": ""}, {"indent": False},
    {"indent": True}, {"indent": 2.0}, {"indent": 0.0}, {"indent": "\t"}, {"indent": "  "}, {"indent": -1},
    {"ensure_ascii": True}, {"ensure_ascii": False}, {"ensure_ascii": 0}, {"ensure_ascii": None}, {"ensure_ascii": 1},
    {"default": None}, {"default": tag}, {"default": str},
    {"sort_keys": True}, {"separators": (",", ":")}, {"allow_nan": False},
    {"indent": None, "ensure_ascii": True, "default": tag, "sort_keys": True},
    {"nonsense": 1}, {"indent": 3, "nonsense": None},
]

n = 0
for label, (columns, metadata) in DATA.items():
    for kwargs in KWARGS:
        for ext in [".geojson", ".geojson.gz"]:
            n += 1
            data = make(columns, metadata)
            rows = [dict(x) for x in data.to_list_of_dicts()]
            meta = dict(data.metadata)
            path = os.path.join(tmpdir, f"sub{n}", f"{label}{ext}")
            passed = dict(kwargs)
            want = outcome(expected_text, meta, rows, **kwargs)
            got = outcome(data.write, path, **passed)
            # The caller's own dict is never touched.
            assert passed == kwargs and list(passed) == list(kwargs)
            if want[0] == "ok":
                assert got == ("ok", None), (label, kwargs, got)
                assert read(path) == want[1], (label, kwargs, read(path), want[1])
                # Again with the same object: same file, data left alone.
                data.write(path, **passed)
                assert read(path) == want[1]
                # And a plain call afterwards still uses the defaults.
                data.write(path)
                assert read(path) == expected_text(meta, rows)
            else:
                assert got[:2] == want[:2], (label, kwargs, got, want)
            assert dict(data.metadata) == meta
            assert repr([dict(x) for x in data.to_list_of_dicts()]) == repr(rows)
            assert "geometry" in data

# No geometry: ValueError before anything is created, whatever the options.
for kwargs in [{}, {"indent": None}, {"nonsense": 1}]:
    data = GeoJSON(x=[1, 2])
    path = os.path.join(tmpdir, "nodir", "nogeom.geojson")
    got = outcome(data.write, path, **kwargs)
    assert got == ("error", ValueError, "Geometry missing"), got
    assert not os.path.exists(os.path.dirname(path))

# Bad indent: TypeError before the file is created.
for indent in ["\t", "  ", 2.0, [1]]:
    data = make(*DATA["ordinary"])
    path = os.path.join(tmpdir, "nodir2", "x.geojson")
    assert outcome(data.write, path, indent=indent)[:2] == ("error", TypeError)
    assert not os.path.exists(os.path.dirname(path))

# Bad option for json.dumps: TypeError after "{" has been written.
data = make(*DATA["ordinary"])
path = os.path.join(tmpdir, "nonsense.geojson")
assert outcome(data.write, path, nonsense=1)[:2] == ("error", TypeError)
assert read(path) == "{\n"

# Other encoding.
path = os.path.join(tmpdir, "latin.geojson")
make({"å": ["ö"], "geometry": [None]}, {}).write(path, encoding="latin-1", indent=0)
assert open(path, "rb").read() == (
    '{\n"features": [\n{"type": "Feature", "properties": {"å": "ö"}, "geometry": null}\n]\n}\n'.encode("latin-1"))

# Round trip of the shipped file.
data = GeoJSON.read("data/neighbourhoods.geojson")
path = os.path.join(tmpdir, "hoods.geojson")
data.write(path)
back = GeoJSON.read(path)
assert back.colnames == data.colnames and back.nrow == data.nrow
assert back.metadata == data.metadata
assert back.neighbourhood.tolist() == data.neighbourhood.tolist()
assert back.geometry.tolist() == data.geometry.tolist()

shutil.rmtree(tmpdir)
print("OK")
