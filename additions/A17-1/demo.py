import os, sys; sys.path.insert(0, os.getcwd())

# Change 1: aggregate.yield_groups finds the group boundaries with one
# whole-array comparison (np.flatnonzero) instead of a Python loop over rows.
# The demo compares it with a verbatim copy of the old loop and checks the
# public group-wise aggregations against values built with plain Python.

import datetime
import math
import numpy as np
import dataiter as di
from dataiter import aggregate, Vector, DataFrameColumn

failures = []
def check(ok, what):
    if not ok:
        failures.append(what)
        print("MISMATCH:", what)

def old_yield_groups(x, group, drop_na):
    i = 0
    n = len(x)
    for j in range(1, n + 1):
        if j < n and group[j] == group[i]: continue
        xij = x[i:j]
        if drop_na:
            xij = xij[~xij.is_na()]
        yield xij
        i = j

def same_vector(a, b):
    if type(a) is not type(b): return False
    if a.dtype != b.dtype: return False
    if a.shape != b.shape: return False
    la, lb = list(a), list(b)
    for p, q in zip(la, lb):
        if p is q: continue
        try:
            if p != p and q != q: continue # NaN / NaT
        except Exception:
            pass
        if isinstance(p, np.ndarray) or isinstance(q, np.ndarray):
            if not np.array_equal(p, q): return False
            continue
        if type(p) is not type(q) or p != q: return False
    return True

def compare(x, group, label):
    for drop_na in (False, True, 0, 1):
        old = list(old_yield_groups(x, group, drop_na))
        new = list(aggregate.yield_groups(x, group, drop_na))
        check(len(old) == len(new), f"{label}: number of groups {len(old)} != {len(new)}")
        for a, b in zip(old, new):
            check(same_vector(a, b), f"{label} drop_na={drop_na}: {a!r} != {b!r}")
            # Aliasing: without drop_na a group is a view of x, with it a fresh copy.
            check(np.shares_memory(a, x) == np.shares_memory(b, x), f"{label}: aliasing")
            check(a.flags.owndata == b.flags.owndata, f"{label}: owndata")

rng = np.random.default_rng(1)
NAN, INF = float("nan"), float("inf")

xs = {
    "empty float": Vector([], float),
    "empty string": Vector([], str),
    "one": Vector([5]),
    "int": Vector([3, 1, 1, 2, 2, 9, 9, 9]),
    "float nan inf": Vector([1.5, NAN, INF, -INF, NAN, NAN, 0.0, -0.0]),
    "all nan": Vector([NAN] * 6),
    "uint64": Vector.fast(np.array([0, 2**64 - 1, 2**63, 1, 1, 7], np.uint64)),
    "int64 extreme": Vector.fast(np.array([-2**63, 2**63 - 1, 0, 0, -1, 1], np.int64)),
    "int8": Vector.fast(np.array([-128, 127, 0, 0, 5, 5], np.int8)),
    "bool": Vector([True, False, True, True, False, False]),
    "string": Vector(["a", "", "ä", "日本語", "", "a"]),
    "all blank": Vector(["", "", "", ""]),
    "date": Vector(["2020-01-01", None, "1999-12-31", "NaT", "2020-01-01"]).as_date(),
    "datetime": Vector([datetime.datetime(2020, 1, 1, 12), None, datetime.datetime(1970, 1, 1)]),
    "timedelta": Vector.fast(np.array([1, "NaT", 3, 3], "timedelta64[s]")),
    "object": Vector([None, 1, "a", None, (1, 2), None], object),
    "all none": Vector([None, None, None], object),
    "column": DataFrameColumn([1.0, NAN, 3.0, 3.0, NAN]),
}

def group_variants(n):
    if n == 0:
        yield "empty", Vector([], int)
        yield "empty list", []
        return
    yield "all same", Vector.fast(np.zeros(n, int))
    yield "all different", Vector.fast(np.arange(n))
    yield "pairs", Vector.fast(np.arange(n) // 2)
    yield "first alone", Vector.fast((np.arange(n) > 0).astype(int))
    yield "last alone", Vector.fast((np.arange(n) == n - 1).astype(int))
    yield "unsorted ids", Vector.fast((np.arange(n) // 2) % 2 * -7)
    yield "uint64 ids", Vector.fast((np.arange(n) // 3).astype(np.uint64) + np.uint64(2**64 - 5))
    yield "float ids", Vector.fast((np.arange(n) // 2).astype(float))
    yield "nan ids", Vector.fast(np.where(np.arange(n) % 3 == 0, np.nan, 1.0))
    yield "string ids", Vector(["ä" if i < n // 2 else "" for i in range(n)])
    yield "object ids", Vector([None if i < n // 2 else "b" for i in range(n)], object)
    yield "date ids", Vector.fast((np.arange(n) // 2).astype("datetime64[D]"))
    yield "column ids", DataFrameColumn.fast(np.arange(n) // 2)
    yield "ndarray ids", np.arange(n) // 2
    yield "list ids", (np.arange(n) // 2).tolist()
    yield "longer than x", Vector.fast(np.arange(n + 3) // 2)
    for k in range(3):
        yield f"random {k}", Vector.fast(np.sort(rng.integers(0, 3, n)))

for xname, x in xs.items():
    for gname, group in group_variants(len(x)):
        compare(x, group, f"{xname} / {gname}")

# Large random comparison.
for k in range(20):
    n = int(rng.integers(0, 60))
    x = Vector.fast(rng.choice([1.0, 2.0, NAN, INF], n))
    group = Vector.fast(np.sort(rng.integers(0, 8, n)))
    compare(x, group, f"random float {k}")

# Laziness: it is still a generator and nothing is evaluated before iteration.
g = aggregate.yield_groups(Vector([1, 2, 3]), Vector([0, 0, 1]), False)
check(type(g).__name__ == "generator", "is a generator")
check(list(aggregate.yield_groups(Vector([], float), Vector([], int), True)) == [], "empty yields nothing")

# The arguments are not modified.
x = Vector([1.0, NAN, 3.0, 4.0])
group = Vector([0, 0, 1, 1])
x0, g0 = x.copy(), group.copy()
out = list(aggregate.yield_groups(x, group, True))
check(x.equal(x0) and group.equal(g0) and type(group) is Vector, "arguments unchanged")
out[0][0] = 100 # fresh copy with drop_na
check(x.equal(x0), "drop_na result is a fresh copy")
out = list(aggregate.yield_groups(x, group, False))
out[1][0] = 100 # a view without drop_na, like before
check(x[2] == 100, "result without drop_na is a view")

# Public API, expected values built with plain Python.
def expected_groups(keys, values):
    order = sorted(set(keys))
    return order, [[v for k, v in zip(keys, values) if k == u] for u in order]

def close(a, b):
    if a is None or b is None: return a is b
    if isinstance(a, float) and isinstance(b, float) and math.isnan(a) and math.isnan(b): return True
    return a == b

for use_numba in (False, di.USE_NUMBA):
    saved = di.USE_NUMBA
    di.USE_NUMBA = use_numba
    try:
        keys = [3, 1, 2, 1, 3, 3, 2, 1, 7]
        vals = [1.0, NAN, 2.5, 4.0, INF, NAN, NAN, 0.5, NAN]
        strs = ["a", "", "ä", "ä", "a", "", "", "日本語", ""]
        objs = [None, 1, "x", None, 2.5, None, None, 2, None]
        fins = [1.0, NAN, 2.5, 4.0, -3.0, NAN, NAN, 0.5, NAN]
        data = di.DataFrame(g=keys, x=vals, y=fins, s=strs)
        data.o = Vector(objs, object)
        stat = data.group_by("g").aggregate(
            n=di.count(),
            nx=di.count("x", drop_na=True),
            sx=di.sum("x"),
            mx=di.max("x"),
            fx=di.first("x", drop_na=True),
            lx=di.last("x"),
            us=di.count_unique("s"),
            usd=di.count_unique("s", drop_na=True),
            fs=di.first("s", drop_na=True),
            ms=di.mode("s"),
            no=di.count("o", drop_na=True),
            fo=di.first("o", drop_na=True),
            qx=di.quantile("y", 0.5),
            sd=di.std("y", ddof=1))
        order, gx = expected_groups(keys, vals)
        _, gs = expected_groups(keys, strs)
        _, go = expected_groups(keys, objs)
        nn = lambda seq: [v for v in seq if not (isinstance(v, float) and math.isnan(v))]
        check(stat.g.tolist() == order, "keys")
        check(stat.n.tolist() == [len(v) for v in gx], "count")
        check(stat.nx.tolist() == [len(nn(v)) for v in gx], "count drop_na")
        check(all(close(a, float(sum(nn(v)))) for a, v in zip(stat.sx.tolist(), gx)), "sum")
        check(all(close(a, max(nn(v)) if nn(v) else None) for a, v in zip(stat.mx.tolist(), gx)), "max")
        if not use_numba:
            # (The Numba kernels, which do not use yield_groups, are not checked here.)
            check(all(close(a, nn(v)[0] if nn(v) else None) for a, v in zip(stat.fx.tolist(), gx)), "first drop_na")
            check(all(close(a, None if math.isnan(v[-1]) else v[-1]) for a, v in zip(stat.lx.tolist(), gx)), "last")
        check(stat.us.tolist() == [len(set(v)) for v in gs], "count_unique")
        check(stat.usd.tolist() == [len(set(v) - {""}) for v in gs], "count_unique drop_na")
        check(stat.fs.tolist() == [([w for w in v if w] or [None])[0] for v in gs], "first string drop_na")
        check(stat.no.tolist() == [len([w for w in v if w is not None]) for v in go], "count object drop_na")
        check(stat.fo.tolist() == [([w for w in v if w is not None] or [None])[0] for v in go], "first object drop_na")
        check(stat.n.dtype == np.int64 and stat.sx.dtype == np.float64 and stat.fs.is_string(), "dtypes")
        _, gy = expected_groups(keys, fins)
        med = [float(np.median(nn(v))) if nn(v) else None for v in gy]
        check(all(close(a, b) for a, b in zip(stat.qx.tolist(), med)), "quantile")
        sd = [float(np.std(nn(v), ddof=1)) if len(nn(v)) >= 2 else None for v in gy]
        check(all(close(a, b) for a, b in zip(stat.sd.tolist(), sd)), "std")
        # Empty data frame: no groups at all.
        empty = di.DataFrame(g=Vector([], int), x=Vector([], float))
        stat = empty.group_by("g").aggregate(n=di.count(), m=di.mean("x"))
        check(stat.nrow == 0, "empty data frame")
        # One group only.
        stat = di.DataFrame(g=[5] * 9, x=vals).group_by("g").aggregate(n=di.count(), s=di.sum("x"))
        check(stat.n.tolist() == [9] and stat.s.tolist() == [float("inf")], "one group")
    finally:
        di.USE_NUMBA = saved

print("failures:", len(failures))
sys.exit(1 if failures else 0)
