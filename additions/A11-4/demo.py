import os, sys; sys.path.insert(0, os.getcwd())

# Change 4: Vector.unique asserts that the indices from np.unique are a Vector.
# Expected values: first appearances, found with a plain Python loop.

import datetime
import math
import numpy as np
import dataiter as di

from dataiter import Vector

NaN = float("nan")
D1, D2, D3 = [datetime.date(2020, 1, i) for i in (1, 2, 3)]
problems = []

def is_missing(value):
    return (value is None or value == "" or
            (isinstance(value, float) and math.isnan(value)))

def first_appearances(values):
    # Missing values count as one value.
    out, seen, seen_missing = [], [], False
    for value in values:
        if is_missing(value):
            if not seen_missing:
                out.append(value)
            seen_missing = True
        elif value not in seen:
            seen.append(value)
            out.append(value)
    return out

CASES = [
    ([], None), ([], int), ([], float), ([], bool), ([], str), ([], object),
    ([], "datetime64[D]"), ([], "datetime64[us]"), ([], "timedelta64[s]"),
    ([7], int), ([NaN], float), ([""], str), ([None], "datetime64[D]"), ([None], object),
    ([3, 1, 1, 1, 2, 2, 3], int),
    ([0, -1, 1, -1, 0], int),
    ([3.5, NaN, 1.0, 1.0, NaN, -math.inf, math.inf, math.inf, -0.0, 0.0], float),
    ([NaN, NaN, NaN], float),
    ([True, False, True, True], bool),
    ([False], bool),
    (["b", "a", "", "b", "c", "", "a"], str),
    (["", "", ""], str),
    (["x" * 60, "a", "", "x" * 60, "x" * 59], str),   # too long for the U-conversion
    (["x" * 49, "x" * 49, "y"], str),                 # just short enough for it
    (["ä", "a", "ä", "€"], str),
    ([D2, None, D1, D2, D3, None], "datetime64[D]"),
    ([None, None], "datetime64[D]"),
    (["b", "a", "b"], object),
    ([(1, 2), (1, 2), (0,)], object),
    ([b"b", b"a", b"b"], None),
    ([1 + 1j, 1 + 1j, 0j], None),
]

for values, dtype in CASES:
    vector = Vector(values, dtype)
    before = vector.copy()
    for repeat in range(2):
        got = vector.unique()
        expected = first_appearances(values)
        # -0.0 and 0.0 are equal: the first one stands for both.
        expected_vector = Vector(expected, vector.dtype) if expected else vector[:0]
        label = f"unique({values!r}, {dtype!r})"
        if type(got) is not Vector or got.ndim != 1 or got.dtype != vector.dtype:
            problems.append(f"{label}: {type(got).__name__} {got.ndim} {got.dtype}")
        elif not got.equal(expected_vector):
            problems.append(f"{label}: got {got!r}, expected {expected_vector!r}")
        elif repr(got.tolist()) != repr(expected_vector.tolist()):
            problems.append(f"{label}: got {got.tolist()!r}")
        if np.shares_memory(got, vector) and got.length > 0 and not got.is_object():
            problems.append(f"{label}: result shares memory with the input")
    if not (vector.equal(before) and vector.dtype == before.dtype):
        problems.append(f"input changed: {values!r}")

# The result is a copy: writing to it leaves the input alone.
vector = Vector([2, 1, 2])
result = vector.unique()
result[0] = 99
if vector.tolist() != [2, 1, 2]:
    problems.append("result aliases input")

# Other integer and float widths, fixed-width strings, timedelta with NaT.
for array, expected in [
    (np.array([2, 2, 1], np.int8), [2, 1]),
    (np.array([2, 2, 1], np.uint64), [2, 1]),
    (np.array([2.5, 2.5, 1], np.float32), [2.5, 1.0]),
    (np.array(["b", "a", "b"]).astype("U1"), ["b", "a"]),
    (np.array([5, "NaT", 5, "NaT"], "timedelta64[s]"), [datetime.timedelta(seconds=5), None]),
]:
    vector = array.view(Vector)
    got = vector.unique()
    if not (type(got) is Vector and got.dtype == array.dtype and got.tolist() == expected):
        problems.append(f"unique({array!r}): {got!r}")

# Objects that cannot be ordered: TypeError from np.unique, as before.
for values in [["a", 1], ["a", None, "b"], [None, 1]]:
    try:
        Vector(values, object).unique()
    except TypeError:
        pass
    except Exception as error:
        problems.append(f"unique({values!r}): {type(error).__name__}")
    else:
        problems.append(f"unique({values!r}) did not raise")

# Through the frame: unique rows keep the first of each.
data = di.DataFrame(g=[2, 1, 2, 1, 3], x=["a", "b", "a", "c", ""])
if data.unique("g").x.tolist() != ["a", "b", None]:
    problems.append(f"DataFrame.unique: {data.unique('g').x.tolist()!r}")
if di.DataFrame(g=Vector([], int)).unique("g").nrow != 0:
    problems.append("DataFrame.unique on zero rows")

for problem in problems:
    print("PROBLEM:", problem)
print("OK" if not problems else f"{len(problems)} problems")
sys.exit(1 if problems else 0)
