import os, sys; sys.path.insert(0, os.getcwd())

# DataFrame.from_json: fast path for columns of plain integers.
# Compare against the old implementation (copied verbatim into a subclass
# below) and against expectations built with plain Python and NumPy.

import enum
import itertools
import json
import numpy as np
import dataiter as di

from dataiter import util
from dataiter import DataFrameColumn

class OldDataFrame(di.DataFrame):
    @classmethod
    def from_json(cls, string, *, columns=[], dtypes={}, **kwargs):
        data = string
        if isinstance(data, str):
            data = json.loads(data, **kwargs)
        if not isinstance(data, list):
            raise TypeError("Not a list")
        keys = util.unique_keys(itertools.chain(*data))
        if columns:
            keys = [x for x in keys if x in columns]
        data = {k: [x.get(k, None) for x in data] for k in keys}
        for name, dtype in dtypes.items():
            data[name] = DataFrameColumn(data[name], dtype)
        return cls(**data)

def outcome(function):
    try:
        return function()
    except Exception as error:
        return (type(error), str(error))

def assert_same(new, old, context):
    if isinstance(old, tuple):
        assert new == old, (context, new, old)
        return
    assert type(new) is di.DataFrame, (context, new)
    assert new.colnames == old.colnames, (context, new.colnames, old.colnames)
    assert new.nrow == old.nrow, context
    for name in new.colnames:
        a, b = new[name], old[name]
        assert type(a) is type(b) is DataFrameColumn, (context, name)
        assert a.dtype == b.dtype, (context, name, a.dtype, b.dtype)
        assert a.ndim == 1 and a.flags.c_contiguous and a.flags.writeable
        assert a.is_na().tolist() == b.is_na().tolist(), (context, name)
        assert repr(a.tolist()) == repr(b.tolist()), (context, name, a, b)
        assert [type(x) for x in a] == [type(x) for x in b], (context, name)

class Color(enum.IntEnum):
    RED = 1
    BLUE = 2

class MyInt(int): pass

I64 = 2**63 - 1
U64 = 2**64 - 1
NAN = float("nan")

# Columns as lists of values, None meaning the key is left out of that row.
COLUMNS = {
    "ints": [1, 2, 3],
    "negative": [-1, 0, 5],
    "int64_extremes": [I64, -I64 - 1, 0],
    "uint64": [U64, 0, 1],
    "over_int64": [I64 + 1, 1, 2],
    "over_int64_negative": [I64 + 1, -1, 2],
    "over_uint64": [U64 + 1, 1, 2],
    "huge": [10**30, -10**30, 0],
    "bools": [True, False, True],
    "bool_int": [True, 2, 3],
    "int_bool": [1, 2, False],
    "int_float": [1, 2.5, 3],
    "int_nan": [1, NAN, 3],
    "int_inf": [1, float("inf"), -float("inf")],
    "int_null": [1, "null", 3],      # explicit null
    "int_missing": [1, None, 3],     # key missing
    "missing_first": [None, 2, 3],
    "all_missing": ["null", "null", "null"],
    "int_str": [1, "a", 3],
    "strings": ["a", "ä", "日本語"],
    "floats": [1.0, 2.0, 3.0],
    "nested": [[1], {"a": 1}, 3],
    "zeros": [0, 0, 0],
    "ä-key with space": [1, 2, 3],
    "items": [1, 2, 3],
}

def build_rows(names, n=3):
    rows = [{} for i in range(n)]
    for name in names:
        for i in range(n):
            value = COLUMNS[name][i]
            if value is None: continue
            rows[i][name] = None if value == "null" else value
    return rows

def compare(data, **kwargs):
    for arg in [data, json.dumps(data, ensure_ascii=False), json.dumps(data)]:
        new = outcome(lambda: di.DataFrame.from_json(arg, **kwargs))
        old = outcome(lambda: OldDataFrame.from_json(arg, **kwargs))
        assert_same(new, old, (arg, kwargs))
    return new

# Each column alone, all together, and with fewer rows.
for name in COLUMNS:
    for n in (3, 2, 1):
        compare(build_rows([name], n))
        compare(build_rows(["ints", name, "strings"], n))
for n in (3, 2, 1, 0):
    compare(build_rows(list(COLUMNS), n))
    compare(build_rows(list(COLUMNS), n), columns=["ints", "bools", "huge", "nope"])
    compare(build_rows(reversed(list(COLUMNS)), n))

# Requested data types are applied to the original values as before.
for dtype in [int, float, bool, str, object, bytes, "U", "U1", "S", np.int8, np.uint8,
              np.uint64, np.float32, "datetime64[s]", "timedelta64[s]", complex, "nope"]:
    for name in ["ints", "negative", "over_int64", "over_uint64", "huge", "bools", "int_null", "zeros"]:
        compare(build_rows(["strings", name, "ints"]), dtypes={name: dtype})
        compare(build_rows(["strings", name, "ints"]), dtypes={name: dtype, "ints": float})
compare(build_rows(["ints"]), dtypes={"nope": int})
compare(build_rows(["ints"]), dtypes=None)
compare([], dtypes=None)
compare(build_rows(["ints"]), columns=["strings"], dtypes={"ints": int})
compare(build_rows(["ints"]), columns=None)

# Not plain ints: subclasses and NumPy scalars in a list given directly.
for values in [[Color.RED, Color.BLUE], [MyInt(1), 2], [1, MyInt(2)], [np.int64(1), 2],
               [np.int8(1), np.int8(2)], [np.uint64(U64), 1], [1, np.float64("nan")],
               [np.bool_(True), 1], [1, np.int64(2)]]:
    for arg in [[{"x": v} for v in values], [{"x": v, "y": 1} for v in values]]:
        new = outcome(lambda: di.DataFrame.from_json(arg))
        old = outcome(lambda: OldDataFrame.from_json(arg))
        assert_same(new, old, values)

# Odd arguments.
for arg in ["{}", "1", "null", "[1]", "[[1]]", "[{}]", "[{}, {}]", "", "[", '[{"a": 1}, 2]',
            {"a": 1}, 5, None, (), [{1: 2}], [{"a": 1}, {"a": 2, "b": 3}], [{"a": 1, "self": 2}],
            '[{"a": 1, "a": true}]', '[{"a": 1.0}, {"a": 1}]', '[{"a": 1e400}, {"a": 1}]',
            '[{"a": NaN}, {"a": 1}]', '[{"a": -0}, {"a": 1}]', '[{"a": 123456789012345678901234567890}]']:
    new = outcome(lambda: di.DataFrame.from_json(arg))
    old = outcome(lambda: OldDataFrame.from_json(arg))
    assert_same(new, old, arg)
new = outcome(lambda: di.DataFrame.from_json('[{"a": 1.0}, {"a": 2}]', parse_float=int))
old = outcome(lambda: OldDataFrame.from_json('[{"a": 1.0}, {"a": 2}]', parse_float=int))
assert_same(new, old, "parse_float")
new = outcome(lambda: di.DataFrame.from_json('[{"a": 1}, {"a": 2}]', parse_int=float))
old = outcome(lambda: OldDataFrame.from_json('[{"a": 1}, {"a": 2}]', parse_int=float))
assert_same(new, old, "parse_int")

# Independent expectations.
data = di.DataFrame.from_json('[{"a": 1, "b": true, "c": 18446744073709551615, "d": 9223372036854775808},'
                              ' {"a": -2, "b": false, "c": 0, "d": 1, "e": 5}]')
assert data.colnames == ["a", "b", "c", "d", "e"]
assert data.a.dtype == np.dtype("int64") and data.a.tolist() == [1, -2]
assert data.b.dtype == np.dtype("bool") and data.b.tolist() == [True, False]
# (NumPy chooses float64 for a mix of values above and below the int64 range.)
assert data.c.dtype == np.array([U64, 0]).dtype == np.dtype("float64") and data.c.tolist() == [float(U64), 0.0]
assert data.d.dtype == np.array([I64 + 1, 1]).dtype and data.d.tolist() == np.array([I64 + 1, 1]).tolist()
assert data.e.dtype == np.dtype("float64") and data.e.tolist() == [None, 5.0]
data = di.DataFrame.from_json('[{"a": 18446744073709551615}, {"a": 9223372036854775808}]')
assert data.a.dtype == np.dtype("uint64") and data.a.tolist() == [U64, I64 + 1]
data = di.DataFrame.from_json('[{"a": 18446744073709551616}, {"a": 1}]')
assert data.a.dtype == np.dtype(object) and list(data.a) == [U64 + 1, 1]
data = di.DataFrame.from_json('[{"a": 1}, {"a": 1}]', dtypes={"a": bool})
assert data.a.dtype == np.dtype(bool) and data.a.tolist() == [True, True]
data = di.DataFrame.from_json('[{"a": 1}, {"a": 22}]', dtypes={"a": "U"})
assert data.a.dtype == np.dtype("U2") and list(data.a) == ["1", "22"]

# The result never shares anything with the argument, repeated calls give
# equal but separate frames, mutation in between is picked up.
rows = [{"a": 1, "b": 2}, {"a": 3, "b": 4}]
one = di.DataFrame.from_json(rows)
two = di.DataFrame.from_json(rows)
assert one == two and one.a is not two.a and not np.shares_memory(one.a, two.a)
one.a[0] = 100
assert two.a.tolist() == [1, 3] and rows == [{"a": 1, "b": 2}, {"a": 3, "b": 4}]
rows[0]["a"] = None
three = di.DataFrame.from_json(rows)
assert three.a.dtype == np.dtype(float) and three.a.tolist() == [None, 3.0]
assert three.b.dtype == np.dtype(int) and three.b.tolist() == [2, 4]
rows[1]["b"] = True
assert_same(di.DataFrame.from_json(rows), OldDataFrame.from_json(rows), "mutated")
assert rows == [{"a": None, "b": 2}, {"a": 3, "b": True}]
# Frames can be worked with as usual.
two.c = [5, 6]
assert two.sort(a=-1).c.tolist() == [6, 5]
assert json.loads(two.to_json()) == [{"a": 1, "b": 2, "c": 5}, {"a": 3, "b": 4, "c": 6}]

print("OK")
