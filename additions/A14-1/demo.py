import os, sys; sys.path.insert(0, os.getcwd())

# Change 1: Vector._std_to_np picks the single element type with
# next(iter(types)) instead of types.copy().pop(). Compare the library
# against a verbatim copy of the old implementation and against
# hand-written expectations.

import datetime
import decimal
import warnings
import numpy as np

warnings.simplefilter("ignore")

from dataiter import Vector, dtypes, util
from dataiter.vector import TYPE_CONVERSIONS

def old_std_to_np(cls, seq, dtype=None):
    # Verbatim copy of the implementation before the change.
    dtype = cls._map_input_dtype(dtype)
    types = util.unique_types(seq)
    if dtype is not None:
        na = Vector.fast([], dtype).na_value
    elif len(types) == 1 and types.copy().pop().__module__ == "numpy":
        dtype = types.copy().pop()().dtype
        na = Vector.fast([], dtype).na_value
    else:
        na = cls._std_to_np_na_value(types)
    seq = [na if
           x is None or
           (isinstance(x, float) and np.isnan(x))
           else x for x in seq]
    if dtype is not None:
        if np.issubdtype(dtype, np.integer) and np.nan in seq:
            dtype = float
        return cls._np_array(seq, dtype)
    types.discard(np.datetime64)
    for fm, to in TYPE_CONVERSIONS.items():
        if types and all(x == fm for x in types):
            return cls._np_array(seq, to)
    return cls._np_array(seq, dtype)

def run(f):
    try:
        return ("ok", f())
    except BaseException as e:
        return ("error", type(e), str(e))

def items(f):
    # Types and representations of elements, or the error from getting them
    # (arrays of datetimes with generic units cannot be printed).
    try:
        return [(type(x), repr(x)) for x in f()]
    except Exception as e:
        return (type(e), str(e))

def same(a, b):
    if a[0] != b[0]: return False
    if a[0] == "error": return a[1:] == b[1:]
    a, b = a[1], b[1]
    if not (type(a) is type(b) and a.dtype == b.dtype and a.shape == b.shape):
        return False
    if a.dtype.kind not in "OT" and a.tobytes() != b.tobytes():
        # Bitwise the same, where elements are not pointers.
        return False
    return (items(a.tolist) == items(b.tolist) and
            items(lambda: a) == items(lambda: b))

class Foo: pass
class MyFloat(np.float64): pass
foo = Foo()
NaT = np.datetime64("NaT")
D = datetime.date
DT = datetime.datetime

inputs = [
    [], [None], [np.nan], [None, np.nan], [1], [1, None], [1, 2.5, None], [True, None], [True, False],
    ["a", None], ["a", 1, None], ["ä€😀", None, ""], [b"a", None], [1j, None], [foo, None],
    [2**64, None], [2**63 - 1, -2**63], [np.inf, -np.inf, np.nan],
    [D(2020, 1, 1), None], [DT(2020, 1, 1, 12), None], [D(2020, 1, 1), DT(2020, 1, 1, 1)],
    [D(2020, 1, 1), NaT], [datetime.timedelta(1), None], [decimal.Decimal(1), None],
    # A single NumPy scalar type: the branch that was changed.
    [np.int64(1)], [np.int64(1), None], [np.int64(1), np.nan], [np.int8(-128), np.int8(127)],
    [np.uint64(2**64 - 1)], [np.uint64(2**64 - 1), None], [np.uint8(255), None],
    [np.float64(1.5), None], [np.float32(1.5), None, np.float32("nan")], [np.float16(1), np.nan],
    [np.float32("inf"), np.float32("-inf")], [np.longdouble(1), None],
    [np.bool_(True), None], [np.bool_(True), np.bool_(False)],
    [np.str_("ab"), None], [np.str_("ä€😀"), np.str_("")], [np.bytes_(b"ab"), None],
    [np.complex128(1j), None],
    [np.datetime64("2020-01-01"), None], [np.datetime64("2020-01-01T12:00"), NaT], [NaT], [NaT, None],
    [np.timedelta64(1, "D"), None], [np.timedelta64("NaT"), np.timedelta64(5, "s")],
    # numpy module, but not scalars: raise, and must keep raising the same.
    [np.array([1, 2]), np.array([3])], [np.array([1, 2]), None], [np.void(b"ab"), None],
    [np.finfo(float)], [np.errstate()],
    # Two or more types, subclasses outside the numpy module.
    [np.int64(1), np.float64(2.5), None], [np.int64(1), 2, None], [np.float32(1), 1.5],
    [NaT, np.timedelta64(1, "D")], [MyFloat(1.5), None], [MyFloat(1.5), np.float64(2)],
]
dtype_args = [None, int, float, bool, str, object, "U", np.uint8, np.float32,
              np.datetime64, "datetime64[D]", "timedelta64[s]", complex, bytes]

n = 0
for seq in inputs:
    for dtype in dtype_args:
        for make in (list, tuple):
            arg = make(seq)
            before = list(arg)
            old = run(lambda: old_std_to_np(Vector, make(seq), dtype))
            new = run(lambda: Vector._std_to_np(arg, dtype))
            assert same(old, new), (seq, dtype, old, new)
            # The argument is left alone.
            assert type(arg) is make and len(arg) == len(before)
            assert all(x is y for x, y in zip(arg, before))
            # A second call gives an equal, independent result.
            again = run(lambda: Vector._std_to_np(arg, dtype))
            assert same(new, again), (seq, dtype)
            if new[0] == "ok":
                assert not np.shares_memory(new[1], again[1]) or new[1].size == 0
            # The public constructor goes the same way.
            pub = run(lambda: np.asarray(Vector(arg, dtype)))
            if old[0] == "ok" and old[1].ndim == 1:
                assert same(("ok", np.asarray(old[1])), pub), (seq, dtype)
            n += 1

# Independent, hand-written expectations for the changed branch.
def check(seq, dtype, values):
    v = Vector(seq)
    assert isinstance(v, Vector)
    assert v.dtype == np.dtype(dtype), (seq, v.dtype)
    assert [repr(x) for x in v.tolist()] == [repr(x) for x in values], (seq, v.tolist())

check([np.int64(1), None], "float64", [1.0, None])
check([np.int64(1), np.int64(2)], "int64", [1, 2])
check([np.uint64(2**64 - 1)], "uint64", [2**64 - 1])
check([np.uint64(2**64 - 1), None], "float64", [float(2**64), None])
check([np.int8(-128), np.int8(127)], "int8", [-128, 127])
check([np.float32(1.5), None], "float32", [1.5, None])
check([np.float16("inf"), np.nan], "float16", [float("inf"), None])
check([np.bool_(True), np.bool_(False)], "bool", [True, False])
check([np.str_("ä€😀"), None], "<U3", ["ä€😀", None])
check([np.datetime64("2020-01-01"), None], "datetime64[D]", [datetime.date(2020, 1, 1), None])
check([np.timedelta64(1, "D"), None], "timedelta64[D]", [datetime.timedelta(1), None])
check([MyFloat(1.5), None], "float64", [1.5, None])
check([np.int64(1), np.float64(2.5), None], "float64", [1.0, 2.5, None])

# The set of types is not consumed: later mutation of the argument
# and a later call still see one type.
seq = [np.int32(1), np.int32(2)]
a = Vector(seq)
seq.append(None)
b = Vector(seq)
assert a.dtype == np.int32 and a.tolist() == [1, 2]
assert b.dtype == np.float64 and b.tolist() == [1.0, 2.0, None]

print(f"OK, {n} combinations compared")
