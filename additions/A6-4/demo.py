import os, sys; sys.path.insert(0, os.getcwd())

# Change 4: ListOfDicts.read_csv skips the pass over all items for `types`
# whose key is not among the column names. Compare with the old
# implementation (including the calls made to the type functions) and with
# hand-written expectations.

import csv
import math
import shutil
import tempfile

from attd import AttributeDict
from dataiter import ListOfDicts
from dataiter import util

failures = []

def check(condition, message):
    if not condition:
        failures.append(message)
        print("FAIL:", message[:1000])

def old_read_csv(cls, path, *, encoding="utf-8", sep=",", header=True, keys=[], types={}):
    # The implementation before the change.
    with util.xopen(path, "rt", encoding=encoding) as f:
        rows = list(csv.reader(f, dialect="unix", delimiter=sep))
        if not rows: return cls([])
        colnames = rows.pop(0) if header else util.generate_colnames(len(rows[0]))
        if keys:
            drop = [i for i in range(len(rows[0])) if colnames[i] not in keys]
            for row in rows:
                for i in reversed(drop):
                    del row[i]
            colnames = [x for x in colnames if x in keys]
        data = cls(dict(zip(colnames, x)) for x in rows)
        for key, type in types.items():
            for item in data:
                if key in item:
                    item[key] = type(item[key])
        return data

tmpdir = tempfile.mkdtemp(dir=os.environ.get("TMPDIR") or None)
counter = iter(range(10**6))

def write(text, encoding="utf-8", suffix=".csv"):
    path = os.path.join(tmpdir, f"{next(counter)}{suffix}")
    with util.xopen(path, "wt", encoding=encoding, newline="") as f:
        f.write(text)
    return path

class Recorder:
    # Type functions that record every call, in order.
    def __init__(self):
        self.calls = []
    def make(self, name, function):
        def convert(value):
            self.calls.append((name, value))
            return function(value)
        return convert

def run(function, path, types, **kwargs):
    recorder = Recorder()
    types = {k: recorder.make(k, v) for k, v in types.items()}
    try:
        data = function(ListOfDicts, path, types=types, **kwargs)
        result = (type(data),
                  [(type(x), [(k, type(v), repr(v)) for k, v in x.items()]) for x in data],
                  data._group_keys, data._obsolete, data._predecessor)
    except Exception as error:
        result = (type(error), str(error))
    return result, recorder.calls

class Key(str):
    # A str subclass as a key of types.
    pass

class Odd:
    # Equal to the column name "a", but with a different hash.
    def __hash__(self):
        return 12345
    def __eq__(self, other):
        return other == "a"

texts = {
    "ordinary": "a,b,c\n1,2.5,x\n3,nan,y\n",
    "empty file": "",
    "header only": "a,b,c\n",
    "single column": "a\n1\n2\n",
    "single row": "a,b\n1,2\n",
    "short and long rows": "a,b,c\n1\n2,3\n4,5,6\n7,8,9,10\n\n",
    "short header": "a,b\n1,2,3\n4,5,6\n",
    "duplicate names": "a,a,b\n1,2,3\n4,5,6\n",
    "empty values": "a,b,c\n,,\n1,,\n",
    "floats": "a,b,c\nnan,inf,-inf\n-0.0,1e400,NaN\n",
    "integers": "a,b,c\n18446744073709551616,-9223372036854775809,0\n7,8,9\n",
    "text": "näme,a,日本\nÅland ☃,1,\"x,y\"\n\"quo\"\"te\",2,\"new\nline\"\n",
    "not numbers": "a,b,c\n1,2,3\nx,y,z\n4,5,6\n",
    "other names": "x,y,z\n1,2,3\n",
}

all_types = [
    {},
    {"a": int},
    {"a": float, "b": float},
    {"z": int},
    {"z": int, "a": float},
    {"a": float, "z": int, "c": str},
    {"c": str, "missing": float, "b": float, "": int},
    {"x": int, "zz": int},
    {"näme": len, "日本": len, "名前": len},
    {Key("a"): float, Key("z"): float},
    {"a": bool, "b": lambda x: None, "c": lambda x: [x]},
    {"a": lambda x: {"value": x}},
]

all_kwargs = [
    {},
    {"header": False},
    {"keys": ["a"]},
    {"keys": ["c", "a"]},
    {"keys": ["b", "z"]},
    {"keys": ["z"]},
    {"keys": ("a", "b", "c")},
    {"keys": ["a", "c"], "header": False},
    {"sep": ";"},
]

for name, text in texts.items():
    for encoding, suffix in [("utf-8", ".csv"), ("utf-16", ".csv.gz")]:
        path = write(text, encoding, suffix)
        for types in all_types:
            for kwargs in all_kwargs:
                new = run(ListOfDicts.read_csv.__func__, path, types, encoding=encoding, **kwargs)
                old = run(old_read_csv, path, types, encoding=encoding, **kwargs)
                check(new == old, f"{name} {list(types)} {kwargs}: {new} vs {old}")

# A key that equals a column name without being the same string.
path = write(texts["ordinary"])
for function in [ListOfDicts.read_csv.__func__, old_read_csv]:
    calls = []
    data = function(ListOfDicts, path, types={Odd(): lambda x: calls.append(x) or x})
    check(data == [{"a": "1", "b": "2.5", "c": "x"}, {"a": "3", "b": "nan", "c": "y"}] and not calls, "odd key")

# Hand-written expectations.
data = ListOfDicts.read_csv(path, types={"a": int, "b": float, "zzz": int})
check(type(data) is ListOfDicts and all(type(x) is AttributeDict for x in data), "expected: types of result")
check(list(data[0].items()) == [("a", 1), ("b", 2.5), ("c", "x")], f"expected: first row, {data[0]}")
check(data[1].a == 3 and math.isnan(data[1].b) and data[1].c == "y", "expected: second row")
data = ListOfDicts.read_csv(path, types={"zzz": int})
check(data == [{"a": "1", "b": "2.5", "c": "x"}, {"a": "3", "b": "nan", "c": "y"}], "expected: only unknown key")
data = ListOfDicts.read_csv(path, keys=["a", "c"], types={"b": float, "a": int})
check(data == [{"a": 1, "c": "x"}, {"a": 3, "c": "y"}], "expected: type for a dropped column")
data = ListOfDicts.read_csv(path, header=False, types={"a": str.upper, "col1": int})
check(data == [{"a": "A", "b": "b", "c": "c"}, {"a": "1", "b": "2.5", "c": "x"}, {"a": "3", "b": "nan", "c": "y"}],
      f"expected: no header, {data}")
path = write(texts["short and long rows"])
data = ListOfDicts.read_csv(path, types={"c": int, "d": int})
check(data == [{"a": "1"}, {"a": "2", "b": "3"}, {"a": "4", "b": "5", "c": 6}, {"a": "7", "b": "8", "c": 9}, {}],
      f"expected: ragged rows, {data}")
path = write(texts["not numbers"])
for types in [{"a": int}, {"z": int, "a": int}]:
    try:
        ListOfDicts.read_csv(path, types=types)
        check(False, "expected: ValueError")
    except ValueError as error:
        check("invalid literal" in str(error) and "'x'" in str(error), f"expected: message, {error}")

# Repeated calls give separate, equal results; the types dict is left alone.
types = {"a": int, "z": int}
path = write(texts["ordinary"])
one = ListOfDicts.read_csv(path, types=types)
two = ListOfDicts.read_csv(path, types=types)
check(one == two and one is not two and one[0] is not two[0], "expected: repeated call")
check(list(types.items()) == [("a", int), ("z", int)], "expected: types untouched")

shutil.rmtree(tmpdir)
print("failures:", len(failures))
sys.exit(1 if failures else 0)
