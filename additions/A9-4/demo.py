import os, sys; sys.path.insert(0, os.getcwd())
import io, contextlib
import numpy as np
import dataiter
from attd import AttributeDict
from dataiter import ListOfDicts

# ListOfDicts.head / tail (now slicing through the private _slice_as_list)
# compared with plain list slicing: same items (the same dict objects),
# a new list every time, same errors, same attributes of the result.

def outcome(f):
    try:
        return ("ok", f())
    except BaseException as e:
        return ("err", type(e), str(e))

class Idx:
    def __init__(self, i): self.i = i
    def __index__(self): return self.i

def make(n):
    return ListOfDicts({"i": i, "s": "äö€" * i, "x": None if i % 2 else float("nan")} for i in range(n)).group_by("i", "s")

ns = [None] + list(range(-8, 9)) + [10**6, sys.maxsize, sys.maxsize + 1, 10**30, -10**30, True, False,
      np.int64(2), np.int64(-2), np.uint8(3), np.uint64(2**64 - 1), 2.0, 2.5, float("inf"), float("nan"),
      "2", (1,), Idx(2), [1]]
checked = 0
for size in (0, 1, 2, 5, 10, 13):
    for n in ns:
        data = make(size)
        items = list(data)
        def exp_head():
            m = dataiter.DEFAULT_PEEK_ITEMS if n is None else n
            m = min(len(items), m)
            return items[:m]
        def exp_tail():
            m = dataiter.DEFAULT_PEEK_ITEMS if n is None else n
            m = min(len(items), m)
            return items[len(items)-m:]
        for name, exp_f in (("head", exp_head), ("tail", exp_tail)):
            exp = outcome(exp_f)
            got = outcome(lambda: getattr(data, name)(n))
            assert exp[0] == got[0], (name, size, n, exp, got)
            if exp[0] == "err":
                assert exp[1:] == got[1:], (name, size, n, exp, got)
            else:
                new = got[1]
                assert type(new) is ListOfDicts and new is not data
                assert len(new) == len(exp[1]) and all(a is b for a, b in zip(new, exp[1])), (name, size, n)
                assert new._group_keys == ("i", "s") and new._predecessor is data
                assert not new._obsolete and not data._obsolete
                # the result is a separate list
                list.append(new, AttributeDict(z=1)); list.reverse(new)
            assert len(data) == size and all(a is b for a, b in zip(data, items))
            checked += 1

# without argument: module default, also after changing it
data = make(30)
old = dataiter.DEFAULT_PEEK_ITEMS
assert [x.i for x in data.head()] == list(range(old)) and [x.i for x in data.tail()] == list(range(30 - old, 30))
dataiter.DEFAULT_PEEK_ITEMS = 7
assert [x.i for x in data.head()] == list(range(7)) and [x.i for x in data.tail()] == list(range(23, 30))
dataiter.DEFAULT_PEEK_ITEMS = old
# repeated calls give separate lists of the same dicts
a, b = data.head(4), data.head(4)
assert a == b and a is not b and a[0] is b[0] is data[0]
# printing goes through head
text = make(3).to_string(max_items=2)
assert text.endswith("... 3 items total") and '"i": 1' in text and '"i": 2' not in text
assert str(make(0)) == "[]"
# plain slicing of the list itself is untouched
s = data[2:5]
assert type(s) is ListOfDicts and [x.i for x in s] == [2, 3, 4] and s._predecessor is data
# warning of an obsolete list: once, as before
data = make(3); data.modify(i=lambda x: 0)
out = io.StringIO()
with contextlib.redirect_stdout(out):
    data.head(1); data.tail(1); data.head()
assert out.getvalue().count("Warning") == 1
print("checked", checked, "calls: OK")
