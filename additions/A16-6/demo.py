import os, sys; sys.path.insert(0, os.getcwd())

# Change 6: DataFrame._reconcile_column is collapsed to two statements. The
# row count to broadcast to stays "self.nrow if self else None": None (no
# columns yet, take any length) is kept distinct from 0 (columns with zero
# rows, only zero-length input fits), so no "self.nrow or None" shortcut.

import math
import numpy as np
import dataiter as di

from dataiter import DataFrame, DataFrameColumn, Vector

FAILURES = []

def check(cond, label):
    if not cond:
        FAILURES.append(label)
        print("FAIL:", label)

def canon(column):
    return (type(column).__name__, str(column.dtype), column.shape,
            [(type(x).__name__, repr(x)) for x in column])

def same_frame(a, b):
    return (type(a) is type(b) and
            list(a.keys()) == list(b.keys()) and
            all(canon(a[k]) == canon(b[k]) for k in a))

def old_reconcile_column(self, column):
    # The implementation before the change, verbatim.
    if isinstance(column, DataFrameColumn):
        if column.nrow == self.nrow:
            return column
    nrow = self.nrow if self else None
    return DataFrameColumn(column, nrow=nrow)

def outcome(function, *args, **kwargs):
    try:
        return ("ok", function(*args, **kwargs))
    except Exception as error:
        return (type(error).__name__, str(error))

def obj(*values):
    out = np.empty(len(values), object)
    for i, value in enumerate(values):
        out[i] = value
    return out

nan = float("nan")
Sub = type("Sub", (DataFrame,), {})

def make_frames():
    bad = DataFrame(x=[1.0, nan, 3.0])
    bad.setdefault("y", DataFrameColumn([1.0, nan]))
    return {
        "no_columns": DataFrame(),
        "zero_rows": DataFrame(x=np.array([], float), s=Vector([], str)),
        "one_row": DataFrame(x=[nan], s=[""]),
        "three_rows": DataFrame(x=[1.0, nan, 3.0], s=["a", "", "ä€😀"]),
        "subclass": Sub(x=[1, 2, 3]),
        "corrupted": bad,
    }

def make_values():
    # Factories, so that new and old get equal but separate inputs
    # (and generators that are not yet consumed).
    yield "DFC len 0", lambda: DataFrameColumn([], float)
    yield "DFC len 0 str", lambda: DataFrameColumn([], str)
    yield "DFC len 1", lambda: DataFrameColumn([7])
    yield "DFC len 1 nan", lambda: DataFrameColumn([nan])
    yield "DFC len 1 empty string", lambda: DataFrameColumn([""])
    yield "DFC len 1 None", lambda: DataFrameColumn([None])
    yield "DFC len 2", lambda: DataFrameColumn([1, 2])
    yield "DFC len 3", lambda: DataFrameColumn([1, 2, 3])
    yield "DFC len 3 uint64", lambda: DataFrameColumn(np.array([0, 2**64 - 1, 5], np.uint64))
    yield "DFC len 3 object", lambda: DataFrameColumn(obj(None, nan, (1, 2)), object)
    yield "DFC len 3 NaT", lambda: DataFrameColumn(np.array(["NaT", "2020-01-01", "NaT"], "datetime64[D]"))
    yield "DFC 2-dimensional", lambda: DataFrameColumn([1, 2, 3, 4]).reshape(2, 2)
    yield "Vector len 3", lambda: Vector([1, 2, 3])
    yield "Vector len 1", lambda: Vector([1.5])
    yield "Vector len 0", lambda: Vector([], float)
    yield "ndarray len 3", lambda: np.array([1, 2, 3])
    yield "ndarray len 0", lambda: np.array([])
    yield "ndarray 0-dimensional", lambda: np.array(5)
    yield "ndarray 2-dimensional", lambda: np.zeros((3, 2))
    yield "list len 3", lambda: [3, 2, 1]
    yield "list len 2", lambda: [3, 2]
    yield "list len 1", lambda: [3]
    yield "list len 0", lambda: []
    yield "list with None", lambda: [1, None, 3]
    yield "list of strings", lambda: ["b", "", "ä"]
    yield "tuple len 3", lambda: (1.0, nan, math.inf)
    yield "range", lambda: range(3)
    yield "generator", lambda: (x for x in [1, 2, 3])
    yield "map", lambda: map(str, [1, 2, 3])
    yield "scalar 0", lambda: 0
    yield "scalar 1", lambda: 1
    yield "scalar False", lambda: False
    yield "scalar empty string", lambda: ""
    yield "scalar string", lambda: "ä€😀"
    yield "scalar None", lambda: None
    yield "scalar nan", lambda: nan
    yield "scalar bytes", lambda: b""
    yield "scalar np.int64", lambda: np.int64(-2**63)
    yield "scalar np.uint64", lambda: np.uint64(2**64 - 1)
    yield "scalar NaT", lambda: np.datetime64("NaT")
    yield "unsupported", lambda: object()
    yield "dict", lambda: {"a": 1}
    yield "set", lambda: {1}

count = 0
for fname in make_frames():
    for vname, factory in make_values():
        label = f"{fname} / {vname}"
        data_new = make_frames()[fname]
        data_old = make_frames()[fname]
        value_new, value_old = factory(), factory()
        a = outcome(data_new._reconcile_column, value_new)
        b = outcome(old_reconcile_column, data_old, value_old)
        check(a[0] == b[0], f"{label}: {a} vs {b}")
        if a[0] == "ok":
            check(canon(a[1]) == canon(b[1]), f"{label}: {canon(a[1])} vs {canon(b[1])}")
            # Aliasing: the very same object comes back exactly when it did before,
            # and a view of the input stays a view, a copy stays a copy.
            check((a[1] is value_new) == (b[1] is value_old), f"{label}: identity")
            if isinstance(value_new, np.ndarray):
                check(np.shares_memory(a[1], value_new) == np.shares_memory(b[1], value_old), f"{label}: aliasing")
        else:
            check(a[1] == b[1], f"{label}: message {a[1]!r} vs {b[1]!r}")
        if fname != "corrupted":
            check(same_frame(data_new, make_frames()[fname]), f"{label}: frame mutated")

        # The callers: item and attribute assignment, modify, cbind, update.
        for how in ["setitem", "setattr", "modify", "cbind", "update"]:
            if how in ["cbind", "update"] and not isinstance(value_new, (DataFrameColumn, list)): continue
            data_new = make_frames()[fname]
            data_old = make_frames()[fname]
            value_new, value_old = factory(), factory()
            def run(data, value, reconcile):
                # Route the old frame through the old implementation.
                if reconcile is not None:
                    cls = type(data)
                    patched = type(cls.__name__, (cls,), {"_reconcile_column": reconcile})
                    copy = patched.__new__(patched)
                    dict.update(copy, data)
                    copy._group_colnames = ()
                    data = copy
                if how == "setitem":
                    data["new"] = value
                    return data
                if how == "setattr":
                    data.new = value
                    return data
                if how == "modify":
                    return data.modify(new=value)
                other = DataFrame.__new__(DataFrame)
                dict.update(other, {"new": value} if isinstance(value, DataFrameColumn)
                            else {"new": DataFrameColumn(value)})
                other._group_colnames = ()
                if how == "cbind":
                    return data.cbind(other)
                return data.update(other)
            a = outcome(run, data_new, value_new, None)
            b = outcome(run, data_old, value_old, old_reconcile_column)
            check(a[0] == b[0], f"{label} via {how}: {a} vs {b}")
            if a[0] == "ok":
                check(list(a[1].keys()) == list(b[1].keys()) and
                      all(canon(a[1][k]) == canon(b[1][k]) for k in a[1]), f"{label} via {how}: frames differ")
                if how in ["setitem", "setattr"] and isinstance(value_new, DataFrameColumn):
                    check((a[1]["new"] is value_new) == (b[1]["new"] is value_old), f"{label} via {how}: identity")
            else:
                check(a[1] == b[1], f"{label} via {how}: message {a[1]!r} vs {b[1]!r}")
            count += 1
        count += 1

# Independent expectations.
empty = DataFrame()
zero = DataFrame(x=np.array([], float))
three = DataFrame(x=[1.0, 2.0, 3.0])

# No columns yet (None): any length is taken as it is, nothing is broadcast.
check(empty._reconcile_column([1, 2, 3]).tolist() == [1, 2, 3], "empty frame takes length 3")
check(empty._reconcile_column(5).tolist() == [5], "empty frame takes scalar as length 1")
check(empty._reconcile_column([]).tolist() == [], "empty frame takes length 0")
col = DataFrameColumn([1, 2, 3])
check(empty._reconcile_column(col) is not col and empty._reconcile_column(col).tolist() == [1, 2, 3], "empty frame, column of length 3")
col = DataFrameColumn([], float)
check(empty._reconcile_column(col) is col, "empty frame, column of length 0 is returned as such")
empty.a = [1, 2]
check(empty.nrow == 2 and empty.a.tolist() == [1, 2], "assignment to empty frame")

# Columns with zero rows (0): only zero-length input fits, scalars are not broadcast.
check(zero._reconcile_column([]).tolist() == [], "zero rows takes length 0")
col = DataFrameColumn([], str)
check(zero._reconcile_column(col) is col, "zero rows, same object back")
for value in [5, [5], "", None, [1, 2, 3], DataFrameColumn([1]), DataFrameColumn([1, 2, 3])]:
    result = outcome(zero._reconcile_column, value)
    check(result == ("ValueError", "Bad arguments for broadcast"), f"zero rows rejects {value!r}: {result}")
result = outcome(zero.__setitem__, "y", 1)
check(result[0] == "ValueError" and zero.colnames == ["x"], "assignment of scalar to zero-row frame")

# Ordinary frames: same length kept as such, scalars and length 1 broadcast.
col = DataFrameColumn(["a", "", "c"])
check(three._reconcile_column(col) is col, "same length: same object back")
check(three._reconcile_column(0).tolist() == [0, 0, 0], "scalar 0 broadcast")
check(three._reconcile_column("").tolist() == [None, None, None] or
      list(three._reconcile_column("")) == ["", "", ""], "scalar '' broadcast")
check(three._reconcile_column(DataFrameColumn([7])).tolist() == [7, 7, 7], "length 1 column broadcast")
check(outcome(three._reconcile_column, [1, 2])[0] == "ValueError", "length 2 rejected")

print(count, "combinations")
print("FAILED" if FAILURES else "OK", len(FAILURES))
sys.exit(1 if FAILURES else 0)
