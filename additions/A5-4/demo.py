import os, sys; sys.path.insert(0, os.getcwd())

import datetime
import numpy as np
import warnings

from dataiter import Vector, dt, dtypes, util
from numpy.dtypes import StringDType

failures = []

def check(cond, label):
    if not cond:
        failures.append(label)
        print("FAIL:", label)

def old_from_string(x, format):
    # Verbatim copy of dt.from_string before the change.
    if util.is_scalar(x):
        x = Vector([x], str)
        return old_from_string(x, format)[0]
    assert isinstance(x, np.ndarray)
    assert isinstance(x.dtype, StringDType)
    out = np.full_like(x, None, object)
    out = Vector.fast(out, object)
    na = x == dtypes.string.na_object
    if na.all(): return out.as_datetime()
    f = np.vectorize(lambda x: datetime.datetime.strptime(x, format))
    out[~na] = f(x[~na].astype(object))
    out = out.as_datetime()
    if (len(out[~na]) > 0 and
        (dt.hour(out[~na])   == 0).all() and
        (dt.minute(out[~na]) == 0).all() and
        (dt.second(out[~na]) == 0).all() and
        (dt.microsecond(out[~na]) == 0).all()):
        out = out.as_date()
    return out

def run(function, *args, **kwargs):
    with warnings.catch_warnings(record=True) as caught:
        warnings.simplefilter("always")
        try:
            value = function(*args, **kwargs)
        except Exception as error:
            value = error
    return value, [(w.category, str(w.message)) for w in caught]

def same(a, b):
    if isinstance(a, Exception) or isinstance(b, Exception):
        return type(a) is type(b) and str(a) == str(b)
    if isinstance(a, np.ndarray) or isinstance(b, np.ndarray):
        return (type(a) is type(b) and
                a.dtype == b.dtype and
                a.shape == b.shape and
                a.flags.writeable == b.flags.writeable and
                a.flags.c_contiguous == b.flags.c_contiguous and
                [repr(x) for x in np.ndarray.tolist(a)] ==
                [repr(x) for x in np.ndarray.tolist(b)])
    return type(a) is type(b) and a.dtype == b.dtype and repr(a) == repr(b)

def expect(strings, format):
    # Independent expectation in plain Python.
    values = [datetime.datetime.strptime(s, format) if s else None for s in strings]
    times = [v.time() for v in values if v is not None]
    if times and all(t == datetime.time(0) for t in times):
        return "datetime64[D]", [None if v is None else v.date() for v in values]
    return "datetime64[us]", values

def compare(strings, format, label, independent=True):
    x = Vector(strings, str) if not isinstance(strings, np.ndarray) else strings
    before = np.ndarray.tolist(x)
    new, new_warnings = run(dt.from_string, x, format)
    old, old_warnings = run(old_from_string, x, format)
    check(same(new, old), f"{label}: new {new!r} vs. old {old!r}")
    check(new_warnings == old_warnings, f"{label}: same warnings")
    check(np.ndarray.tolist(x) == before, f"{label}: argument unchanged")
    if isinstance(new, Exception):
        return
    check(not np.shares_memory(new, x), f"{label}: fresh result")
    if independent:
        dtype, values = expect(before, format)
        check(type(new) is Vector, f"{label}: type")
        check(new.dtype == np.dtype(dtype), f"{label}: dtype {new.dtype}, expected {dtype}")
        check(new.tolist() == values, f"{label}: values")
    if new.size > 0:
        # Mutating the result must not show in a later call.
        new[0] = np.datetime64("1900-01-01")
        again, _ = run(dt.from_string, x, format)
        check(same(again, old), f"{label}: repeated call")

FMT_D = "%d.%m.%Y"
FMT_DT = "%Y-%m-%d %H:%M:%S"
FMT_US = "%Y-%m-%d %H:%M:%S.%f"

# Dates only: converted to date.
compare(["15.10.2022", "01.01.1970", "31.12.1969"], FMT_D, "dates")
compare(["15.10.2022"], FMT_D, "single date")
compare(["15.10.2022", "", "16.10.2022", ""], FMT_D, "dates with missing")
compare(["01.01.0001", "31.12.9999"], FMT_D, "extreme dates")
compare(["2022-10-15 00:00:00", "1969-12-31 00:00:00"], FMT_DT, "midnight datetimes")
compare(["2022-10-15 00:00:00.000000", ""], FMT_US, "midnight datetimes with fraction and missing")
compare(["0001-01-01 00:00:00", "9999-12-31 00:00:00"], FMT_DT, "extreme midnight datetimes")
# Times: kept as datetime.
compare(["2022-10-15 12:34:56", "2022-10-16 00:00:00"], FMT_DT, "one with time, one at midnight")
compare(["2022-10-16 00:00:00", "2022-10-15 12:34:56"], FMT_DT, "one at midnight, one with time")
compare(["2022-10-15 01:00:00"], FMT_DT, "hour only")
compare(["2022-10-15 00:01:00"], FMT_DT, "minute only")
compare(["2022-10-15 00:00:01"], FMT_DT, "second only")
compare(["2022-10-15 00:00:00.000001"], FMT_US, "microsecond only")
compare(["2022-10-15 00:00:00.000001", "", "2022-10-15 00:00:00.000000"], FMT_US, "microsecond only with missing")
compare(["1969-12-31 23:59:59.999999", "1969-12-31 00:00:00.000000"], FMT_US, "just before epoch")
compare(["1969-12-31 00:00:00.000001"], FMT_US, "before epoch, microsecond only")
compare(["0001-01-01 00:00:00.000001", "9999-12-31 23:59:59.999999"], FMT_US, "extreme datetimes")
compare(["0001-01-01 00:00:01", "", "9999-12-31 00:00:00"], FMT_DT, "extreme, one with time")
compare(["1900-01-01 00:00:00", "1900-01-01 00:00:00", "1900-01-01 00:00:01"], FMT_DT, "duplicates")
# Missing and empty.
compare(["", ""], FMT_D, "all missing")
compare([""], FMT_DT, "single missing")
compare(Vector([], str), FMT_D, "empty")
compare([None, "15.10.2022"], FMT_D, "None as missing")
# Non-ASCII text in format and data.
compare(["15. päivä 10. kuuta 2022", ""], "%d. päivä %m. kuuta %Y", "non-ASCII literal, date")
compare(["klo 12 — 15.10.2022"], "klo %H — %d.%m.%Y", "non-ASCII literal, time")
# Errors.
compare(["15.10.2022", "xx"], FMT_D, "bad value")
compare(["15.10.2022"], "%Q", "bad format")
compare(["15.10.2022 12"], FMT_D, "unconverted data")
compare(np.array(["15.10.2022"]).view(Vector), FMT_D, "fixed-width string vector")
compare(Vector([1, 2]), FMT_D, "integer vector")
compare(np.array(["15.10.2022"], dtypes.string), FMT_D, "plain array")
compare(["2022-10-15 12:00:00 +0200"], "%Y-%m-%d %H:%M:%S %z", "time zone", independent=False)
compare(["2022-10-15 02:00:00 +0200"], "%Y-%m-%d %H:%M:%S %z", "time zone, midnight in UTC", independent=False)
# Large.
compare(["15.10.2022", "16.10.2022"] * 5000, FMT_D, "large dates")
compare(["2022-10-15 00:00:00"] * 9999 + ["2022-10-15 00:00:01"], FMT_DT, "large, last with time")

# Scalars.
for x, format in [("15.10.2022", FMT_D),
                  ("2022-10-15 12:34:56", FMT_DT),
                  ("2022-10-15 00:00:00", FMT_DT),
                  ("2022-10-15 00:00:00.000001", FMT_US),
                  ("", FMT_D),
                  (None, FMT_D),
                  ("xx", FMT_D)]:
    new, _ = run(dt.from_string, x, format)
    old, _ = run(old_from_string, x, format)
    check(same(new, old), f"scalar {x!r}: new {new!r} vs. old {old!r}")
check(dt.from_string("15.10.2022", FMT_D) == np.datetime64("2022-10-15"), "scalar date value")
check(dt.from_string("2022-10-15 12:34:56", FMT_DT) == np.datetime64("2022-10-15T12:34:56"), "scalar datetime value")

# Via the vector proxy.
x = Vector(["15.10.2022", ""])
check(same(x.dt.from_string(FMT_D), old_from_string(x, FMT_D)), "proxy")

print("OK" if not failures else f"{len(failures)} FAILURES")
sys.exit(1 if failures else 0)
