import os, sys; sys.path.insert(0, os.getcwd())

import numpy as np
import dataiter as di

from dataiter import Vector, dtypes
from dataiter import aggregate

failures = []

def check(cond, label):
    if not cond:
        failures.append(label)
        print("FAIL:", label)

def old_count_unique(x, *, drop_na=False):
    # Vector part of count_unique before the change.
    if not isinstance(x, (Vector, str)):
        raise TypeError("Expected Vector or str")
    x = aggregate.handle_na(x, drop_na)
    return len(set(x))

def run(function, *args, **kwargs):
    try:
        return function(*args, **kwargs)
    except Exception as error:
        return error

def compare(v, label, expected=None):
    for drop_na in [False, True]:
        before = [repr(x) for x in np.ndarray.tolist(v)] if isinstance(v, np.ndarray) else None
        new = run(di.count_unique, v, drop_na=drop_na)
        old = run(old_count_unique, v, drop_na=drop_na)
        if isinstance(old, Exception) or isinstance(new, Exception):
            check(type(old) is type(new), f"{label} drop_na={drop_na}: same exception: {old!r} vs. {new!r}")
            continue
        check(type(new) is type(old) is int, f"{label} drop_na={drop_na}: type")
        check(new == old, f"{label} drop_na={drop_na}: new {new} vs. old {old}")
        if expected is not None:
            check(new == expected[drop_na], f"{label} drop_na={drop_na}: expected {expected[drop_na]}, got {new}")
        if before is not None:
            check([repr(x) for x in np.ndarray.tolist(v)] == before, f"{label}: argument unchanged")
        check(run(di.count_unique, v, drop_na=drop_na) == new, f"{label}: repeated call")

def V(array):
    return np.asarray(array).view(Vector)

def ints(values, dtype):
    # Independent expectation from Python integers.
    n = len(set(values))
    return V(np.array(values, dtype)), {False: n, True: n}

i8 = np.iinfo(np.int64)
u8 = np.iinfo(np.uint64)

compare(*ints([1, 2, 2, 3, 3, 3], np.int64)[:1], "int", ints([1, 2, 2, 3, 3, 3], np.int64)[1])
for dtype in [np.int8, np.int16, np.int32, np.int64]:
    info = np.iinfo(dtype)
    values = [info.min, info.max, 0, -1, info.max, info.min, 1, -1]
    v, e = ints(values, dtype)
    compare(v, f"{dtype.__name__} extreme", e)
for dtype in [np.uint8, np.uint16, np.uint32, np.uint64]:
    info = np.iinfo(dtype)
    values = [info.max, 0, info.max, info.max - 1, 1, 0, info.max // 2 + 1]
    v, e = ints(values, dtype)
    compare(v, f"{dtype.__name__} extreme", e)
compare(V(np.array([2**63, 2**63 - 1, 2**63], np.uint64)), "uint64 around 2**63", {False: 2, True: 2})
compare(V(np.array([True, False, True])), "bool", {False: 2, True: 2})
compare(V(np.array([True, True])), "bool one value", {False: 1, True: 1})
compare(V(np.array([], int)), "int empty", {False: 0, True: 0})
compare(V(np.array([], bool)), "bool empty", {False: 0, True: 0})
compare(V(np.array([], np.uint8)), "uint8 empty", {False: 0, True: 0})
compare(V(np.array([5])), "int single", {False: 1, True: 1})
compare(V(np.array([3, 1, 2, 1], ">i4")), "int big-endian", {False: 3, True: 3})
compare(V(np.arange(40)[::-4] % 3), "int strided", {False: 3, True: 3})
compare(V(np.arange(100000) % 777), "int large", {False: 777, True: 777})

# Other dtypes must keep counting the old way: every NaN and NaT is a
# distinct element of a set, since they don't equal themselves.
compare(V(np.array([1.0, 1.0, np.nan, np.nan, np.inf, -np.inf, np.inf, 0.0, -0.0])),
        "float", {False: 6, True: 4})
compare(V(np.array([np.nan, np.nan, np.nan])), "float all NaN", {False: 3, True: 0})
compare(V(np.array([], float)), "float empty", {False: 0, True: 0})
compare(V(np.array([1, "NaT", "NaT", 1, 2], "timedelta64[s]")), "timedelta with NaT")
compare(V(np.array(["NaT", "NaT"], "timedelta64[D]")), "timedelta all NaT")
compare(V(np.array([1, 1, 2], "timedelta64[s]")), "timedelta", {False: 2, True: 2})
compare(V(np.array(["2020-01-01", "NaT", "NaT", "2020-01-01"], "datetime64[D]")), "date with NaT")
# Composed and decomposed forms of the same letter are different strings.
compare(V(np.array(["a", "", "a", "", "\u00e5\u00e4\u00f6", "a\u030a", "\u00e5", "\u00e5"], dtypes.string)),
        "string", {False: 5, True: 4})
compare(V(np.array(["a", "", "a"])), "fixed string", {False: 2, True: 1})
compare(V(np.array([b"a", b"a", b"b"])), "bytes", {False: 2, True: 2})
compare(V(np.array([1, None, 1, None, "a", 1.0, True], object)), "object", {False: 3, True: 2})
compare(V(np.array([1+1j, 1+1j, 2j])), "complex", {False: 2, True: 2})

# Ordinary construction.
compare(Vector([1, 2, 2, 3, 3, 3]), "Vector ints", {False: 3, True: 3})
compare(Vector([1, 2, 2, None, None]), "Vector ints with None", {False: 4, True: 2})
compare(Vector([True, False, None, None]), "Vector bools with None", {False: 3, True: 2})
compare(Vector([]), "Vector empty", {False: 0, True: 0})

# Bad arguments.
compare([1, 2, 2], "list")
compare(np.array([1, 2, 2]), "ndarray")
compare(None, "None")
compare(V(np.array([[1, 2], [1, 2]])), "2-D int")
compare(V(np.zeros((0, 2), int)), "2-D int empty")
compare(V(np.array([[True], [True]])), "2-D bool")

# The group-wise variant is untouched and agrees.
data = di.DataFrame(g=[1, 1, 1, 2, 2, 3], x=[1, 1, 2, 3, 3, 4], y=[1.0, np.nan, np.nan, 2.0, 2.0, np.nan])
for use_numba in sorted({False, di.USE_NUMBA}):
    original = di.USE_NUMBA
    di.USE_NUMBA = use_numba
    stat = data.group_by("g").aggregate(
        nx=di.count_unique("x"),
        ny=di.count_unique("y", drop_na=True))
    di.USE_NUMBA = original
    check(stat.nx.tolist() == [2, 1, 1], f"group-wise x, numba {use_numba}")
    check(stat.ny.tolist() == [1, 1, 0], f"group-wise y, numba {use_numba}")
check(callable(di.count_unique("x")), "string argument gives a function")

print("OK" if not failures else f"{len(failures)} FAILURES")
sys.exit(1 if failures else 0)
