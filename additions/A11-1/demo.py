import os, sys; sys.path.insert(0, os.getcwd())

# Change 1: di.first is decorated with @composite like last, nth, min, ...
# Expected values are built with plain Python, independently of the library.

import datetime
import math
import numpy as np
import dataiter as di

from dataiter import Vector
from dataiter.aggregate import first, nth

NaN = float("nan")
NaT = np.datetime64("NaT")
D1, D2 = datetime.date(2020, 1, 1), datetime.date(2021, 2, 3)
problems = []

def same(a, b):
    if type(a) is not type(b):
        return False
    if isinstance(a, float) and math.isnan(a):
        return math.isnan(b)
    if isinstance(a, (np.datetime64, np.timedelta64)) and np.isnat(a):
        return bool(np.isnat(b))
    return a == b

def check(label, got, expected):
    if not same(got, expected):
        problems.append(f"{label}: got {got!r}, expected {expected!r}")

def is_missing(value):
    return (value is None or value == "" or
            (isinstance(value, float) and math.isnan(value)))

# (python list, dtype, na value of the finished vector)
CASES = [
    ([], None, NaN),
    ([], int, NaN),
    ([], str, ""),
    ([], object, None),
    ([], bool, None),
    ([], "datetime64[D]", NaT),
    ([5], int, NaN),
    ([1, 2, 3], int, NaN),
    ([NaN], float, NaN),
    ([NaN, NaN], float, NaN),
    ([NaN, 1.5, 2.5], float, NaN),
    ([math.inf, NaN, -math.inf], float, NaN),
    ([True, False], bool, None),
    (["", "a", "b"], str, ""),
    (["", ""], str, ""),
    (["a"], str, ""),
    ([None, "x", 1], object, None),
    ([None, None], object, None),
    ([None, D1, D2], "datetime64[D]", NaT),
    ([None], "datetime64[D]", NaT),
]

def to_python(vector, i):
    # The plain Python value the aggregation should hand out.
    value = vector[i]
    return value.item() if isinstance(value, np.generic) else value

for values, dtype, na in CASES:
    vector = Vector(values, dtype)
    for drop_na in [False, True]:
        for repeat in range(2):
            label = f"first({values!r}, {dtype!r}, drop_na={drop_na})"
            keep = [i for i, v in enumerate(values) if not (drop_na and is_missing(v))]
            expected = to_python(vector, keep[0]) if keep else na
            if not keep:
                expected = vector.na_value
            got = first(vector, drop_na=drop_na)
            if isinstance(expected, float) and math.isnan(expected):
                if not (isinstance(got, float) and math.isnan(got)):
                    problems.append(f"{label}: got {got!r}, expected nan")
            elif isinstance(expected, np.datetime64) and np.isnat(expected):
                if not (isinstance(got, np.datetime64) and np.isnat(got)):
                    problems.append(f"{label}: got {got!r}, expected NaT")
            else:
                check(label, got, expected)
            # Keyword form keeps working.
            got = first(x=vector, drop_na=drop_na)
            if not (same(got, expected) or (got != got and expected != expected)):
                problems.append(f"{label} by keyword: got {got!r}")
    # The input is not touched.
    if not vector.equal(Vector(values, dtype)):
        problems.append(f"input changed: {values!r}")

# Anything but a Vector or str: TypeError, as before (then raised by nth).
for bad in [[1, 2, 3], (1, 2), np.array([1, 2]), 5, 1.5, None, b"x", {"a": 1}, range(3), True]:
    for kwargs in [{}, {"drop_na": True}, {"drop_na": False}]:
        try:
            first(bad, **kwargs)
        except TypeError:
            pass
        except Exception as error:
            problems.append(f"first({bad!r}): {type(error).__name__}")
        else:
            problems.append(f"first({bad!r}) did not raise")

# Wrong call signatures: TypeError, as before.
for args, kwargs in [((), {}),
                     ((Vector([1]), 0), {}),
                     ((Vector([1]),), {"index": 0}),
                     ((5, 0), {}),
                     (("x", 0), {})]:
    try:
        first(*args, **kwargs)
    except TypeError:
        pass
    except Exception as error:
        problems.append(f"first(*{args!r}, **{kwargs!r}): {type(error).__name__}")
    else:
        problems.append(f"first(*{args!r}, **{kwargs!r}) did not raise")

# Group-wise form: grouped and ungrouped frames, zero rows, all missing.
def frame(g, x, dtype):
    return di.DataFrame(g=Vector(g, int), x=Vector(x, dtype))

GROUPED = [
    ([1, 1, 2, 2, 3], [NaN, 1.0, 2.0, 3.0, NaN], float),
    ([1, 1, 2, 2, 3], [1, 2, 3, 4, 5], int),
    ([1, 1, 2, 2, 3], ["", "a", "b", "c", ""], str),
    ([1, 1, 2, 2, 3], [None, "a", 1, None, None], object),
    ([1], [NaN], float),
    ([], [], float),
    ([], [], str),
]

for g, x, dtype in GROUPED:
    for drop_na in [False, True]:
        data = frame(g, x, dtype)
        function = first("x", drop_na=drop_na)
        if not (callable(function) and function.group_aware is True):
            problems.append("first('x') is not a group-aware function")
        got = data.group_by("g").aggregate(x=function)
        ref = data.group_by("g").aggregate(x=nth("x", 0, drop_na=drop_na))
        if not (got.x.equal(ref.x) and got.g.equal(ref.g) and got.x.dtype == ref.x.dtype):
            problems.append(f"grouped first differs from nth: {g!r} {x!r}")
        # Expected, by hand (the result column of mixed objects is rebuilt
        # by the frame with a guessed dtype, so leave that one to nth above).
        if dtype is object: continue
        expected = []
        for key in sorted(set(g)):
            items = [v for k, v in zip(g, x) if k == key and not (drop_na and is_missing(v))]
            expected.append(items[0] if items else None)
        expected = Vector(expected, got.x.dtype) if expected else got.x[:0]
        if not got.x.equal(expected):
            problems.append(f"grouped first: {g!r} {x!r} {drop_na}: {got.x!r} vs {expected!r}")

# Metadata as before.
if first.__name__ != "first" or "first element" not in first.__doc__:
    problems.append("name or docstring lost")

for problem in problems:
    print("PROBLEM:", problem)
print("OK" if not problems else f"{len(problems)} problems")
sys.exit(1 if problems else 0)
