import os, sys; sys.path.insert(0, os.getcwd())

# Change 6: the obsoletes decorator asserts that what the decorated method
# returns is not self, before it marks self obsolete. The assertion must
# hold for every method that uses the decorator and for every input, so
# nothing changes, with or without python -O.

import contextlib
import functools
import io
import re
import subprocess

from dataiter import deco
from dataiter import ListOfDicts

FAILURES = []

def check(ok, what):
    if not ok:
        FAILURES.append(what)
        print("MISMATCH:", what)

def old_obsoletes(function):
    # The decorator as it was before the change (reference).
    @functools.wraps(function)
    def wrapper(self, *args, **kwargs):
        value = function(self, *args, **kwargs)
        self._mark_obsolete()
        return value
    return wrapper

# Which methods use the decorator? Read it off the source: each use must sit
# directly on top of new_from_generator, which always returns a new object.
package = os.path.join(os.getcwd(), "dataiter")
METHODS = []
for name in sorted(os.listdir(package)):
    if not name.endswith(".py"): continue
    with open(os.path.join(package, name)) as f:
        source = f.read()
    uses = len(re.findall(r"^\s*@deco\.obsoletes\b", source, re.M)) + len(re.findall(r"^\s*@obsoletes\b", source, re.M))
    if uses == 0: continue
    check(name == "list_of_dicts.py", f"obsoletes used in {name}")
    stacked = re.findall(r"^    @deco\.obsoletes\n    @deco\.new_from_generator\n    def (\w+)\(self", source, re.M)
    check(len(stacked) == uses, f"{name}: {uses} uses, {len(stacked)} of them on top of new_from_generator")
    METHODS.extend(stacked)
print("methods that obsolete:", METHODS)
check(METHODS == ["fill_missing_keys", "inner_join", "left_join", "modify", "modify_if", "rename", "select", "unselect"], "the methods expected")

class Sub(ListOfDicts):
    pass

nan = float("nan")
ROWS = [{"id": 1, "a": 1, "b": None}, {"id": 2, "b": 2, "c": nan}, {"id": None}, {"id": 2, "a": None, "d": [1]}]
OTHER = [{"id": 2, "y": 20}, {"id": None, "y": 0}, {"id": 9, "y": 90}]

CALLS = {
    "fill_missing_keys": [((), {}), ((), {"z": 1}), ((1,), {})],
    "inner_join": [((OTHER, "id"), {}), (([], "id"), {}), ((OTHER,), {}), ((OTHER, "nope"), {}), ((None, "id"), {}), ((), {})],
    "left_join": [((OTHER, "id"), {}), (([], "id"), {}), ((OTHER,), {}), ((OTHER, "nope"), {}), ((None, "id"), {}), ((), {})],
    "modify": [((), {}), ((), {"q": lambda x: len(x)}), ((), {"id": lambda x: 0, "q": lambda x: 1 / (x.id or 0)}), ((), {"q": 1})],
    "modify_if": [((lambda x: True,), {}), ((lambda x: x.id == 2,), {"q": lambda x: 1}), ((lambda x: 1 / 0,), {"q": lambda x: 1}), ((), {"q": lambda x: 1}), ((None,), {})],
    "rename": [((), {}), ((), {"key": "id"}), ((), {"a": "b"}), ((), {"z": "nope"}), ((1,), {})],
    "select": [((), {}), (("id",), {}), (("a", "nope"), {}), (([1],), {})],
    "unselect": [((), {}), (("id",), {}), (("a", "nope"), {}), (([1],), {})],
}

def inputs():
    def fresh(cls, rows):
        return cls([{k: (list(v) if isinstance(v, list) else v) for k, v in x.items()} for x in rows])
    for cls in (ListOfDicts, Sub):
        for rname, rows in [("no items", []), ("one item", ROWS[:1]), ("empty dicts", [{}, {}]), ("four items", ROWS)]:
            yield f"{cls.__name__} {rname}", lambda cls=cls, rows=rows: (lambda d: (d, [d]))(fresh(cls, rows))
            yield f"{cls.__name__} {rname} grouped", lambda cls=cls, rows=rows: (lambda d: (d.group_by("id"), [d]))(fresh(cls, rows))
        yield f"{cls.__name__} slice", lambda cls=cls: (lambda p: (p[1:3], [p]))(fresh(cls, ROWS))
        yield f"{cls.__name__} empty slice", lambda cls=cls: (lambda p: (p[:0], [p]))(fresh(cls, ROWS))
        yield f"{cls.__name__} chain", lambda cls=cls: (lambda g: (lambda p: (p.head(2), [p, g]))(g.filter(lambda x: True)))(fresh(cls, ROWS))
        yield f"{cls.__name__} cleared", lambda cls=cls: (lambda p: (p.clear(), [p]))(fresh(cls, ROWS))
        yield f"{cls.__name__} obsolete", lambda cls=cls: (lambda p: (p.modify(q=lambda x: 1), p)[1:] + ([],))(fresh(cls, ROWS))

def outcome(function, made, args, kwargs):
    data, family = made
    out = io.StringIO()
    try:
        with contextlib.redirect_stdout(out):
            value = function(data, *args, **kwargs)
        result = ("ok", type(value).__name__, repr([list(x.items()) for x in value]),
                  [[i for i, y in enumerate(data) if x is y] for x in value],
                  value is data, value._group_keys, value._predecessor is data,
                  value._obsolete, value._obsolete_warned)
    except AssertionError as error:
        result = ("ASSERTION FAILED",)
    except Exception as error:
        result = ("exc", type(error).__name__)
    return (result, out.getvalue(), repr([list(x.items()) for x in data]),
            [(x._obsolete, x._obsolete_warned, x._group_keys, len(x)) for x in [data] + family])

count = 0
makers = list(inputs())
for method in METHODS:
    new_function = getattr(ListOfDicts, method)
    old_function = old_obsoletes(new_function.__wrapped__)
    check(new_function.__wrapped__.__wrapped__.__name__ == method, f"{method}: two decorators")
    for name, make in makers:
        for args, kwargs in CALLS[method]:
            a, b = make(), make()
            for call in (1, 2):
                # The second call runs on the objects the first one left behind.
                new = outcome(new_function, a, args, kwargs)
                old = outcome(old_function, b, args, kwargs)
                count += 1
                check(new == old, f"{method} {name} {args} {kwargs} call {call}:\n  {new}\n  {old}")
                check(new[0][0] != "ASSERTION FAILED", f"{method} {name} {args} {kwargs}: assertion failed")
                if new[0][0] == "ok":
                    check(new[0][4] is False, f"{method} {name}: returned self")
                    check(new[3][0][0] is True, f"{method} {name}: self not marked obsolete")
                elif call == 1 and "obsolete" not in name:
                    check(new[3][0][0] is False, f"{method} {name} {args}: marked obsolete although it raised")
print(count, "comparisons with the old decorator", "(assertions off)" if not __debug__ else "(assertions on)")

# Expected values built by hand: the rules of obsolescence.
data = ListOfDicts([{"a": 1}, {"a": 2}])
view = data[:1]
new = view.modify(b=lambda x: 0)
check(new is not view and new._predecessor is view and view._predecessor is data, "hand: chain of predecessors")
check((data._obsolete, view._obsolete, new._obsolete) == (True, True, False), "hand: ancestors obsolete, successor not")
check(list(map(dict, data)) == [{"a": 1, "b": 0}, {"a": 2}], "hand: shared dicts modified")
data = ListOfDicts([])
new = data.select("a")
check(new == [] and new is not data and data._obsolete is True and new._obsolete is False, "hand: no items")
data = ListOfDicts([{"a": 1}])
try:
    data.modify(b=lambda x: 1 / 0)
    check(False, "hand: no exception")
except ZeroDivisionError:
    check(data._obsolete is False, "hand: not obsolete after a failure")
# The decorator on its own, with something that is not a ListOfDicts.
class Thing:
    marked = 0
    def _mark_obsolete(self):
        self.marked += 1
    @deco.obsoletes
    def successor(self, fail=False):
        if fail: raise KeyError("x")
        return Thing()
thing = Thing()
check(isinstance(thing.successor(), Thing) and thing.marked == 1, "hand: bare decorator marks after success")
try:
    thing.successor(fail=True)
    check(False, "hand: bare decorator, no exception")
except KeyError:
    check(thing.marked == 1, "hand: bare decorator does not mark after failure")
check(Thing.successor.__name__ == "successor" and Thing.successor.__wrapped__ is not None, "hand: functools.wraps kept")

if "--child" not in sys.argv:
    # The same again with assertions stripped.
    child = subprocess.run([sys.executable, "-O", os.path.abspath(__file__), "--child"], cwd=os.getcwd())
    check(child.returncode == 0, "the run under python -O")

print("FAILURES:", len(FAILURES))
sys.exit(1 if FAILURES else 0)
