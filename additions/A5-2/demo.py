import os, sys; sys.path.insert(0, os.getcwd())

import math
import numpy as np

from dataiter import Vector, dtypes
from numpy.dtypes import StringDType

failures = []

def check(cond, label):
    if not cond:
        failures.append(label)
        print("FAIL:", label)

def old_sort(self, *, dir=1):
    # Verbatim copy of Vector.sort before the change.
    if self.is_object():
        lst = sorted(self, key=str, reverse=dir<0)
        new = self.fast(lst, object)
        na = new.is_na()
        return new[~na].concat(new[na])
    opt = self._optimize_for_argsort()
    new = self[opt.argsort(kind="stable")]
    if dir < 0:
        new = new[::-1]
    na = new.is_na()
    return new[~na].concat(new[na])

def items(a):
    # repr distinguishes -0.0 from 0.0 and makes NaN/NaT comparable.
    return [repr(x) for x in np.ndarray.tolist(a)]

def same_array(a, b):
    return (type(a) is type(b) and
            a.dtype == b.dtype and
            a.dtype.byteorder == b.dtype.byteorder and
            a.dtype.metadata == b.dtype.metadata and
            repr(a.dtype) == repr(b.dtype) and
            a.shape == b.shape and
            a.strides == b.strides and
            a.flags.writeable == b.flags.writeable and
            a.flags.owndata == b.flags.owndata and
            a.flags.c_contiguous == b.flags.c_contiguous and
            items(a) == items(b))

def run(function, *args, **kwargs):
    try:
        return function(*args, **kwargs)
    except Exception as error:
        return error

def compare(v, label, expected_na=None):
    for dir in [1, -1, 0, 2, -7, True, False, 0.5, -0.5]:
        before = items(v)
        new = run(v.sort, dir=dir)
        check(items(v) == before, f"{label} dir={dir}: self unchanged")
        old = run(old_sort, v, dir=dir)
        if isinstance(old, Exception) or isinstance(new, Exception):
            check(type(old) is type(new) and str(old) == str(new),
                  f"{label} dir={dir}: same exception: {old!r} vs. {new!r}")
            continue
        check(same_array(new, old), f"{label} dir={dir}: new vs. old implementation")
        check(not np.shares_memory(new, v), f"{label} dir={dir}: fresh result")
        if new.size > 0 and not new.is_object():
            # Mutating the result must not show in self or in a later call.
            new[0] = new[-1]
            check(items(v) == before, f"{label} dir={dir}: self unchanged by mutating result")
            check(same_array(v.sort(dir=dir), old), f"{label} dir={dir}: repeated call")
        if expected_na is not None and v.ndim == 1:
            # Independent expectation in plain Python.
            values = np.ndarray.tolist(v)
            ok = sorted(x for x in values if not expected_na(x))
            if dir < 0:
                ok = ok[::-1]
            expected = ok + [x for x in values if expected_na(x)]
            check([repr(x) for x in expected] == items(old),
                  f"{label} dir={dir}: plain Python expectation")

i8 = np.iinfo(np.int64)
u8 = np.iinfo(np.uint64)
never = lambda x: False
isnan = lambda x: x != x
isnone = lambda x: x is None
isblank = lambda x: x == ""

def V(array):
    return np.asarray(array).view(Vector)

# Nothing missing: the new path.
compare(V(np.array([3, 1, 2, 1, 3])), "int ties", never)
compare(V(np.array([i8.max, i8.min, 0, -1, i8.max], np.int64)), "int64 extreme", never)
compare(V(np.array([u8.max, 0, 2**63, 2**63 - 1, u8.max], np.uint64)), "uint64 extreme", never)
compare(V(np.array([200, 100, 255, 0], np.uint8)), "uint8", never)
compare(V(np.array([True, False, True, False])), "bool", never)
compare(V(np.array([1.5, -np.inf, np.inf, 0.0, -0.0, 0.0, -0.0, 1e308, 5e-324])), "float inf and zeros", isnan)
compare(V(np.array([2.5, 1.5], np.float16)), "float16", isnan)
compare(V(np.array([1, 2, 3, 4])), "already sorted", never)
compare(V(np.array([4, 3, 2, 1])), "reverse sorted", never)
compare(V(np.array([7])), "single", never)
compare(V(np.array(["2022-10-15", "1970-01-01", "1677-09-22", "2262-04-11"], "datetime64[D]")), "date", never)
compare(V(np.array(["2022-10-15T12:00:00.000001", "2022-10-15T12:00:00"], "datetime64[us]")), "datetime", never)
compare(V(np.array([5, -5, 0, 5], "timedelta64[s]")), "timedelta", never)
compare(V(np.array(["b", "a", "åäö", "z", "Z", "\U0001f600", "a"], dtypes.string)), "string non-ASCII", isblank)
compare(V(np.array(["b" * 60, "a" * 60, "c"], dtypes.string)), "string long", isblank)
compare(V(np.array(["a\0", "a", "a\0\0", "a"], dtypes.string)), "string trailing nulls")
compare(V(np.array(["b", "a", "åäö"])), "fixed string", isblank)
compare(V(np.array([b"b", b"a", b"c"])), "bytes", never)
compare(V(np.array([2+1j, 1+5j, 1-5j])), "complex")
compare(V(np.array([3, 1, 2], ">i4")), "big-endian int", never)
compare(V(np.array([3.5, 1.5, 2.5], ">f8")), "big-endian float", isnan)
compare(V(np.array([3.5, 1.5, 2.5], np.dtype("f8", metadata={"a": 1}))), "dtype metadata", isnan)
compare(V(np.array(["b", "a"], StringDType())), "StringDType without na_object")
compare(V(np.array(["b", "a"], StringDType(na_object=None))), "StringDType with None")
compare(V(np.array([(2, 1), (1, 2)], "i4,i4")), "structured")
compare(V(np.arange(30)[::-3]), "strided view", never)
compare(V(np.arange(100000)[::-1] % 1000), "large", never)

# Something missing: must keep going through the old path.
compare(V(np.array([np.nan, 1.5, np.nan, -np.inf, np.inf, 0.0])), "float with NaN", isnan)
compare(V(np.array([np.nan, np.nan])), "float all NaN", isnan)
compare(V(np.array(["NaT", "2022-10-15", "NaT", "1970-01-01"], "datetime64[D]")), "date with NaT")
compare(V(np.array(["NaT"], "datetime64[us]")), "datetime all NaT")
compare(V(np.array([5, "NaT", 0], "timedelta64[s]")), "timedelta with NaT")
compare(V(np.array(["b", "", "a", "", "åäö"], dtypes.string)), "string with blank", isblank)
compare(V(np.array(["", ""], dtypes.string)), "string all blank", isblank)
compare(V(np.array(["b", "", "a"])), "fixed string with blank", isblank)

# Empty.
for dtype in [int, float, bool, "datetime64[D]", "timedelta64[s]", dtypes.string, "U1", object]:
    compare(V(np.array([], dtype)), f"empty {dtype}", never)

# Object branch is untouched.
compare(V(np.array([3, None, "a", 1, None], object)), "object with None")
compare(V(np.array([3, 2, 1], object)), "object without None")

# Ordinary construction.
compare(Vector([1, 2, 3, None]), "Vector ints with None", isnan)
compare(Vector([3, 2, 1]), "Vector ints", never)
compare(Vector(["b", "a", None]), "Vector strings with None", isblank)
compare(Vector(["b", "a"]), "Vector strings", isblank)

# Twisted two-dimensional vectors fail or work the same way as before.
compare(V(np.array([[2, 1], [1, 2]])), "2-D int")
compare(V(np.array([[2.5, 1.5], [1.5, 2.5]])), "2-D float")
compare(V(np.array([[2.5, np.nan], [1.5, 2.5]])), "2-D float with NaN")
compare(V(np.array([["b", "a"], ["a", "b"]], dtypes.string)), "2-D string")
compare(V(np.zeros((0, 2))), "2-D float empty")

print("OK" if not failures else f"{len(failures)} FAILURES")
sys.exit(1 if failures else 0)
