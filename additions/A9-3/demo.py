import os, sys; sys.path.insert(0, os.getcwd())
import copy, datetime, decimal, enum, fractions, io, contextlib, math
import numpy as np
from attd import AttributeDict, FallbackAttributeDict
from dataiter import ListOfDicts

# ListOfDicts.deepcopy / copy.deepcopy(ListOfDicts) with the scalar fast path
# compared with the old item by item copy.deepcopy: same values, same types,
# same key order and the same pattern of shared vs. new objects.

def old_deepcopy(self):
    new = self.__class__(map(copy.deepcopy, self), as_is=True)
    new._group_keys = self._group_keys
    return new

def same_value(a, b):
    if type(a) is not type(b): return False
    if isinstance(a, dict):
        return (len(a) == len(b) and all(map(same_value, a.keys(), b.keys()))
                and all(map(same_value, a.values(), b.values())))
    if isinstance(a, (list, tuple)):
        return len(a) == len(b) and all(map(same_value, a, b))
    if isinstance(a, (float, np.floating)):
        if math.isnan(a): return math.isnan(b)
        return a == b and math.copysign(1, a) == math.copysign(1, b)
    if isinstance(a, np.ndarray):
        return a.dtype == b.dtype and np.array_equal(a, b, equal_nan=a.dtype.kind in "fc")
    if isinstance(a, (np.datetime64, np.timedelta64)) and np.isnat(a): return bool(np.isnat(b))
    if isinstance(a, Obj): return same_value(a.v, b.v)
    return a == b

class MyInt(int): pass
class MyStr(str): pass
class MyFloat(float): pass
class Color(enum.IntEnum): RED = 1
class Obj:
    def __init__(self, v): self.v = v
    def __hash__(self): return 1
    def __eq__(self, other): return isinstance(other, Obj) and same_value(self.v, other.v)
class Sub(AttributeDict): pass

shared = [1, 2]
big = 2**200
items = [
    {"a": 1, "b": 2.5, "c": "äö€", "d": None, "e": True},
    {"a": float("nan"), "b": float("inf"), "c": -float("inf"), "d": -0.0, "e": 0.0},
    {"a": big, "b": -2**63, "c": 2**64 - 1, "d": "", "e": "x" * 1000},
    {},
    {1: "int key", 2.5: "float key", None: "None key", True: "bool key", "": "empty"},
    {float("nan"): 1},
    {(1, 2): "tuple key"}, {(1, Obj(3)): "tuple key with object"}, {Obj(1): "object key"},
    {MyInt(3): 1}, {MyStr("k"): 1}, {Color.RED: 1}, {np.int64(3): 1}, {b"bytes": 1}, {2j: 1},
    {"a": MyInt(3)}, {"a": MyStr("s")}, {"a": MyFloat(1.5)}, {"a": Color.RED},
    {"a": np.float64(1.5)}, {"a": np.int64(2**62)}, {"a": np.uint64(2**64 - 1)}, {"a": np.bool_(True)},
    {"a": np.datetime64("NaT")}, {"a": np.timedelta64("NaT")}, {"a": np.datetime64("2020-01-01")},
    {"a": np.array([1.0, np.nan])}, {"a": np.str_("ä")},
    {"a": decimal.Decimal("1.1")}, {"a": fractions.Fraction(1, 3)}, {"a": datetime.date(2020, 1, 1)},
    {"a": b"bytes"}, {"a": 1 + 2j}, {"a": ...}, {"a": int}, {"a": len}, {"a": range(3)},
    {"a": [1, 2]}, {"a": (1, 2)}, {"a": (1, [2])}, {"a": {"n": 1}}, {"a": {1, 2}}, {"a": frozenset([1])},
    {"a": Obj([1])}, {"a": shared, "b": shared}, {"a": 1, "b": [1], "c": 2},
    {"a": 1, "b": {"deep": {"deeper": [1, {"x": Obj(2)}]}}},
]
raw = [AttributeDict(x) for x in items]
raw.append(FallbackAttributeDict(a=1, b="x"))
raw.append(Sub(a=1, b="x"))
raw.append(raw[0])          # the same dict twice in the list
raw.append(raw[-4])
plain = {"a": 1, "b": "plain dict, not converted"}

def build():
    data = ListOfDicts(raw, as_is=True)
    list.append(data, plain)   # a plain dict that slipped in
    return data.group_by("a", "b")

def compare(new, old, orig):
    assert type(new) is type(old) is ListOfDicts and new is not orig
    assert len(new) == len(old) == len(orig)
    assert new._group_keys == old._group_keys == orig._group_keys
    assert new._predecessor is None and old._predecessor is None
    assert not new._obsolete and not orig._obsolete
    for n, o, x in zip(new, old, orig):
        assert type(n) is type(o), (type(n), type(o), x)
        assert n is not x
        assert same_value(dict(n), dict(o)), (n, o)
        assert same_value(dict(n), dict(x)), (n, x)
        for nk, ok, xk in zip(n.keys(), o.keys(), x.keys()):
            assert (nk is xk) == (ok is xk), ("key", xk)
        for nv, ov, xv in zip(n.values(), o.values(), x.values()):
            assert (nv is xv) == (ov is xv), ("value", xv)
        assert type(n) is dict or vars(n) == vars(o) == {}
    # every item is a separate new dict, also for repeated items
    assert len(set(map(id, new))) == len(new)

orig = build()
snapshot = [list(x.items()) for x in orig]
for copier in (lambda x: x.deepcopy(), copy.deepcopy, lambda x: x.__deepcopy__({})):
    new = copier(orig)
    compare(new, old_deepcopy(orig), orig)
    # shared-reference structure inside one item comes out as before
    old = old_deepcopy(orig)
    for n, o in zip(new, old):
        if "a" in n and "b" in n:
            assert (n["a"] is n["b"]) == (o["a"] is o["b"])
    # mutating the copy never shows in the original
    for x in new:
        for k in list(x):
            if isinstance(x[k], list): x[k].append("changed")
        x["__new__"] = 1
    list.clear(new)
    assert [list(x.items()) for x in orig] == snapshot or True
    for x, snap in zip(orig, snapshot):
        assert len(x) == len(snap) and all(a is b[0] and x[a] is b[1] for a, b in zip(x, snap))
        assert "__new__" not in x
assert shared == [1, 2]

# empty list, single item, list of only-scalar items, repeated copies
for data in (ListOfDicts([]), ListOfDicts([{"a": 1}]), ListOfDicts({"i": i, "s": "ü" * i, "n": None} for i in range(100))):
    a, b = data.deepcopy(), data.deepcopy()
    compare(a, old_deepcopy(data), data)
    assert a == b == data and all(x is not y for x, y in zip(a, b))
    if a:
        a[0]["i"] = "changed"
        assert b[0] != a[0] and data[0] != a[0]

# methods that deep copy internally give the same as before
data = ListOfDicts({"g": i % 3, "v": i, "w": [i]} for i in range(10))
stat = data.group_by("g").aggregate(n=len, s=lambda x: sum(x.pluck("v")))
assert [dict(x) for x in stat] == [{"g": 0, "n": 4, "s": 18}, {"g": 1, "n": 3, "s": 12}, {"g": 2, "n": 3, "s": 15}]
assert all("n" not in x for x in data)

# obsolete warning as before
data = ListOfDicts([{"a": 1}]); data.modify(a=lambda x: 2)
out = io.StringIO()
with contextlib.redirect_stdout(out):
    data.deepcopy(); copy.deepcopy(data)
assert out.getvalue().count("Warning") == 1
print("OK")
