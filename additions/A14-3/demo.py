import os, sys; sys.path.insert(0, os.getcwd())

# Change 3: dt.replace collects the given components with an explicit dict
# instead of filtering locals(). Compare against a verbatim copy of the old
# function and against datetime.replace applied with plain Python.

import datetime
import itertools
import warnings
import numpy as np

warnings.simplefilter("ignore")

from dataiter import Vector, dt, util
from dataiter.dt import _pull_datetime

def old_replace(x, year=None, month=None, day=None, hour=None, minute=None, second=None, microsecond=None):
    # Verbatim copy of the function before the change.
    kwargs = {k: v for k, v in locals().items() if k != "x" and v is not None}
    if all(map(util.is_scalar, kwargs.values())):
        return _pull_datetime(x, lambda y: y.replace(**kwargs))
    for value in kwargs.values():
        assert util.is_scalar(value) or len(value) == len(x)
    scalar_keys = [x for x in kwargs if util.is_scalar(kwargs[x])]
    vector_keys = [x for x in kwargs if x not in scalar_keys]
    assert isinstance(x, np.ndarray)
    assert np.issubdtype(x.dtype, np.datetime64)
    out = np.full_like(x, np.nan)
    out = Vector.fast(out, np.datetime64)
    na = np.isnat(x)
    xobj = x.astype(object)
    kwargs_scalar = {x: kwargs[x] for x in scalar_keys}
    for i in np.flatnonzero(~na):
        for key in vector_keys:
            kwargs_scalar[key] = kwargs[key][i]
        out[i] = xobj[i].replace(**kwargs_scalar)
    return out

def run(f):
    try:
        return ("ok", f())
    except BaseException as e:
        # Errors from the call itself name the function.
        return ("error", type(e), str(e).replace("old_replace()", "replace()"))

def same(a, b):
    if a[0] != b[0]: return False
    if a[0] == "error": return a[1:] == b[1:]
    a, b = a[1], b[1]
    if not type(a) is type(b): return False
    if isinstance(a, np.ndarray):
        return a.dtype == b.dtype and a.shape == b.shape and a.tobytes() == b.tobytes()
    return a.dtype == b.dtype and (a == b or (np.isnat(a) and np.isnat(b)))

def python_replace(x, **kwargs):
    # x: list of datetime.date / datetime.datetime / None, kwargs: scalars or lists.
    out = []
    for i, item in enumerate(x):
        kw = {k: (v[i] if isinstance(v, list) else v) for k, v in kwargs.items() if v is not None}
        out.append(None if item is None else item.replace(**kw))
    return out

dates = dt.new(["2022-10-15", "NaT", "2021-02-03", "2020-02-29"])
times = dt.new(["2022-10-15T12:34:56.789012", "NaT", "1969-12-31T23:59:59.999999", "2020-02-29T00:00:00"])
xs = {
    "dates": dates,
    "times": times,
    "times s": times.as_datetime("s"),
    "times ns": times.as_datetime("ns"),
    "empty": dates[:0],
    "all na": dt.new(["NaT", "NaT", "NaT", "NaT"]),
    "single": dates[:1],
    "plain ndarray": np.asarray(times),
    "scalar date": np.datetime64("2022-10-15"),
    "scalar time": np.datetime64("2022-10-15T12:34:56"),
    "scalar NaT": np.datetime64("NaT"),
    "python date": datetime.date(2022, 10, 15),
    "python datetime": datetime.datetime(2022, 10, 15, 12, 34, 56),
    "list": [np.datetime64("2022-10-15")],
    "string vector": Vector(["2022-10-15"]),
}
N = 4
components = {
    "year":   [None, 1999, 0, Vector([2000, 2001, 2002, 2004]), [1, 9999, 2000, 2001]],
    "month":  [None, 1, 13, Vector([1, 2, 3, 4]), (12, 11, 10, 9), Vector([1.0, np.nan, 3.0, 4.0])],
    "day":    [None, 28, 31, Vector([1, 2, 3, 4]), [1, 2], Vector([1, 2, 3, 4], np.uint8)],
    "hour":   [None, 0, 23, Vector([0, 1, 2, 3])],
    "minute": [None, 0, Vector([0, 59, 1, 2])],
    "second": [None, 0, 61],
    "microsecond": [None, 0, 999999, Vector([0, 1, 2, 999999])],
}

n = 0
names = list(components)
# All single components and all pairs of components, with every x.
combos = []
for name in names:
    combos += [{name: v} for v in components[name]]
for a, b in itertools.combinations(names, 2):
    combos += [{a: v, b: w} for v in components[a][1:] for w in components[b][1:]]
combos.append({})
combos.append(dict(year=2000, month=2, day=29, hour=1, minute=2, second=3, microsecond=4))
combos.append(dict(year=Vector([2000] * N), month=[2] * N, day=(29,) * N, hour=Vector([1] * N),
                   minute=Vector([2] * N), second=Vector([3] * N), microsecond=Vector([4] * N)))
combos.append(dict(microsecond=Vector([4] * N), year=2000))  # keywords in another order
for xname, x in xs.items():
    for kwargs in combos:
        n_vec = len(x) if isinstance(x, (np.ndarray, list)) else None
        kw = {k: (v[:n_vec] if isinstance(v, np.ndarray) and n_vec in (0, 1) else v) for k, v in kwargs.items()}
        x_before = x.copy() if isinstance(x, np.ndarray) else x
        kw_before = {k: (v.copy() if isinstance(v, np.ndarray) else v) for k, v in kw.items()}
        old = run(lambda: old_replace(x, **kw))
        new = run(lambda: dt.replace(x, **kw))
        assert same(old, new), (xname, kw, old, new)
        again = run(lambda: dt.replace(x, **kw))
        assert same(new, again), (xname, kw)
        if new[0] == "ok" and isinstance(new[1], np.ndarray):
            assert isinstance(new[1], Vector)
            assert not np.shares_memory(new[1], x)
            if new[1].size: assert not np.shares_memory(new[1], again[1])
        # Arguments are left alone.
        if isinstance(x, np.ndarray):
            assert x.dtype == x_before.dtype and x.tobytes() == x_before.tobytes()
        for k, v in kw.items():
            if isinstance(v, np.ndarray):
                assert v.dtype == kw_before[k].dtype and v.tobytes() == kw_before[k].tobytes()
        n += 1

# Positional arguments and the vector proxy go the same way.
assert same(run(lambda: old_replace(dates, 2000, 1)), run(lambda: dt.replace(dates, 2000, 1)))
assert same(run(lambda: old_replace(dates, None, Vector([1, 2, 3, 4]))), run(lambda: dates.dt.replace(None, Vector([1, 2, 3, 4]))))
assert same(run(lambda: old_replace(dates, 1, 2, 3, 4, 5, 6, 7, 8)), run(lambda: dt.replace(dates, 1, 2, 3, 4, 5, 6, 7, 8)))
assert same(run(lambda: old_replace(dates, x=1)), run(lambda: dt.replace(dates, x=1)))
assert same(run(lambda: old_replace(dates, k=1)), run(lambda: dt.replace(dates, k=1)))
assert same(run(lambda: old_replace()), run(lambda: dt.replace()))

# Independent expectations with plain Python.
pd = [datetime.date(2022, 10, 15), None, datetime.date(2021, 2, 3), datetime.date(2020, 2, 29)]
pt = [datetime.datetime(2022, 10, 15, 12, 34, 56, 789012), None,
      datetime.datetime(1969, 12, 31, 23, 59, 59, 999999), datetime.datetime(2020, 2, 29)]
cases = [
    (dates, pd, dict(month=1, day=1)),
    (dates, pd, dict(year=None, month=1)),
    (dates, pd, dict()),
    (dates, pd, dict(year=[2000, 2001, 2002, 2004])),
    (dates, pd, dict(year=[2000, 2001, 2002, 2004], day=1)),
    (times, pt, dict(hour=0, minute=0, second=0, microsecond=0)),
    (times, pt, dict(microsecond=[0, 1, 2, 999999], hour=23)),
    (times, pt, dict(year=[1, 2, 3, 9999], month=[1, 2, 3, 4], day=[5, 6, 7, 8], hour=[0, 1, 2, 3],
                     minute=[0, 59, 1, 2], second=[0, 1, 2, 3], microsecond=[0, 1, 2, 3])),
]
for x, px, kwargs in cases:
    vkwargs = {k: (Vector(v) if isinstance(v, list) else v) for k, v in kwargs.items()}
    for kw in (kwargs, vkwargs):
        got = dt.replace(x, **kw)
        assert got.dtype == x.dtype and isinstance(got, Vector)
        assert got.tolist() == python_replace(px, **kwargs), (kwargs, got)
assert dt.replace(np.datetime64("2022-10-15"), month=1, day=1) == np.datetime64("2022-01-15").astype("datetime64[D]").item().replace(day=1)
assert np.isnat(dt.replace(np.datetime64("NaT"), month=1))
assert run(lambda: dt.replace(dates, month=13))[1] is ValueError
assert run(lambda: dt.replace(dates, day=[1, 2]))[1] is AssertionError
assert run(lambda: dt.replace(dates, hour=1))[1] is TypeError

print(f"OK, {n} combinations compared")
