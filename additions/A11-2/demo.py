import os, sys; sys.path.insert(0, os.getcwd())

# Change 2: Vector.rank rejects an unknown method before doing any work.
# Expected ranks are computed with plain Python lists.

import datetime
import math
import numpy as np

from dataiter import Vector

NaN = float("nan")
D1, D2, D3 = [datetime.date(2020, 1, i) for i in (1, 2, 3)]
problems = []

def is_missing(value):
    return (value is None or value == "" or
            (isinstance(value, float) and math.isnan(value)))

def expected_rank(values, method):
    present = [(v, i) for i, v in enumerate(values) if not is_missing(v)]
    missing = [i for i, v in enumerate(values) if is_missing(v)]
    out = [None] * len(values)
    only = [v for v, i in present]
    if method == "min":
        for v, i in present:
            out[i] = sum(1 for w in only if w < v) + 1
        for i in missing:
            out[i] = len(present) + 1
    if method == "max":
        for v, i in present:
            out[i] = sum(1 for w in only if w <= v)
        for i in missing:
            out[i] = len(values)
    if method == "ordinal":
        order = sorted(present, key=lambda vi: vi[0])  # stable
        for rank, (v, i) in enumerate(order, 1):
            out[i] = rank
        for k, i in enumerate(missing, 1):
            out[i] = len(present) + k
    return out

CASES = [
    ([], None), ([], int), ([], str), ([], object), ([], "datetime64[D]"),
    ([7], int), ([NaN], float), ([""], str), ([None], "datetime64[D]"),
    ([3, 1, 1, 1, 2, 2], int),
    ([3.5, NaN, 1.0, 1.0, NaN, -math.inf, math.inf], float),
    ([NaN, NaN, NaN], float),
    ([True, False, True], bool),
    (["b", "a", "", "b", "c", ""], str),
    (["", "", ""], str),
    (["x" * 60, "a", "", "x" * 60], str),
    ([D2, None, D1, D2, D3], "datetime64[D]"),
    ([None, None], "datetime64[D]"),
    (["b", "a", "b"], object),
]

BAD_METHODS = ["average", "dense", "", "MIN", "min ", None, 0, 1, 1.5, b"min", ("min",), ["min"]]

for values, dtype in CASES:
    vector = Vector(values, dtype)
    before = vector.copy()
    for method in ["min", "max", "ordinal"]:
        for repeat in range(2):
            got = vector.rank(method=method)
            expected = expected_rank(values, method)
            label = f"rank({values!r}, {method})"
            if not (type(got) is Vector and got.dtype == np.dtype(int) and got.tolist() == expected):
                problems.append(f"{label}: got {got!r}, expected {expected!r}")
    # Default method is "min".
    if vector.rank().tolist() != expected_rank(values, "min"):
        problems.append(f"default method: {values!r}")
    for method in BAD_METHODS:
        label = f"rank({values!r}, method={method!r})"
        if len(values) == 0:
            # Empty vectors have never looked at method: no error.
            try:
                got = vector.rank(method=method)
            except Exception as error:
                problems.append(f"{label}: raised {type(error).__name__}")
            else:
                if not (type(got) is Vector and got.dtype == np.dtype(int) and got.length == 0):
                    problems.append(f"{label}: got {got!r}")
            continue
        try:
            vector.rank(method=method)
        except ValueError as error:
            if str(error) != f"Unexpected method: {method!r}":
                problems.append(f"{label}: message {error}")
        except Exception as error:
            problems.append(f"{label}: raised {type(error).__name__}")
        else:
            problems.append(f"{label}: did not raise")
    if not (vector.equal(before) and vector.dtype == before.dtype):
        problems.append(f"input changed: {values!r}")

# Method given as a NumPy string scalar or one-element array: as with ==.
vector = Vector([3, 1, 2, 1])
for method in [np.str_("max"), np.array(["max"]), np.array("max")]:
    if vector.rank(method=method).tolist() != [4, 2, 3, 2]:
        problems.append(f"method {method!r}")
for method in [np.array(["min", "max"]), np.array(["foo", "bar"])]:
    try:
        vector.rank(method=method)
    except ValueError:
        pass  # ambiguous truth value, as before
    except Exception as error:
        problems.append(f"array method: {type(error).__name__}")
    else:
        problems.append("array method did not raise")

# Mixed objects cannot be ordered: TypeError with a known method,
# ValueError with an unknown one, as before.
mixed = Vector(["a", 1, None], object)
for method, expected in [("min", TypeError), ("max", TypeError), ("ordinal", TypeError), ("foo", ValueError)]:
    try:
        mixed.rank(method=method)
    except expected:
        pass
    except Exception as error:
        problems.append(f"mixed {method}: {type(error).__name__}")
    else:
        problems.append(f"mixed {method}: did not raise")

# method is keyword-only.
try:
    vector.rank("min")
except TypeError:
    pass
else:
    problems.append("positional method accepted")

for problem in problems:
    print("PROBLEM:", problem)
print("OK" if not problems else f"{len(problems)} problems")
sys.exit(1 if problems else 0)
