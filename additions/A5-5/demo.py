import os, sys; sys.path.insert(0, os.getcwd())

import contextlib
import io
import numpy as np
import re

from dataiter import Vector, dtypes, regex, util

failures = []

def check(cond, label):
    if not cond:
        failures.append(label)
        print("FAIL:", label)

def old_sub(pattern, repl, string, count=0, flags=0):
    # Verbatim copy of regex.sub before the change.
    if util.is_scalar(string):
        return re.sub(pattern, repl, string, count=count, flags=flags)
    out, na = regex._prep(string, dtypes.string, dtypes.string.na_object)
    for i in np.flatnonzero(~na):
        out[i] = re.sub(pattern, repl, string[i], count=count, flags=flags)
    return Vector.fast(out, str)

def run(function, *args, **kwargs):
    stdout = io.StringIO()
    with contextlib.redirect_stdout(stdout):
        try:
            value = function(*args, **kwargs)
        except Exception as error:
            value = error
    return value, stdout.getvalue()

def same(a, b):
    if isinstance(a, Exception) or isinstance(b, Exception):
        return type(a) is type(b) and str(a) == str(b)
    if isinstance(a, np.ndarray) or isinstance(b, np.ndarray):
        return (type(a) is type(b) and
                a.dtype == b.dtype and
                a.shape == b.shape and
                a.flags.writeable == b.flags.writeable and
                a.flags.c_contiguous == b.flags.c_contiguous and
                np.ndarray.tolist(a) == np.ndarray.tolist(b))
    return type(a) is type(b) and a == b

def compare(pattern, repl, strings, label, independent=True, **kwargs):
    x = strings if isinstance(strings, np.ndarray) else Vector(strings, str)
    before = np.ndarray.tolist(x)
    new, new_stdout = run(regex.sub, pattern, repl, x, **kwargs)
    old, old_stdout = run(old_sub, pattern, repl, x, **kwargs)
    check(same(new, old), f"{label}: new {new!r} vs. old {old!r}")
    check(new_stdout == old_stdout, f"{label}: same output printed")
    check(np.ndarray.tolist(x) == before, f"{label}: argument unchanged")
    if isinstance(new, Exception):
        return
    check(not np.shares_memory(new, x), f"{label}: fresh result")
    if independent:
        # Independent expectation in plain Python.
        with contextlib.redirect_stdout(io.StringIO()):
            expected = [re.sub(pattern, repl, s, **kwargs) if s != "" else "" for s in before]
        check(type(new) is Vector, f"{label}: type")
        check(new.dtype == dtypes.string, f"{label}: dtype")
        check(np.ndarray.tolist(new) == expected, f"{label}: values")
    if new.size > 0:
        # Mutating the result must not show in a later call.
        new[0] = "mutated"
        again, _ = run(regex.sub, pattern, repl, x, **kwargs)
        check(same(again, old), f"{label}: repeated call")

# Ordinary, duplicates, missing.
compare(r"$", r"!", ["great", "fantastic"], "docstring example")
compare(r"[aeiou]", r"_", ["one", "two", "one", "", "three", "two", "", "one"], "duplicates and missing")
compare(r"[aeiou]", r"_", ["one"] * 5, "all the same")
compare(r"[aeiou]", r"_", ["one"], "single")
compare(r"[aeiou]", r"_", ["", ""], "all missing")
compare(r"[aeiou]", r"_", Vector([], str), "empty")
compare(r"[aeiou]", r"_", [None, "one", None, "one"], "None as missing")
compare(r"^.*$", r"", ["one", "two", "one"], "result is blank")
compare(r"x", r"y", ["one", "two", "one"], "nothing to replace")
compare(r"(o)(n)", r"\2\1\g<0>", ["one", "none", "one"], "group references")
compare(r"o", r"\\", ["one", "foo", "one"], "escaped backslash in repl")
compare(r"o", r"0", ["foo", "foo", "oooo"], "count", count=1)
compare(r"o", r"0", ["foo", "foo", "oooo"], "count two", count=2)
compare(re.compile(r"O", re.I), r"0", ["foo", "FOO", "foo"], "compiled pattern")
compare(r"(?i)O", r"0", ["foo", "FOO", "foo"], "inline flag")
# Non-ASCII: composed and decomposed forms are different strings.
compare(r"\w", r"x", ["\u00e5", "a\u030a", "\u00e5", "a\u030a", "\U0001f600\U0001f600", "\u00df"], "non-ASCII")
compare("\u00e5", "\u00e4\u00f6", ["\u00e5\u00e5", "b\u00e5", "\u00e5\u00e5", "ba\u030a"], "non-ASCII pattern and repl")
compare(r"a", r"b", ["a\0a", "a\0", "a\0a", "a"], "embedded and trailing NUL")
compare(r"\s+", r" ", ["a  b", "a \t\n b", "a  b", " "], "whitespace")
# Flags other than the default.
compare(r"O", r"0", ["foo", "FOO", "foo"], "flags ignore case", flags=re.I)
compare(r"^o", r"0", ["o\no", "o\no"], "flags multiline", flags=re.M)
compare(r"o", r"0", ["foo", "foo", "", "foo"], "flags debug prints", flags=re.DEBUG)
compare(r"o", r"0", ["foo", "foo"], "flags debug and ignore case", flags=re.DEBUG | re.I)
compare(r"o", r"0", ["foo", "foo"], "flags False", flags=False)
compare(r"o", r"0", ["foo", "foo"], "flags numpy zero", flags=np.int64(0))
compare(r"o", r"0", ["foo", "foo"], "flags as RegexFlag zero", flags=re.RegexFlag(0))
# Callable repl: must be called exactly as often and in the same order as before.
calls = []
def repl(match):
    calls.append(match.group(0))
    return str(len(calls))
new = regex.sub(r"o", repl, Vector(["foo", "foo", "", "foo"]))
new_calls = calls[:]
calls.clear()
old = old_sub(r"o", repl, Vector(["foo", "foo", "", "foo"]))
check(same(new, old) and new_calls == calls and len(calls) == 6, "callable repl with side effects")
check(np.ndarray.tolist(new) == ["f12", "f34", "", "f56"], "callable repl values")
# A count that is not a plain integer could count its uses, too.
class Count:
    uses = 0
    def __index__(self):
        Count.uses += 1
        return 1
new = regex.sub(r"o", r"0", Vector(["foo", "foo", "", "foo"]), count=Count())
new_uses, Count.uses = Count.uses, 0
old = old_sub(r"o", r"0", Vector(["foo", "foo", "", "foo"]), count=Count())
check(same(new, old) and new_uses == Count.uses == 3, "count object with side effects")
compare(r"o", r"0", ["foo", "foo", "oooo"], "count numpy integer", count=np.int64(1))
compare(r"o", r"0", ["foo", "foo", "oooo"], "count True", count=True)
compare(r"o", r"0", ["foo", "foo", "oooo"], "count negative", count=-1)
compare(r"o", r"0", ["foo", "foo", "oooo"], "count huge", count=2**70)
# Subclasses of str could be up to anything.
class Str(str):
    pass
compare(Str(r"o"), r"0", ["foo", "foo"], "str subclass as pattern")
compare(r"o", Str(r"0"), ["foo", "foo"], "str subclass as repl")
# Errors.
compare(r"(", r"x", ["one", "one"], "bad pattern")
compare(r"(", r"x", ["", ""], "bad pattern, all missing")
compare(r"(", r"x", Vector([], str), "bad pattern, empty")
compare(r"o", r"\1", ["one", "one"], "bad group reference")
compare(r"o", r"\1", ["xyz", "xyz"], "bad group reference, no match", independent=False)
compare(b"o", r"x", ["one", "one"], "bytes pattern")
compare(r"o", b"x", ["one", "one"], "bytes repl")
compare(r"o", None, ["one", "one"], "None repl")
compare(None, r"x", ["one", "one"], "None pattern")
compare(r"o", r"x", ["one", "one"], "bad count", count="1")
compare(r"o", r"x", ["one", "one"], "bad flags", flags="i")
compare(r"o", r"x", ["one", "one"], "float flags", flags=0.0)
compare(r"o", r"x", ["one", "one"], "None flags", flags=None)
compare(re.compile(r"o"), r"x", ["one", "one"], "compiled pattern with flags", flags=re.I)
compare(r"o", r"x", np.array(["one", "one"]).view(Vector), "fixed-width string vector")
compare(r"o", r"x", Vector([1, 2]), "integer vector")
compare(r"o", r"x", np.array([["one", "one"], ["two", "two"]], dtypes.string).view(Vector), "2-D")
compare(r"o", r"x", np.array(["one", "", "one"], dtypes.string), "plain array")
# Large with many duplicates.
compare(r"\d", r"#", [f"id{i % 50}" for i in range(20000)], "large")

# Scalars.
for args in [(r"o", r"0", "foo"), (r"o", r"0", ""), (r"(", r"0", "foo")]:
    new, _ = run(regex.sub, *args)
    old, _ = run(old_sub, *args)
    check(same(new, old), f"scalar {args!r}")
check(regex.sub(r"o", r"0", "foo") == "f00", "scalar value")

# Via the vector proxy.
x = Vector(["great", "fantastic", "great", ""])
check(np.ndarray.tolist(x.re.sub(r"$", r"!")) == ["great!", "fantastic!", "great!", ""], "proxy")

print("OK" if not failures else f"{len(failures)} FAILURES")
sys.exit(1 if failures else 0)
