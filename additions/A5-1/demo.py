import os, sys; sys.path.insert(0, os.getcwd())

import datetime
import numpy as np

from dataiter import Vector, dtypes

failures = []

def check(cond, label):
    if not cond:
        failures.append(label)
        print("FAIL:", label)

def old_is_na(self):
    # Verbatim copy of Vector.is_na before the change.
    if self.is_datetime():
        return np.isnat(self)
    if self.is_timedelta():
        return np.isnat(self)
    if self.is_float():
        return np.isnan(self)
    if self.is_string() or self._is_string_fixed():
        return self == dtypes.string.na_object
    return self.fast([x is None for x in self], bool)

def same_array(a, b):
    return (type(a) is type(b) and
            a.dtype == b.dtype and
            a.dtype.byteorder == b.dtype.byteorder and
            a.shape == b.shape and
            a.strides == b.strides and
            a.flags.writeable == b.flags.writeable and
            a.flags.owndata == b.flags.owndata and
            a.flags.c_contiguous == b.flags.c_contiguous and
            type(a.base) is type(b.base) and
            a.tolist() == b.tolist()) if isinstance(a, np.ndarray) else a == b

def compare(v, label):
    new = v.is_na()
    old = old_is_na(v)
    check(same_array(new, old), f"{label}: new vs. old implementation")
    # Independent expectation in plain Python.
    if v.dtype.kind in "biu":
        expected = [False for i in range(v.shape[0])]
        check(type(new) is Vector, f"{label}: type")
        check(new.dtype == np.dtype(bool), f"{label}: dtype")
        check(np.ndarray.tolist(new) == expected, f"{label}: values")
        check(new.shape == (v.shape[0],), f"{label}: shape")
        # Result must be fresh and writable on every call.
        new[:] = True
        again = v.is_na()
        check(np.ndarray.tolist(again) == expected, f"{label}: repeated call after mutating result")
        check(again is not new and not np.shares_memory(again, new), f"{label}: fresh result")
        check(not np.shares_memory(again, v), f"{label}: no aliasing with self")

i8 = np.iinfo(np.int64)
u8 = np.iinfo(np.uint64)
arrays = {
    "bool": np.array([True, False, True]),
    "bool empty": np.array([], bool),
    "int8": np.array([-128, 0, 127], np.int8),
    "int16": np.array([-32768, 32767], np.int16),
    "int32": np.array([1, 1, 1, 2], np.int32),
    "int64 extreme": np.array([i8.min, -1, 0, 1, i8.max], np.int64),
    "uint8": np.array([0, 255], np.uint8),
    "uint16": np.array([0, 65535], np.uint16),
    "uint32": np.array([0, 2**32 - 1], np.uint32),
    "uint64 extreme": np.array([0, u8.max, u8.max], np.uint64),
    "int empty": np.array([], int),
    "int single": np.array([7]),
    "int big-endian": np.array([3, 1, 2], ">i4"),
    "int strided": np.arange(20)[::3],
    "int reversed": np.arange(5)[::-1],
    "int large": np.arange(100000) % 7,
    # Other dtypes must keep going through the old branches.
    "float": np.array([1.5, np.nan, np.inf, -np.inf, -0.0, np.nan]),
    "float32": np.array([np.nan, 1], np.float32),
    "float empty": np.array([], float),
    "float all nan": np.array([np.nan, np.nan]),
    "date": np.array(["2020-01-01", "NaT"], "datetime64[D]"),
    "datetime": np.array(["NaT", "2020-01-01T12:00:00"], "datetime64[us]"),
    "timedelta": np.array([1, "NaT", 3], "timedelta64[s]"),
    "timedelta all nat": np.array(["NaT"], "timedelta64[D]"),
    "complex": np.array([1+2j, complex(np.nan, 0)]),
    "bytes": np.array([b"a", b""]),
    "fixed string": np.array(["a", "", "åäö"]),
    "string": np.array(["a", "", "åäö", "\U0001f600"], dtypes.string),
    "string empty": np.array([], dtypes.string),
    "object": np.array([1, None, "a", np.nan, None, [1, 2]], object),
    "object ints": np.array([1, 2, None], object),
    "object empty": np.array([], object),
    "structured": np.array([(1, 2), (3, 4)], "i4,i4"),
}
for label, array in arrays.items():
    compare(array.view(Vector), label)

# Vectors built the ordinary ways.
compare(Vector([1, 2, 3]), "Vector list of ints")
compare(Vector([True, False]), "Vector list of bools")
compare(Vector([1, 2, None]), "Vector ints with None (float)")
compare(Vector([True, None]), "Vector bools with None (object)")
compare(Vector([]), "Vector empty")
compare(Vector.fast([1, 2, 3], np.uint8), "Vector.fast uint8")
compare(Vector(range(10)), "Vector range")

# A twisted two-dimensional vector iterates over rows.
compare(np.arange(6).reshape(3, 2).view(Vector), "2-D int")
compare(np.zeros((0, 3), bool).view(Vector), "2-D empty bool")

# Mutating the vector afterwards can't matter, nor can it for callers.
v = Vector([3, 1, 2])
na = v.is_na()
v[0] = 100
check(np.ndarray.tolist(na) == [False, False, False], "mutation of self after call")

# Methods built on is_na.
v = Vector([3, 1, 2, 1])
check(v.tolist() == [3, 1, 2, 1], "tolist")
check(all(type(x) is int for x in v.tolist()), "tolist types")
check(v.sort().tolist() == [1, 1, 2, 3] and v.sort().dtype == v.dtype, "sort")
check(v.sort(dir=-1).tolist() == [3, 2, 1, 1], "sort descending")
check(v.drop_na().tolist() == [3, 1, 2, 1], "drop_na")
check(v.replace_na(0).tolist() == [3, 1, 2, 1], "replace_na")
check(v.rank().tolist() == [4, 1, 3, 1], "rank")
check(bool(v.equal(Vector([3, 1, 2, 1]))), "equal")
check(not v.equal(Vector([3, 1, 2, 2])), "not equal")
b = Vector([True, False, True])
check(b.tolist() == [True, False, True], "bool tolist")
check(b.sort().tolist() == [False, True, True], "bool sort")
u = Vector.fast([u8.max, 0], np.uint64)
check(u.tolist() == [u8.max, 0], "uint64 tolist")
check(u.sort().tolist() == [0, u8.max], "uint64 sort")

print("OK" if not failures else f"{len(failures)} FAILURES")
sys.exit(1 if failures else 0)
