import os, sys; sys.path.insert(0, os.getcwd())
import re
import numpy as np
import dataiter as di
from dataiter import Vector, dtypes, regex, util

def old_sub(pattern, repl, string, count=0, flags=0):
    # The original implementation, verbatim.
    if util.is_scalar(string):
        return re.sub(pattern, repl, string, count=count, flags=flags)
    out, na = regex._prep(string, dtypes.string, dtypes.string.na_object)
    for i in np.flatnonzero(~na):
        out[i] = re.sub(pattern, repl, string[i], count=count, flags=flags)
    return Vector.fast(out, str)

def run(f, *args, **kwargs):
    try:
        r = f(*args, **kwargs)
        if isinstance(r, np.ndarray):
            return (type(r), r.dtype, r.shape, np.asarray(r).astype(object).tolist())
        return (type(r), r)
    except Exception as e:
        return ("raised", type(e).__name__, str(e))

rng = np.random.default_rng(7)
words = ["great", "", "fantastic", "great", "é", "é", "日本語", "ß", "SS", "ss", "Great", " great", "great ", "a\nb", "a\nb", "\x00", "𝒳x", "", "great"]
vectors = [
    Vector(words), Vector(words)[::2], Vector(words)[::-1],
    Vector.fast([], str), Vector(["", ""]), Vector([None]), Vector(["x"]), Vector(["x", "x", "x"]),
    Vector.fast(rng.choice(["one two", "three", "", "four  five"], 1000), str),   # lots of duplicates
    np.array(words, dtypes.string),                                               # plain ndarray
]
calls = [
    (r"$", r"!", {}), (r"[a-z]", r"<\g<0>>", {}), (r"(e)", r"\1\1", {"count": 1}), (r"g", "G", {"flags": re.I}),
    (r"E", "x", {"flags": re.IGNORECASE}), (r"e", "x", {"flags": re.IGNORECASE | re.ASCII}), (re.compile(r"\s+"), " ", {}),
    (r"^", "> ", {"flags": re.M}), (r".", "", {"flags": re.S}), (r"\w", "_", {"count": 2}), (r"", "-", {}), (r"x", "", {}),
    (r"ß", "ss", {"flags": re.I}), (r"(?i)s+", "§", {}), ("é", "e", {}), ("́", "", {}),
    # Errors: bad pattern, bad group reference, bad types, compiled pattern with flags.
    (r"(", "x", {}), (r"(a)", r"\2", {}), (r"a", 5, {}), (r"a", b"x", {}), (b"a", "x", {}), (5, "x", {}),
    (re.compile("a"), "x", {"flags": re.I}), (r"a", "x", {"count": "1"}), (r"a", "x", {"flags": "I"}), (r"a", None, {}),
]
for v in vectors:
    keep = v.copy()
    for pattern, repl, kwargs in calls:
        new, old = run(regex.sub, pattern, repl, v, **kwargs), run(old_sub, pattern, repl, v, **kwargs)
        assert new == old, (pattern, repl, kwargs, new, old)
        assert run(regex.sub, pattern, repl, v, **kwargs) == new       # repeated call
        if isinstance(v, Vector):
            assert run(v.re.sub, pattern, repl, **kwargs) == new       # via the proxy
        if new[0] != "raised":
            # Independent expectation, one element at a time in plain Python.
            exp = [x if x == "" else re.sub(pattern, repl, x, **kwargs) for x in np.asarray(v).astype(object).tolist()]
            out = regex.sub(pattern, repl, v, **kwargs)
            assert type(out) is Vector and out.is_string() and out.dtype == dtypes.string
            assert np.asarray(out).astype(object).tolist() == exp
            # A fresh result: changing it does not affect the argument or a later result.
            if len(out): out[0] = "changed"
            assert np.asarray(regex.sub(pattern, repl, v, **kwargs)).astype(object).tolist() == exp
    assert np.array_equal(np.asarray(v), np.asarray(keep))             # argument untouched

# No memory between calls: other arguments, mutated input.
v = Vector(["aa", "aa"])
assert regex.sub("a", "b", v).tolist() == ["bb", "bb"]
assert regex.sub("a", "c", v).tolist() == ["cc", "cc"]
assert regex.sub("a", "c", v, count=1).tolist() == ["ca", "ca"]
v[1] = "ab"
assert regex.sub("a", "c", v).tolist() == ["cc", "cb"]

# A function as repl is still called for every match of every element, in order,
# so that state and side effects work as before.
def make():
    seen = []
    def repl(match):
        seen.append((match.string, match.start()))
        return str(len(seen))
    return seen, repl
v = Vector(["ab", "ab", "", "b", "ab"])
seen1, repl1 = make(); new = regex.sub("b", repl1, v)
seen2, repl2 = make(); old = old_sub("b", repl2, v)
assert new.tolist() == old.tolist() == ["a1", "a2", None, "3", "a4"]
assert seen1 == seen2 == [("ab", 1), ("ab", 1), ("b", 0), ("ab", 1)]
class Repl:
    n = 0
    def __call__(self, match):
        self.n += 1
        return "x" * self.n
r = Repl(); assert regex.sub("b", r, v).tolist() == ["ax", "axx", None, "xxx", "axxxx"] and r.n == 4

# Scalars: untouched.
assert regex.sub(r"$", "!", "great") == "great!" and regex.sub(r"$", "!", "") == "!"

# Not string vectors or wrong dimensions: as before.
two = np.array([["a", "b"]], dtypes.string)
for bad in [Vector([1, 2]), Vector.fast(["a"], "U1"), Vector.fast(["a"], object), ["a", "b"],
            two, two.T, two.view(Vector), np.array("a", dtypes.string), np.array("", dtypes.string)]:
    assert run(regex.sub, "a", "b", bad) == run(old_sub, "a", "b", bad), (bad, run(regex.sub, "a", "b", bad), run(old_sub, "a", "b", bad))
print("OK")
