import os, sys; sys.path.insert(0, os.getcwd())

# Change 6: GeoJSON.write builds one JSON encoder and reuses it for the
# metadata and all features when the options allow that. Compare the written
# bytes (also what is left in the file upon an error) with the old
# implementation and with hand-written expectations.

import datetime
import json
import shutil
import tempfile

import numpy as np

from attd import AttributeDict
from dataiter import GeoJSON
from dataiter import test
from dataiter import util

failures = []

def check(condition, message):
    if not condition:
        failures.append(message)
        print("FAIL:", message[:1000])

def old_write(self, path, *, encoding="utf-8", **kwargs):
    # The implementation before the change.
    kwargs.setdefault("default", str)
    kwargs.setdefault("ensure_ascii", False)
    indent_width = kwargs.pop("indent", 2) or 0
    indent1 = " " * indent_width * 1
    indent2 = " " * indent_width * 2
    if "geometry" not in self:
        raise ValueError("Geometry missing")
    data = self.to_list_of_dicts()
    util.makedirs_for_file(path)
    with util.xopen(path, "wt", encoding=encoding) as f:
        f.write("{\n")
        for key, value in self.metadata.items():
            name = json.dumps(key, ensure_ascii=kwargs["ensure_ascii"])
            blob = json.dumps(value, **kwargs)
            f.write(f'{indent1}{name}: {blob},\n')
        f.write(f'{indent1}"features": [\n')
        for i, item in enumerate(data):
            geometry = item.pop("geometry")
            blob = {"type": "Feature", "properties": item, "geometry": geometry}
            blob = json.dumps(blob, **kwargs)
            comma = "," if i < len(data) - 1 else ""
            f.write(f"{indent2}{blob}{comma}\n")
        f.write(f"{indent1}]\n")
        f.write("}\n")

tmpdir = tempfile.mkdtemp(dir=os.environ.get("TMPDIR") or None)
counter = iter(range(10**6))

def written(function, data, make_kwargs, suffix=".geojson"):
    # Return the error, if any, and the bytes in the file, if any.
    path = os.path.join(tmpdir, "sub", f"{next(counter)}{suffix}")
    kwargs = make_kwargs()
    calls = kwargs.pop("_calls_", None)
    error = None
    try:
        function(data, path, **kwargs)
    except Exception as e:
        error = (type(e), str(e))
    content = None
    if os.path.exists(path):
        try:
            with util.xopen(path, "rb") as f:
                content = f.read()
        except EOFError:
            content = "truncated"
    return error, content, calls

def point(x, y):
    return {"type": "Point", "coordinates": [x, y]}

nan = float("nan")

def make(**columns):
    return GeoJSON(**columns)

def objects(*values):
    array = np.empty(len(values), object)
    for i, value in enumerate(values):
        array[i] = value
    return array

class Thing:
    def __str__(self):
        return "thing ☃"

frames = {}
frames["ordinary"] = make(name=["a", "b", "c"], n=[1, 2, 3], geometry=[point(0, 0), point(1.5, -2), point(3, 4)])
frames["no rows"] = make(name=[], geometry=[])
frames["single row"] = make(name=["only"], geometry=[point(1, 2)])
frames["only geometry"] = make(geometry=[point(1, 2), None])
frames["missing"] = make(x=[1.0, nan, 3.0], s=["a", None, ""], b=[True, False, True],
                         geometry=[point(0, 0), None, point(nan, float("inf"))])
frames["floats"] = make(x=[nan, float("inf"), -float("inf"), -0.0, 1e300],
                        o=objects(nan, float("inf"), -float("inf"), -0.0, 1e300),
                        geometry=[point(0, i) for i in range(5)])
frames["integers"] = make(u=np.array([0, 2**64 - 1], np.uint64), i=np.array([-2**63, 2**63 - 1], np.int64),
                          o=np.array([2**70, -2**70], object), geometry=[point(2**64, -2**63), point(0, 0)])
frames["text"] = make(näme=["Åland ☃ 日本", 'quo"te\\', "new\nline\t\x00"], geometry=[point(0, 0)] * 3)
frames["dates"] = make(d=np.array(["2020-01-01", "NaT", "1970-01-01"], "datetime64[D]"),
                       t=np.array([1, "NaT", -5], "timedelta64[s]"),
                       p=objects(datetime.date(2020, 1, 2), None, Thing()), geometry=[point(0, 0)] * 3)
frames["nested"] = make(o=objects({"b": 1, "a": [1, {"z": 1, "y": (2, 3)}]}, [1, 2], {1: "int key", None: "none key"}),
                        geometry=[{"type": "Polygon", "coordinates": [[[0, 0], [1, 0], [1, 1], [0, 0]]]},
                                  {"type": "GeometryCollection", "geometries": [point(0, 0)]}, point(1, 1)])
frames["bad keys"] = make(o=objects({(1, 2): "tuple key"}, {"fine": 1}), geometry=[point(0, 0), point(1, 1)])
frames["key order"] = make(z=[1, 2], a=[3, 4], geometry=[point(0, 0), point(1, 1)], m=[5, 6])
frames["no geometry"] = make(a=[1, 2])

frames["metadata"] = frames["ordinary"].copy()
frames["metadata"].metadata = AttributeDict(
    type="FeatureCollection", name="näme ☃",
    crs={"type": "name", "properties": {"name": "urn:ogc:def:crs:OGC:1.3:CRS84"}},
    bbox=[-1.5, nan, 2, 2**64], z=None, a=True, when=datetime.date(2020, 1, 2))
frames["empty metadata"] = frames["ordinary"].copy()
frames["empty metadata"].metadata = AttributeDict()
frames["no rows, empty metadata"] = frames["no rows"].copy()
frames["no rows, empty metadata"].metadata = AttributeDict()
frames["odd metadata"] = frames["single row"].copy()
frames["odd metadata"].metadata = AttributeDict({1: "x", "t": (1, 2), "s": Thing(), "d": {(1, 2): 3}})
frames["file"] = test.geojson("neighbourhoods.geojson").head(20)

class Encoder(json.JSONEncoder):
    instances = 0
    def __init__(self, **kwargs):
        type(self).instances += 1
        self.number = type(self).instances
        super().__init__(**kwargs)
    def default(self, o):
        return f"<{self.number}: {o}>"

def with_recording_default():
    calls = []
    def default(x):
        calls.append(repr(x))
        return f"({x})"
    return {"default": default, "_calls_": calls}

def with_encoder_class():
    Encoder.instances = 0
    return {"cls": Encoder, "default": None}

all_kwargs = [
    lambda: {},
    lambda: {"indent": 0},
    lambda: {"indent": None},
    lambda: {"indent": 4},
    lambda: {"indent": 1, "sort_keys": True},
    lambda: {"ensure_ascii": True},
    lambda: {"ensure_ascii": True, "default": repr, "sort_keys": 1},
    lambda: {"default": None},
    lambda: {"default": None, "ensure_ascii": True},
    lambda: {"default": 5},
    with_recording_default,
    lambda: {"allow_nan": False},
    lambda: {"allow_nan": False, "check_circular": False},
    lambda: {"check_circular": False},
    lambda: {"skipkeys": True},
    lambda: {"skipkeys": False, "sort_keys": False, "allow_nan": True, "check_circular": True},
    lambda: {"separators": (",", ":")},
    lambda: {"separators": (" , ", " : "), "sort_keys": True},
    lambda: {"separators": None},
    lambda: {"separators": 5},
    lambda: {"cls": None},
    lambda: {"cls": json.JSONEncoder},
    with_encoder_class,
    lambda: {"cls": 5},
    lambda: {"unknown": 1},
    lambda: {"obj": 1},
    lambda: {"encoding": "utf-16"},
    lambda: {"encoding": "ascii"},
    lambda: {"encoding": "ascii", "ensure_ascii": True},
    lambda: {"encoding": "latin-1", "sort_keys": True},
]

for name, data in frames.items():
    for make_kwargs in all_kwargs:
        for suffix in [".geojson", ".geojson.gz"]:
            if suffix.endswith(".gz") and make_kwargs().keys() - {"indent", "ensure_ascii"}: continue
            before = (data.to_string(), dict(data.metadata))
            new = written(GeoJSON.write, data, make_kwargs, suffix)
            old = written(old_write, data, make_kwargs, suffix)
            check(new == old, f"{name} {make_kwargs()} {suffix}:\n{new}\nvs\n{old}")
            check((data.to_string(), dict(data.metadata)) == before, f"{name}: data changed")

# The caller's keyword arguments are not changed more than before.
for function in [GeoJSON.write, old_write]:
    kwargs = {"sort_keys": True, "indent": 3}
    function(frames["ordinary"], os.path.join(tmpdir, "kwargs.geojson"), **kwargs)
    check(kwargs == {"sort_keys": True, "indent": 3}, "kwargs changed")

# Hand-written expectations.
def expect(data, text, **kwargs):
    path = os.path.join(tmpdir, f"{next(counter)}.geojson")
    data.write(path, **kwargs)
    with open(path, "rb") as f:
        result = f.read()
    check(result == text.encode(kwargs.get("encoding", "utf-8")), f"expected {text!r}, got {result!r}")

expect(frames["single row"], '''{
  "type": "FeatureCollection",
  "features": [
    {"type": "Feature", "properties": {"name": "only"}, "geometry": {"type": "Point", "coordinates": [1, 2]}}
  ]
}
''')
expect(frames["no rows"], '{\n"type": "FeatureCollection",\n"features": [\n]\n}\n', indent=0)
expect(frames["only geometry"], '''{
 "type": "FeatureCollection",
 "features": [
  {"type": "Feature", "properties": {}, "geometry": {"type": "Point", "coordinates": [1, 2]}},
  {"type": "Feature", "properties": {}, "geometry": null}
 ]
}
''', indent=1)
expect(frames["key order"].head(1), '''{
  "type": "FeatureCollection",
  "features": [
    {"geometry": {"coordinates": [0, 0], "type": "Point"}, "properties": {"a": 3, "m": 5, "z": 1}, "type": "Feature"}
  ]
}
''', sort_keys=True)
expect(frames["text"].head(1), '''{
  "type": "FeatureCollection",
  "features": [
    {"type": "Feature", "properties": {"n\\u00e4me": "\\u00c5land \\u2603 \\u65e5\\u672c"}, "geometry": {"type": "Point", "coordinates": [0, 0]}}
  ]
}
''', ensure_ascii=True)
expect(frames["text"].head(1), '''{
  "type": "FeatureCollection",
  "features": [
    {"type": "Feature", "properties": {"näme": "Åland ☃ 日本"}, "geometry": {"type": "Point", "coordinates": [0, 0]}}
  ]
}
''', encoding="utf-16")
expect(frames["missing"], '''{
  "type": "FeatureCollection",
  "features": [
    {"type": "Feature", "properties": {"x": 1.0, "s": "a", "b": true}, "geometry": {"type": "Point", "coordinates": [0, 0]}},
    {"type": "Feature", "properties": {"x": null, "s": null, "b": false}, "geometry": null},
    {"type": "Feature", "properties": {"x": 3.0, "s": null, "b": true}, "geometry": {"type": "Point", "coordinates": [NaN, Infinity]}}
  ]
}
''')
expect(frames["integers"], '''{
  "type": "FeatureCollection",
  "features": [
    {"type": "Feature", "properties": {"u": 0, "i": -9223372036854775808, "o": 1180591620717411303424}, "geometry": {"type": "Point", "coordinates": [18446744073709551616, -9223372036854775808]}},
    {"type": "Feature", "properties": {"u": 18446744073709551615, "i": 9223372036854775807, "o": -1180591620717411303424}, "geometry": {"type": "Point", "coordinates": [0, 0]}}
  ]
}
''')

# Round trip, twice, and after a later change of the data.
path = os.path.join(tmpdir, "round.geojson")
data = frames["metadata"].copy()
data.metadata = AttributeDict(type="FeatureCollection", name="näme ☃", bbox=[0, 1, 2, 3])
for i in range(2):
    data.write(path)
    back = GeoJSON.read(path)
    check(back == data and back.metadata == data.metadata, "round trip")
data.n = [10, 20, 30]
data.metadata.extra = {"a": [1]}
data.write(path)
back = GeoJSON.read(path)
check(back.n.tolist() == [10, 20, 30] and back.metadata.extra == {"a": [1]}, "after mutation")

shutil.rmtree(tmpdir)
print("failures:", len(failures))
sys.exit(1 if failures else 0)
