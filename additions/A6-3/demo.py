import os, sys; sys.path.insert(0, os.getcwd())

# Change 3: ListOfDicts.fill_missing_keys() without arguments skips items
# that already have as many keys as there are keys in total. Compare with
# the old implementation and with hand-written expectations.

import copy
import contextlib
import io
import math

from attd import AttributeDict
from dataiter import ListOfDicts

failures = []

def check(condition, message):
    if not condition:
        failures.append(message)
        print("FAIL:", message[:1000])

def old_fill_missing_keys(self, **key_value_pairs):
    # The implementation before the change, decorators spelled out.
    def generate(self, **key_value_pairs):
        if not key_value_pairs:
            key_value_pairs = dict.fromkeys(self.keys(), None)
        key_value_pairs = key_value_pairs.items()
        for item in self:
            for key, value in key_value_pairs:
                if key not in item:
                    item[key] = value
            yield item
    value = self._new(generate(self, **key_value_pairs))
    self._mark_obsolete()
    return value

def same_value(a, b):
    if type(a) is not type(b):
        return False
    if isinstance(a, dict):
        return (list(a.keys()) == list(b.keys()) and
                all(same_value(a[k], b[k]) for k in a))
    if isinstance(a, (list, tuple)):
        return len(a) == len(b) and all(map(same_value, a, b))
    if isinstance(a, float) and math.isnan(a):
        return math.isnan(b)
    return a == b

def state(data, result):
    # Everything observable about a call: the returned items (with key order
    # and types), which of them are the very same objects as the originals,
    # the flags of the old and the new object.
    return dict(
        type=type(result),
        items=[(type(x), list(x.items())) for x in result],
        same_objects=[[x is y for y in data] for x in result],
        original=[(type(x), list(x.items())) for x in data],
        group_keys=(data._group_keys, result._group_keys),
        obsolete=(data._obsolete, result._obsolete),
        predecessor=result._predecessor is data,
    )

def same_state(a, b):
    return (a.keys() == b.keys() and
            all(same_value(a[k], b[k]) for k in a))

def compare(name, make, **kwargs):
    data1, data2 = make(), make()
    out = []
    for function, data in [(ListOfDicts.fill_missing_keys, data1), (old_fill_missing_keys, data2)]:
        with contextlib.redirect_stdout(io.StringIO()) as f:
            try:
                result = function(data, **kwargs)
                out.append((state(data, result), f.getvalue()))
            except Exception as error:
                out.append(((type(error), str(error)), [list(x.items()) for x in data], data._obsolete, f.getvalue()))
    if isinstance(out[0][0], dict) and isinstance(out[1][0], dict):
        check(same_state(out[0][0], out[1][0]), f"{name} {kwargs}: {out[0][0]} vs {out[1][0]}")
        check(out[0][1] == out[1][1], f"{name} {kwargs}: printed output")
    else:
        check(repr(out[0]) == repr(out[1]), f"{name} {kwargs}: {out[0]} vs {out[1]}")

nan = float("nan")
shared = AttributeDict(a=1)
full = AttributeDict(a=1, b=2)

cases = {
    "empty": lambda: ListOfDicts([]),
    "empty items": lambda: ListOfDicts([{}, {}]),
    "single item": lambda: ListOfDicts([{"a": 1, "b": None}]),
    "single key": lambda: ListOfDicts([{"a": 1}, {"a": 2}]),
    "nothing missing": lambda: ListOfDicts([{"a": 1, "b": 2}, {"b": 3, "a": 4}]),
    "some missing": lambda: ListOfDicts([{"a": 1}, {"b": 2}, {"a": 3, "b": 4}, {}, {"c": nan}]),
    "first complete": lambda: ListOfDicts([{"a": 1, "b": 2, "c": 3}, {"b": 1}, {"c": 1, "a": 2}]),
    "last complete": lambda: ListOfDicts([{"b": 1}, {"c": 1, "a": 2}, {"c": 1, "b": 2, "a": 3}]),
    "none values": lambda: ListOfDicts([{"a": None}, {"a": None, "b": None}, {"b": nan}]),
    "text": lambda: ListOfDicts([{"näme": "Åland"}, {"日本": "☃", "näme": ""}]),
    "odd keys": lambda: ListOfDicts([{1: "a", None: "b", (1, 2): "c"}, {1: "c"}, {"": "d", 1.0: "e"}, {True: "f"}]),
    "integers": lambda: ListOfDicts([{"x": 2**64}, {"y": -2**63, "x": 0}]),
    "nested": lambda: ListOfDicts([{"a": [1], "b": {"c": 1}}, {"a": [2]}]),
    "same item twice": lambda: ListOfDicts([shared.copy()] * 2 + [full.copy()], as_is=True),
    "plain dicts as is": lambda: ListOfDicts([{"a": 1}, {"b": 2}, {"a": 1, "b": 2}], as_is=True),
    "grouped": lambda: ListOfDicts([{"g": 1}, {"g": 2, "x": 1}]).group_by("g"),
    "with predecessor": lambda: ListOfDicts([{"g": 1}, {"g": 2, "x": 1}, {"g": 3, "x": 2, "y": 3}])[:2],
    "many": lambda: ListOfDicts([{"i": i, **({"odd": i} if i % 2 else {})} for i in range(1000)]),
}

arguments = [
    {},
    {"a": 0},
    {"a": None},
    {"b": nan, "z": "ö"},
    {"a": 1, "b": 2},
    {"z": []},
    {"z": {"nested": [1]}},
]

for name, make in cases.items():
    for kwargs in arguments:
        compare(name, make, **kwargs)

# Hand-written expectations.
data = ListOfDicts([{"a": 1}, {"b": 2}, {"a": 3, "b": 4}, {}, {"b": 5, "a": 6}])
items = list(data)
new = data.fill_missing_keys()
check([list(x.items()) for x in new] == [
    [("a", 1), ("b", None)],
    [("b", 2), ("a", None)],
    [("a", 3), ("b", 4)],
    [("a", None), ("b", None)],
    [("b", 5), ("a", 6)],
], f"expected: fill all, {new!r}")
check(all(x is y for x, y in zip(new, items)), "expected: same dict objects")
check(all(type(x) is AttributeDict for x in new), "expected: item types")
check(new is not data and type(new) is ListOfDicts, "expected: new list")
check(data._obsolete and not new._obsolete, "expected: obsolete flags")
check(new._predecessor is data, "expected: predecessor")

data = ListOfDicts([{"a": 1, "b": 2}, {"a": 3, "b": 4}])
new = data.fill_missing_keys()
check(new == [{"a": 1, "b": 2}, {"a": 3, "b": 4}], "expected: nothing missing")
check(new is not data and new[0] is data[0] and new[1] is data[1], "expected: nothing missing, still a new list")
check(data._obsolete and not new._obsolete, "expected: nothing missing, obsolete flags")
list.append(new, AttributeDict(c=1))
check(len(data) == 2, "expected: result list is separate")

# With explicit keys the number of keys says nothing.
data = ListOfDicts([{"a": 1, "b": 2}, {"a": 3, "c": 4}, {"x": 1}])
new = data.fill_missing_keys(b=0, c=nan)
check(list(new[0].items())[:2] == [("a", 1), ("b", 2)] and math.isnan(new[0].c), "expected: explicit 0")
check(list(new[1].items()) == [("a", 3), ("c", 4), ("b", 0)], "expected: explicit 1")
check(list(new[2].items())[:2] == [("x", 1), ("b", 0)] and math.isnan(new[2].c), "expected: explicit 2")

# Repeated calls and later mutation.
data = ListOfDicts([{"a": 1}, {"b": 2}])
once = data.fill_missing_keys()
twice = once.fill_missing_keys()
check(once == twice == [{"a": 1, "b": None}, {"b": 2, "a": None}], "expected: repeated call")
twice[0].c = 1
thrice = twice.fill_missing_keys()
check(thrice == [{"a": 1, "b": None, "c": 1}, {"b": 2, "a": None, "c": None}], "expected: after mutation")
check(list(thrice[1]) == ["b", "a", "c"], "expected: key order after mutation")

# The obsolete warning of the predecessor is printed as before.
data = ListOfDicts([{"a": 1, "b": 2}])
new = data.fill_missing_keys()
with contextlib.redirect_stdout(io.StringIO()) as f:
    data.head()
    data.head()
check(f.getvalue() == "Warning: A successor has modified the shared dicts\n", "expected: warning once")

print("failures:", len(failures))
sys.exit(1 if failures else 0)
