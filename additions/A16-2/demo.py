import os, sys; sys.path.insert(0, os.getcwd())

# Change 2: DataFrame.unique finds the rows to keep with the order-preserving
# "seen set" comprehension instead of an index loop with append. The first
# occurrence of each key must still win and row order must be kept.

import math
import numpy as np
import dataiter as di

from dataiter import DataFrame, Vector

FAILURES = []

def check(cond, label):
    if not cond:
        FAILURES.append(label)
        print("FAIL:", label)

def canon(column):
    return (type(column).__name__, str(column.dtype), column.shape,
            [(type(x).__name__, repr(x)) for x in column])

def same_frame(a, b):
    return (type(a) is type(b) and
            list(a.keys()) == list(b.keys()) and
            all(canon(a[k]) == canon(b[k]) for k in a))

def old_unique(self, *colnames):
    # The implementation before the change, verbatim
    # (generator body wrapped the way deco.new_from_generator does).
    def generate():
        nonlocal colnames
        colnames = colnames or self.colnames
        columns = [self[x] for x in colnames]
        for i, column in enumerate(list(columns)):
            if column.is_datetime() or column.is_float() or column.is_timedelta():
                na = column.is_na()
                if not na.any(): continue
                zero = np.zeros(1, column.dtype)[0]
                columns[i] = column.replace_na(zero)
                columns.append(na)
        rows = list(zip(*columns))
        seen = set()
        keep = []
        for i in range(self.nrow):
            if rows[i] not in seen:
                seen.add(rows[i])
                keep.append(i)
        for colname, column in self.items():
            yield colname, column[keep].copy()
    return self._new(generate())

def norm(value):
    # Key element for the independent plain-Python reference.
    if isinstance(value, (np.datetime64, np.timedelta64)):
        return "NaT" if str(value) == "NaT" else value
    if isinstance(value, (float, np.floating)):
        # A NaN *object* inside an object column only equals itself.
        if math.isnan(value):
            return ("nan-object", id(value)) if type(value) is float else "NaN"
        return float(value)
    return value

def expected_keep(data, colnames):
    # Quadratic scan with ==, no hashing: first occurrence wins.
    colnames = list(colnames) or data.colnames
    keys, keep = [], []
    for i in range(data.nrow):
        key = [norm(data[c][i]) for c in colnames]
        if not any(key == k for k in keys):
            keys.append(key)
            keep.append(i)
    return keep

def obj(*values):
    out = np.empty(len(values), object)
    for i, value in enumerate(values):
        out[i] = value
    return out

nan = float("nan")
nan2 = float("nan")
frames = {}
frames["mixed"] = DataFrame(
    #  0     1     2     3     4          5           6     7     8     9
    f=[1.5,  nan,  -0.0, 0.0,  math.inf,  -math.inf,  nan,  1.5,  0.0,  math.inf],
    i=np.array([0, -1, 2**63 - 1, -2**63, 0, 2**63 - 1, -1, 0, -2**63, 5], np.int64),
    u=np.array([0, 2**64 - 1, 2**64 - 1, 2**63, 0, 2**63, 1, 0, 2**64 - 2, 1], np.uint64),
    b=[True, False, True, False, True, False, True, True, False, False],
    s=["a", "", "ä", "ä", "", "A", "a", "😀", "😀", "ä"],
    o=obj(None, nan, nan, nan2, None, (1, 2), (1, 2), "", 0, False),
    d=np.array(["2020-01-01", "NaT", "1970-01-01", "NaT", "2020-01-01", "1970-01-01", "NaT", "2262-04-11", "1677-09-22", "2262-04-11"], "datetime64[D]"),
    t=np.array([1, "NaT", 0, 0, "NaT", -5, 1, 2**62, -2**62, 2**62], "timedelta64[ns]"),
    y=np.array([b"a", b"", b"a", b"", b"b", b"B", b"a", b"", b"b", b"c"]),
    k=[7] * 10,
)
frames["nat_vs_epoch"] = DataFrame(
    # Missing values are replaced with zero internally:
    # they must still be told apart from real zeros.
    f=[0.0, nan, 0.0, nan, -0.0],
    d=np.array(["1970-01-01", "NaT", "NaT", "1970-01-01", "1970-01-01"], "datetime64[s]"),
    t=np.array([0, "NaT", 0, "NaT", 0], "timedelta64[D]"),
)
frames["all_missing"] = DataFrame(
    f=[nan, nan, nan],
    s=["", "", ""],
    o=obj(None, None, None),
    d=np.array(["NaT"] * 3, "datetime64[ns]"),
)
frames["all_same"] = DataFrame(x=[1, 1, 1, 1], y=["a", "a", "a", "a"])
frames["all_distinct"] = DataFrame(x=[3, 1, 2], y=["c", "a", "b"])
frames["sorted_desc_dups"] = DataFrame(x=[3, 3, 2, 2, 1, 1, 3, 2, 1], y=list("abcdefghi"))
frames["one_row"] = DataFrame(x=[nan], y=["a"])
frames["zero_rows"] = DataFrame(x=np.array([], float), y=np.array([], object), z=Vector([], str))
frames["no_columns"] = DataFrame()
frames["subclass"] = type("Sub", (DataFrame,), {})(x=[1.0, nan, 1.0, nan], y=["", "b", "", "b"])
rng = np.random.default_rng(1)
frames["random_ties"] = DataFrame(
    a=rng.integers(0, 4, 500),
    b=rng.choice([nan, 0.0, 1.0], 500),
    c=rng.choice(["", "x", "y"], 500),
    i=np.arange(500),
)

for name, data in frames.items():
    colnames = [c for c in data.colnames if c != "i"]
    selections = [(), tuple(colnames), tuple(reversed(colnames))]
    selections += [(c,) for c in colnames]
    selections += [(c, c) for c in colnames[:2]]
    selections += [tuple(colnames[i:i+2]) for i in range(len(colnames))]
    for sel in selections:
        before = data.deepcopy()
        new = data.unique(*sel)
        old = old_unique(data, *sel)
        label = f"{name} {sel}"
        check(same_frame(new, old), f"{label}: new != old")
        keep = expected_keep(data, sel)
        check(keep == sorted(keep), f"{label}: reference order")
        for c in data:
            want = [data[c][i] for i in keep]
            got = list(new[c])
            check([repr(x) for x in got] == [repr(x) for x in want], f"{label}: values of {c}: {got} vs {want}")
            check(new[c].dtype == data[c].dtype, f"{label}: dtype of {c}")
            check(isinstance(new[c], di.DataFrameColumn), f"{label}: column type of {c}")
            check(not np.shares_memory(new[c], data[c]), f"{label}: aliasing of {c}")
        check(new.nrow == (len(keep) if data else 0), f"{label}: row count")
        check(same_frame(data, before), f"{label}: input mutated")
        check(same_frame(data.unique(*sel), new), f"{label}: repeated call")
        if new.nrow > 0:
            first = new.colnames[0]
            new[first][0] = new[first][-1]
            check(same_frame(data, before), f"{label}: result mutation leaked")

# First occurrence wins: the payload column tells which duplicate survived.
data = DataFrame(key=["b", "a", "b", "a", "c", "b"], payload=[0, 1, 2, 3, 4, 5])
check(data.unique("key").payload.tolist() == [0, 1, 4], "first wins (strings)")
data = DataFrame(key=[nan, 0.0, nan, -0.0, 0.0], payload=[0, 1, 2, 3, 4])
check(data.unique("key").payload.tolist() == [0, 1], "first wins (nan / signed zero)")
data = DataFrame(key=obj(None, (1,), None, (1,)), payload=[0, 1, 2, 3])
check(data.unique("key").payload.tolist() == [0, 1], "first wins (None in object)")

# Same exceptions.
def outcome(function, *args):
    try:
        return ("ok", function(*args))
    except Exception as error:
        return (type(error).__name__, str(error))

data = frames["mixed"]
for sel in [("nope",), ("f", "nope"), (1,), (None,)]:
    a = outcome(data.unique, *sel)
    b = outcome(old_unique, data, *sel)
    check(a == b and a[0] == "KeyError", f"exception for {sel}: {a} vs {b}")
# Unhashable elements in an object column.
data = DataFrame(o=obj([1], [1], [2]), x=[1, 1, 2])
a = outcome(data.unique, "o")
b = outcome(old_unique, data, "o")
check(a == b and a[0] == "TypeError", f"unhashable: {a} vs {b}")
check(same_frame(data.unique("x"), old_unique(data, "x")), "unhashable column not used as key")
# A frame corrupted through the plain dict API fails the same way.
bad = DataFrame(x=[1.0, nan, 1.0])
bad.setdefault("y", di.DataFrameColumn([1.0, nan]))
for sel in [(), ("x",), ("y",)]:
    a = outcome(bad.unique, *sel)
    b = outcome(old_unique, bad, *sel)
    check(a == b and a[0] == "ValueError", f"corrupted frame {sel}: {a} vs {b}")

# Users of unique: aggregate, split, joins keep behaving.
data = frames["random_ties"]
stat = data.group_by("a", "b", "c").aggregate(n=di.count(), first=di.first("i"))
want = {}
for a, b, c, i in zip(data.a.tolist(), data.b.tolist(), data.c.tolist(), data.i.tolist()):
    want.setdefault((a, b, c), [0, i])[0] += 1
got = {(a, b, c): [n, f] for a, b, c, n, f in zip(
    stat.a.tolist(), stat.b.tolist(), stat.c.tolist(), stat.n.tolist(), stat["first"].tolist())}
check(got == want, "aggregate after unique")

print("FAILED" if FAILURES else "OK", len(FAILURES))
sys.exit(1 if FAILURES else 0)
