import os, sys; sys.path.insert(0, os.getcwd())

# Change 5: util.upad measures each string once instead of twice.
# Compare with (a) a verbatim copy of the old implementation and
# (b) padding computed independently from unicodedata.

import numpy as np
import unicodedata
import dataiter as di

from dataiter import util
from dataiter import DataFrame, Vector

def old_upad(strings, *, align="right"):
    def generate():
        width = max(util.ulen(x) for x in strings)
        for value in strings:
            padding = " " * (width - util.ulen(value))
            yield (padding + value
                   if align == "right"
                   else value + padding)
    return list(generate())

def outcome(function):
    try:
        return "ok", function()
    except Exception as error:
        return "error", (type(error), str(error))

def display_width(string):
    # Independent of wcwidth, good enough for the strings marked "simple".
    if any(unicodedata.category(x) == "Cc" for x in string):
        return 0
    return sum(0 if unicodedata.combining(x) or unicodedata.category(x) in ("Mn", "Me", "Cf")
               else 2 if unicodedata.east_asian_width(x) in "WF"
               else 1 for x in string)

simple = [
    ["a", "bb", "ccc"],
    ["", "", ""],
    [""],
    ["x"],
    ["same", "same", "same"],
    ["åäö", "a", "日本語", "ﾊﾝｶｸ", "é", "ＡＢ"],
    ["  lead", "trail  ", " "],
    ["tab\there", "new\nline", "ok", "\x7f"],
    ["1.5", "-0.0", "nan", "inf", "-inf", "NaT", "18446744073709551615", "-9223372036854775808"],
    ["x" * 1000, "", "y"],
]
tricky = [
    ["a‍b", "‍", "👨‍👩‍👧", "❤️", "️", "☺️!"],
    ["\U0001f600", "\U0001f1eb\U0001f1ee", "\u0000", "nul\x00", "­", "​", " "],
    ["\ud800", "\udfff", "a\udc80b"],
    [str(np.str_("åäö")), np.str_("日本"), np.str_("")],
]

n = 0
for strings in simple + tricky:
    for align in ["right", "left", "center", None, 1]:
        for container in [list, tuple, lambda x: np.array(x, object), lambda x: Vector.fast(x, str)]:
            try:
                seq = container(strings)
            except UnicodeEncodeError:
                continue
            copy = list(seq)
            new = util.upad(seq, align=align)
            old = old_upad(seq, align=align)
            assert type(new) is list and new == old, (strings, align, new, old)
            assert [type(x) for x in new] == [type(x) for x in old]
            assert list(seq) == copy
            assert util.upad(seq, align=align) == old
            if strings in simple:
                width = max(display_width(x) for x in strings)
                for value, padded in zip(strings, new):
                    padding = " " * (width - display_width(value))
                    expected = padding + value if align == "right" else value + padding
                    assert padded == expected, (strings, align, value, padded, expected)
            n += 1
    assert util.upad(strings) == old_upad(strings)

# Default argument, iterators and generators (which the old code exhausted
# while looking for the maximum width, returning an empty list).
for make in [lambda: iter(["a", "bbb"]), lambda: (x for x in ["a", "bbb"]), lambda: map(str, [1, 22]),
             lambda: iter([]), lambda: {"a": 1, "bbb": 2}, lambda: {"a": 1, "bbb": 2}.keys(), lambda: "abc", lambda: ""]:
    new = outcome(lambda: util.upad(make()))
    old = outcome(lambda: old_upad(make()))
    assert new == old, (new, old)
    n += 1

# Exceptions: empty input, elements that are not strings, not iterable at all.
class Odd:
    def __len__(self): return 1
    def __getitem__(self, i): raise RuntimeError("odd")
for args, kwargs in [(([],), {}), (((),), {}), ((np.array([], str),), {}), (([None],), {}),
                     ((["a", None],), {}), (([None, "a"],), {}), (([1, 2],), {}), (([b"ab", b"c"],), {}),
                     (([1.5, "a"],), {}), ((None,), {}), ((5,), {}),
                     (([["a"], ["bb"]],), {}), (([Odd()],), {}), ((["a", Odd()],), {}),
                     ((["ab", ("c",)],), {}), (([("c",), "ab"],), {})]:
    new = outcome(lambda: util.upad(*args, **kwargs))
    old = outcome(lambda: old_upad(*args, **kwargs))
    assert new == old, (args, new, old)
    n += 1

# The callers: printing of vectors and data frames.
data = DataFrame(
    x=[1.5, np.nan, -np.inf], i=[1, 1000000, -5], s=["åäö", "", "日本語"],
    d=Vector.fast(["2020-01-01", "NaT", "1970-01-01"], "datetime64[D]"),
    o=Vector.fast([None, "x", (1, 2)], object))
text = data.to_string()
lines = text.splitlines()
assert len(set(util.ulen(x) for x in lines[1:-1])) == 1, text
assert "日本語" in text and "åäö" in text
assert str(Vector.fast(["åäö", "日本語"], str)) == '[ "åäö" "日本語" ] string'

print(f"upad: {n} cases agree")
