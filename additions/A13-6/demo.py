import os, sys; sys.path.insert(0, os.getcwd())
import itertools, math, datetime, warnings
import numpy as np
import dataiter as di
from dataiter import DataFrame, DataFrameColumn, Vector, util

FAILURES = []

def check(label, ok):
    print(("ok   " if ok else "FAIL ") + label)
    if not ok:
        FAILURES.append(label)

def same_scalar(a, b):
    if type(a) is not type(b):
        return False
    if isinstance(a, (float, np.floating)) and a != a:
        return b != b
    if isinstance(a, (np.datetime64, np.timedelta64)) and np.isnat(a):
        return bool(np.isnat(b)) and a.dtype == b.dtype
    if isinstance(a, np.ndarray):
        return same_array(a, b)
    return bool(a == b)

def same_array(a, b):
    # Same class, dtype, shape and element-wise identical values
    # (NaN/NaT positions included, -0.0 vs 0.0 told apart via bytes).
    if type(a) is not type(b): return False
    if a.dtype != b.dtype or a.shape != b.shape: return False
    if a.dtype.kind in "biufcmMSUV?" and not a.dtype.hasobject:
        return a.tobytes() == b.tobytes()
    return all(same_scalar(x, y) for x, y in zip(list(a), list(b)))

def same_frame(a, b):
    return (type(a) is type(b) and
            list(a.keys()) == list(b.keys()) and
            all(same_array(a[k], b[k]) for k in a) and
            a._group_colnames == b._group_colnames)

def outcome(function):
    # Result or (exception type, message) of calling function.
    try:
        return ("value", function())
    except Exception as e:
        return ("error", type(e), str(e))

def same_outcome(x, y, same=None):
    if x[0] != y[0]: return False
    if x[0] == "error": return x[1:] == y[1:]
    return (same or same_frame)(x[1], y[1])

# --- Change 6 (fix): DataFrame.from_json / read_json with dtypes naming columns not in the data.

import json, tempfile

def old_from_json(cls, string, *, columns=[], dtypes={}, **kwargs):
    data = string
    if isinstance(data, str):
        data = json.loads(data, **kwargs)
    if not isinstance(data, list):
        raise TypeError("Not a list")
    keys = util.unique_keys(itertools.chain(*data))
    if columns:
        keys = [x for x in keys if x in columns]
    data = {k: [x.get(k, None) for x in data] for k in keys}
    for name, dtype in dtypes.items():
        data[name] = DataFrameColumn(data[name], dtype)
    return cls(**data)

# 1. The reported case: one dtypes dict shared between calls that limit columns.
text = '[{"id": 1, "price": 10.5, "hood": "a"}, {"id": 2, "price": null, "hood": "ö"}]'
dtypes = {"id": np.uint8, "price": float, "hood": str}
y = outcome(lambda: old_from_json(DataFrame, text, columns=["id", "price"], dtypes=dtypes))
check("used to raise KeyError", y == ("error", KeyError, "'hood'"))
data = DataFrame.from_json(text, columns=["id", "price"], dtypes=dtypes)
check("reported case: columns", data.colnames == ["id", "price"] and data.nrow == 2)
check("reported case: values", data.id.tolist() == [1, 2] and data.price.tolist() == [10.5, None])
check("reported case: requested dtypes applied to the columns there are", data.id.dtype == np.uint8 and data.price.dtype == np.float64)
check("dtypes argument untouched", dtypes == {"id": np.uint8, "price": float, "hood": str} and list(dtypes) == ["id", "price", "hood"])
check("repeated call", same_frame(data, DataFrame.from_json(text, columns=["id", "price"], dtypes=dtypes)))
# An optional field missing from all records, an empty array.
data = DataFrame.from_json('[{"id": 1}, {"id": 2}]', dtypes={"id": float, "comment": str})
check("name not in any record", data.colnames == ["id"] and data.id.dtype == np.float64 and data.id.tolist() == [1.0, 2.0])
check("name not in any record used to raise", outcome(lambda: old_from_json(DataFrame, '[{"id": 1}]', dtypes={"id": float, "comment": str}))[:2] == ("error", KeyError))
data = DataFrame.from_json("[]", dtypes={"id": int})
check("empty array", data.colnames == [] and data.nrow == 0 and same_frame(data, DataFrame.from_json("[]")))
check("empty array used to raise", outcome(lambda: old_from_json(DataFrame, "[]", dtypes={"id": int}))[:2] == ("error", KeyError))
# Same through read_json.
directory = tempfile.mkdtemp(dir=os.path.dirname(os.path.abspath(__file__)))
try:
    for suffix in ["", ".gz"]:
        path = os.path.join(directory, "data.json" + suffix)
        with util.xopen(path, "wt") as f:
            f.write(text)
        data = DataFrame.read_json(path, columns=["id", "price"], dtypes=dtypes)
        check(f"read_json{suffix}", data.colnames == ["id", "price"] and data.id.dtype == np.uint8 and data.price.tolist() == [10.5, None])
        data = DataFrame.read_json(path, dtypes=dtypes)
        check(f"read_json{suffix}, all columns", same_frame(data, old_from_json(DataFrame, text, dtypes=dtypes)))
finally:
    import shutil
    shutil.rmtree(directory)

# 2. Old against new.
inputs = {
    "empty": [],
    "empty records": [{}, {}],
    "one": [{"a": 1}],
    "ragged": [{"a": 1, "b": "x"}, {"c": 3.5, "a": None}, {}],
    "all missing": [{"a": None, "b": None}, {"a": float("nan")}],
    "non-ascii": [{"ä": "öö", "𝔘": "𝔘𝔫𝔦", "": 1}, {"": 2, "ä": None}],
    "extreme integers": [{"a": 2**63 - 1, "b": -2**63, "c": 2**64 - 1}, {"a": 0, "b": 1, "c": 0}],
    "special floats": [{"a": float("inf")}, {"a": float("-inf")}, {"a": float("nan")}, {"a": -0.0}],
    "dates as strings": [{"a": "2020-01-01", "b": "2020-01-01T12:00:00"}, {"a": None, "b": None}],
    "booleans": [{"a": True}, {"a": None}, {"a": False}],
    "nested": [{"a": [1, 2], "b": {"x": 1}}, {"a": [3], "b": None}],
    "duplicates": [{"a": 1, "b": "x"}] * 5,
    "text": '[{"a": 1, "b": null}, {"a": 2.5, "b": "x"}]',
    "text empty": '[]',
    "not records": [1, 2],
    "not a list": {"a": 1},
    "not json": "nope",
}
dtypes_variants = {
    "none": {},
    "present": {"a": float},
    "present object": {"a": object, "b": object},
    "present str": {"a": str},
    "present datetime": {"a": "datetime64[D]", "b": "datetime64[s]"},
    "present uint64": {"c": np.uint64},
    "present bad dtype": {"a": "no such dtype"},
    "absent": {"zzz": int},
    "absent first": {"zzz": int, "a": float},
    "absent last": {"a": float, "zzz": int},
    "absent bad dtype": {"zzz": "no such dtype", "a": object},
    "absent then bad dtype": {"zzz": int, "a": "no such dtype"},
    "absent non-ascii": {"ö": str, "ä": str},
    "absent not a string": {1: int, None: float, "a": float},
}
def present_names(string, columns):
    # Names of the columns to come, in plain Python.
    records = json.loads(string) if isinstance(string, str) else string
    names = []
    for record in records:
        for name in record:
            if name not in names:
                names.append(name)
    return [x for x in names if x in columns] if columns else names

columns_variants = [[], ["a"], ["b", "a"], ["zzz"], ["ä", ""]]
count_same = count_fixed = 0
for iname, string in inputs.items():
    for dname, dtypes in dtypes_variants.items():
        for columns in columns_variants:
            label = f"{iname} / dtypes {dname} / columns {columns}"
            before = dict(dtypes)
            x = outcome(lambda: DataFrame.from_json(string, columns=columns, dtypes=dtypes))
            y = outcome(lambda: old_from_json(DataFrame, string, columns=columns, dtypes=dtypes))
            check(f"{label}: dtypes untouched", dtypes == before and list(dtypes) == list(before))
            if y[0] == "error" and y[1] is KeyError:
                # An absent name. Now the same as if the absent names had been left out.
                names = present_names(string, columns)
                present = {k: v for k, v in dtypes.items() if k in names}
                z = outcome(lambda: old_from_json(DataFrame, string, columns=columns, dtypes=present))
                check(f"{label}: absent name", len(present) < len(dtypes))
                check(f"{label}: FIXED, as without the absent names: {x[0]}", same_outcome(x, z))
                count_fixed += 1
            else:
                check(f"{label}: {x[0]}", same_outcome(x, y))
                count_same += 1
check(f"{count_same} combinations unchanged, {count_fixed} fixed", count_same > 0 and count_fixed > 0)

# 3. Result is independent of the input.
items = [{"a": 1, "b": "x"}, {"a": 2, "b": "y"}]
data = DataFrame.from_json(items, dtypes={"a": float, "zzz": int})
data.a[0] = 100
check("input untouched", items == [{"a": 1, "b": "x"}, {"a": 2, "b": "y"}])
items[1]["a"] = 200
check("result untouched", data.a.tolist() == [100.0, 2.0])
# compare() builds its report with from_json, still the same.
old = DataFrame(id=[1, 2, 3], v=[1.0, 2.0, 3.0])
new = DataFrame(id=[1, 2, 4], v=[1.0, 2.5, 4.0])
added, removed, changed = new.compare(old, "id")
check("compare", added.id.tolist() == [4] and removed.id.tolist() == [3] and changed.colnames == ["id", "column", "xvalue", "yvalue"] and changed.xvalue.tolist() == [2.5] and changed.yvalue.tolist() == [2.0])

print(f"{len(FAILURES)} failures")
sys.exit(1 if FAILURES else 0)
