import os, sys; sys.path.insert(0, os.getcwd())
# Demo for change 2: DataFrame.__setitem__ with a key that is not a string
# raises TypeError (as before, from hasattr), after the value has been
# reconciled (as before); string keys of every kind work as before.
import datetime
import numpy as np
import dataiter as di
from dataiter import DataFrameColumn

FAILS = []
def check(label, ok):
    print(("ok   " if ok else "FAIL ") + label)
    if not ok: FAILS.append(label)

def exc_class(f):
    try:
        f()
    except BaseException as e:
        return type(e), str(e)
    return None, None

def state(data):
    # everything observable: keys in order, values, instance attributes, grouping
    return ([(k, dict.__getitem__(data, k).tolist(), str(dict.__getitem__(data, k).dtype)) for k in dict.keys(data)],
            sorted((k, v is di.DataFrame.COLUMN_PLACEHOLDER) for k, v in data.__dict__.items() if k != "_group_colnames"),
            data._group_colnames)

class Str(str): pass

# 1. string keys: new column, overwrite, broadcast, non-identifier, dict
#    method name, attribute notation, str subclasses, empty string
def fresh(): return di.DataFrame(x=[1, 2, 3], y=["a", "b", "c"])
data = fresh()
data["z"] = [4.0, 5.0, 6.0]
check("new column", [x[:2] for x in state(data)[0]] == [("x", [1, 2, 3]), ("y", ["a", "b", "c"]), ("z", [4.0, 5.0, 6.0])] and data.z.dtype == np.dtype("float64"))
check("new column has placeholder attribute", data.__dict__["z"] is di.DataFrame.COLUMN_PLACEHOLDER and data.z.tolist() == [4.0, 5.0, 6.0])
data["x"] = 0
check("overwrite + broadcast scalar", data.x.tolist() == [0, 0, 0] and data.colnames == ["x", "y", "z"])
data["not an identifier"] = [1]
check("non-identifier name, length-1 broadcast", data["not an identifier"].tolist() == [1, 1, 1] and "not an identifier" not in data.__dict__)
data["items"] = [7, 8, 9]
check("name of a dict method", data["items"].tolist() == [7, 8, 9] and "items" not in data.__dict__ and callable(data.items))
data[""] = [1, 2, 3]
check("empty string name", data[""].tolist() == [1, 2, 3] and "" not in data.__dict__)
data.w = [True, False, True]
check("attribute notation", data["w"].tolist() == [True, False, True] and data.colnames[-1] == "w")
for key in (Str("sub"), np.str_("npstr")):
    data = fresh()
    data[key] = [1, 2, 3]
    check(f"str subclass {type(key).__name__}", data[key].tolist() == [1, 2, 3] and data.colnames == ["x", "y", str(key)] and data.__dict__[key] is di.DataFrame.COLUMN_PLACEHOLDER)
# aliasing: a DataFrameColumn of the right length is stored as is
data = fresh()
column = DataFrameColumn([7, 8, 9])
data["c"] = column
check("column of right length stored without copy", dict.__getitem__(data, "c") is column)
# empty frames
data = di.DataFrame()
data["a"] = [1, 2]
check("first column of an empty frame", data.a.tolist() == [1, 2] and data.nrow == 2)
data = di.DataFrame(x=[])
data["a"] = []
check("zero-row frame, zero-length column", data.nrow == 0 and data.colnames == ["x", "a"])
check("zero-row frame, scalar -> ValueError", exc_class(lambda: data.__setitem__("b", 1))[0] is ValueError)
data = fresh().group_by("y")
data["z"] = 1
check("grouped frame stays grouped", data._group_colnames == ("y",) and data.z.tolist() == [1, 1, 1])

# 2. keys that are not strings: TypeError, nothing changed, also on repeat
bad_keys = [1, 0, -1, None, 1.5, float("nan"), ("a",), (), b"a", ["a"], {"a"}, datetime.date(2020, 1, 1), True, np.int64(3), object(), str]
for make in (fresh, lambda: di.DataFrame(), lambda: di.DataFrame(x=[]), lambda: fresh().group_by("x")):
    for key in bad_keys:
        data = make()
        before = state(data)
        for i in range(2):
            cls, msg = exc_class(lambda: data.__setitem__(key, [1, 2, 3] if data.nrow else []))
            check(f"key {key!r} -> TypeError [{msg}]", cls is TypeError)
        check(f"key {key!r}: frame unchanged", state(data) == before and len(data) == len(before[0]))

# 3. order of the checks: a value that cannot be reconciled is reported
#    first (ValueError), whatever the key
for key in bad_keys:
    data = fresh()
    cls, msg = exc_class(lambda: data.__setitem__(key, [1, 2]))
    check(f"key {key!r} with value of wrong length -> ValueError", cls is ValueError)
consumed = []
def gen():
    for i in range(3):
        consumed.append(i); yield i
data = fresh()
cls, msg = exc_class(lambda: data.__setitem__(1, gen()))
check("value is evaluated before the key is looked at", cls is TypeError and consumed == [0, 1, 2])

# 4. the colnames setter goes through __setitem__
data = fresh()
cls, msg = exc_class(lambda: setattr(data, "colnames", ["a", 2]))
check("colnames = ['a', 2] -> TypeError, columns popped as before", cls is TypeError and list(dict.keys(data)) == ["a"])
data = fresh()
data.colnames = ["b", "a"]
check("colnames setter", data.colnames == ["b", "a"] and data.b.tolist() == [1, 2, 3])

# 5. constructor is not touched: a non-string key fails there as before
check("DataFrame({1: [1]}) -> TypeError", exc_class(lambda: di.DataFrame({1: [1]}))[0] is TypeError)

print("FAILURES:", FAILS)
sys.exit(1 if FAILS else 0)
