import os, sys; sys.path.insert(0, os.getcwd())

import contextlib
import copy
import io

from attd import AttributeDict
from dataiter import ListOfDicts

WARNING = "Warning: A successor has modified the shared dicts\n"
failures = []

def check(label, ok):
    if not ok:
        failures.append(label)
        print("FAIL", label)

def flags(objects):
    # Read the flags without going through anything callable.
    return [x._obsolete for x in objects]

def captured(function, *args, **kwargs):
    out = io.StringIO()
    with contextlib.redirect_stdout(out):
        value = function(*args, **kwargs)
    return value, out.getvalue()

def make(n=3):
    return ListOfDicts({"id": i, "g": i % 2, "x": None if i == 1 else float(i)} for i in range(n))

OBSOLETING = {
    "fill_missing_keys": lambda x: x.fill_missing_keys(z=0),
    "inner_join": lambda x: x.inner_join(ListOfDicts([{"id": 0, "w": "ä"}]), "id"),
    "left_join": lambda x: x.left_join(ListOfDicts([{"id": 0, "w": "ä"}]), "id"),
    "modify": lambda x: x.modify(y=lambda r: r.id * 2),
    "modify_if": lambda x: x.modify_if(lambda r: r.x is not None, y=lambda r: r.x + 1),
    "rename": lambda x: x.rename(ident="id"),
    "select": lambda x: x.select("id"),
    "unselect": lambda x: x.unselect("g"),
}
NOT_OBSOLETING = {
    "append": lambda x: x.append({"id": 99}),
    "copy": lambda x: x.copy(),
    "slice": lambda x: x[:],
    "filter": lambda x: x.filter(g=0),
    "sort": lambda x: x.sort(id=-1),
    "reverse": lambda x: x.reverse(),
    "unique": lambda x: x.unique("g"),
    "head": lambda x: x.head(2),
    "extend": lambda x: x.extend([{"id": 5}]),
    "add": lambda x: x + x,
    "mul": lambda x: x * 2,
}

# THE REPORTED CASE: a long chain of predecessors, built by appending in a
# loop, followed by any of the methods that modify the dicts in place.
for name, method in OBSOLETING.items():
    data = make()
    chain = [data]
    for i in range(3, 5000):
        data = data.append({"id": i, "g": i % 2, "x": float(i)})
        chain.append(data)
    check(f"long {name}: chain length", len(chain) == 4998 and chain[-1]._predecessor is chain[-2])
    check(f"long {name}: nothing obsolete before", not any(flags(chain)))
    new, printed = captured(method, data)
    check(f"long {name}: no output", printed == "")
    check(f"long {name}: all of the chain obsolete", all(flags(chain)))
    check(f"long {name}: result not obsolete", new._obsolete is False and new._predecessor is data)
    check(f"long {name}: result length", len(new) == (1 if name == "inner_join" else 5000))
    check(f"long {name}: no warnings issued yet", not any(x._obsolete_warned for x in chain))
    # Every link warns exactly once when used.
    for link in [chain[0], chain[2500], chain[-1]]:
        _, printed = captured(lambda: (link.pluck("id"), link.pluck("id")))
        check(f"long {name}: warns once", printed == WARNING and link._obsolete_warned is True)
    # A second obsoleting call on the successor marks it too, the others stay marked.
    newer = new.select("id")
    check(f"long {name}: second call", all(flags(chain)) and new._obsolete is True and newer._obsolete is False)

# Results of the long case by hand.
data = ListOfDicts([{"i": 0}])
for i in range(1, 3000):
    data = data.append({"i": i})
new = data.modify(j=lambda r: r.i * 2)
check("long values", new.pluck("j") == [i * 2 for i in range(3000)])
check("long shared dicts", all(a is b for a, b in zip(new, data)))
# A deep copy is independent and has no predecessors.
deep, printed = captured(lambda: data.deepcopy())
check("deepcopy of obsolete warns", printed == WARNING)
check("deepcopy has no chain", deep._predecessor is None and deep._obsolete is False)
check("copy.deepcopy has no chain", copy.deepcopy(data)._predecessor is None)

# NEIGHBOURING CASES: short chains, every method, expected flags from a plain model.
for name, method in {**OBSOLETING, **NOT_OBSOLETING}.items():
    for depth in [0, 1, 2, 10, 400]:
        data = make()
        chain = [data]
        for i in range(depth):
            data = data.copy() if i % 2 else data[:]
            chain.append(data)
        new, printed = captured(method, data)
        expected = name in OBSOLETING
        check(f"{name} depth {depth}: flags", flags(chain) == [expected] * len(chain))
        check(f"{name} depth {depth}: no output", printed == "")
        check(f"{name} depth {depth}: result", type(new) is ListOfDicts and new._obsolete is False and new._predecessor is data)
        check(f"{name} depth {depth}: warned flags untouched", not any(x._obsolete_warned for x in chain))
        _, printed = captured(lambda: (chain[0].head(1), chain[0].tail(1)))
        check(f"{name} depth {depth}: warning", printed == (WARNING if expected else ""))

# Branches: only the ancestors of the modified object become obsolete.
a = make()
b = a.filter(g=0)
c = a.sort(id=-1)
d = c.head(2)
e = d.modify(y=lambda r: 1)
check("branches", flags([a, b, c, d, e]) == [True, False, True, True, False])
f = b.unselect("x")
check("branches later", flags([a, b, c, d, e, f]) == [True, True, True, True, False, False])

# Already obsolete links in the middle of a chain are passed, not a stopping point.
a = make()
b = a.copy()
c = b.copy()
b._obsolete = True
c.select("id")
check("passes obsolete links", flags([a, b, c]) == [True, True, True])

# A predecessor that is not a list of dicts ends the walk silently.
a = make()
a._predecessor = [AttributeDict(id=0)]
b = a.copy()
b.modify(y=lambda r: 1)
check("foreign predecessor", flags([a, b]) == [True, True])
a = make()
a._predecessor = None
a.modify(y=lambda r: 1)
check("no predecessor", a._obsolete is True)

# Grouping keeps working on the same object and aggregate (which uses select
# on a deep copy) does not make the original obsolete.
a = make(6)
g = a.group_by("g")
check("group_by returns self", g is a)
stat, printed = captured(lambda: g.aggregate(n=len))
check("aggregate", [dict(x) for x in stat] == [{"g": 0, "n": 3}, {"g": 1, "n": 3}] and printed == "")
check("aggregate does not obsolete", a._obsolete is False)

# Subclasses are handled the same.
class Sub(ListOfDicts):
    pass
a = Sub([{"id": 1}])
b = a.copy()
c = b.modify(z=lambda r: 0)
check("subclass", type(c) is Sub and flags([a, b, c]) == [True, True, False])

# Exceptions inside the method: nothing is marked (the generator is consumed
# in _new before marking).
a = make()
b = a.copy()
try:
    b.modify(y=lambda r: 1 / 0)
    check("should raise", False)
except ZeroDivisionError:
    pass
check("exception leaves flags", flags([a, b]) == [False, False])

# Empty and single-item lists.
for n in [0, 1]:
    a = make(n)
    b = a.copy()
    c = b.select("id")
    check(f"n={n}", flags([a, b, c]) == [True, True, False] and len(c) == n)

print("failures:", len(failures))
sys.exit(1 if failures else 0)
