import os, sys; sys.path.insert(0, os.getcwd())

# Change 3: DataFrame.cbind looks up the row count once instead of once per
# column. Compare with (a) a verbatim copy of the old implementation and
# (b) expected columns assembled with plain Python.

import numpy as np
import dataiter as di

from dataiter import DataFrame, DataFrameColumn, Vector

def old_cbind(self, *others):
    def generate():
        found_colnames = set()
        data_frames = [self] + list(others)
        for i, data in enumerate(data_frames):
            for colname, column in data.items():
                if colname in found_colnames: continue
                found_colnames.add(colname)
                column = self._reconcile_column(column)
                yield colname, column.copy()
    return self._new(generate())

def reprs(column):
    return [repr(x) for x in np.asarray(column)]

def check_same(a, b):
    assert type(a) is type(b), (type(a), type(b))
    assert list(a.keys()) == list(b.keys()), (list(a), list(b))
    for name in a:
        assert type(a[name]) is type(b[name]) is DataFrameColumn
        assert a[name].dtype == b[name].dtype, (name, a[name].dtype, b[name].dtype)
        assert a[name].shape == b[name].shape
        assert reprs(a[name]) == reprs(b[name]), name

def outcome(function):
    try:
        return "ok", function()
    except Exception as error:
        return "error", (type(error), str(error))

big = 2**63 - 1
def nasty(n, prefix=""):
    cycle = lambda values: [values[i % len(values)] for i in range(n)]
    return {
        prefix + "f": Vector.fast(cycle([np.nan, np.inf, -np.inf, -0.0, 0.0]), float),
        prefix + "u": Vector.fast(cycle([0, 2**64 - 1, 2**63]), np.uint64),
        prefix + "i": Vector.fast(cycle([-big - 1, big, 0, -1]), np.int64),
        prefix + "d": Vector.fast(cycle(["NaT", "2020-01-01", "1677-09-22"]), "datetime64[D]"),
        prefix + "m": Vector.fast(cycle([np.timedelta64("NaT"), np.timedelta64(-1, "s")]), "timedelta64[s]"),
        prefix + "s": Vector.fast(cycle(["", "åäö", "日本語"]), str),
        prefix + "fx": Vector.fast(cycle(["", "åäö", "x"]), "U3"),
        prefix + "by": Vector.fast(cycle([b"", b"\xff"]), "S1"),
        prefix + "o": Vector.fast(cycle([None, "x", 1.5]) + [None], object)[:n],
        prefix + "b": Vector.fast(cycle([True, False]), bool),
    }

frames = {
    "ordinary": DataFrame(x=[1, 2, 3], y=["a", "b", "c"]),
    "nasty": DataFrame(**nasty(5)),
    "one-row": DataFrame(**nasty(1)),
    "empty": DataFrame(**nasty(0)),
    "no-columns": DataFrame(),
}

def others_for(data):
    n = data.nrow
    yield "nothing", ()
    yield "same-length", (DataFrame(**nasty(n, "z")),)
    yield "same-length-overlap", (DataFrame(**nasty(n)), DataFrame(**nasty(n, "z")))
    yield "itself", (data,)
    yield "itself-twice", (data, data)
    yield "scalar-broadcast", (DataFrame(k=1), DataFrame(j="åäö", l=np.nan))
    yield "one-row", (DataFrame(**nasty(1, "z")),)
    yield "no-columns", (DataFrame(), DataFrame())
    yield "empty", (DataFrame(**nasty(0, "z")),)
    yield "longer", (DataFrame(**nasty(n + 2, "z")),)
    yield "shorter", (DataFrame(**nasty(max(n - 1, 0), "z")),)
    yield "plain-dict-lists", ({"p": list(range(n)), "q": ["ö"] * n},)
    yield "plain-dict-scalar", ({"p": 1, "q": None, "r": np.nan},)
    yield "plain-dict-arrays", ({"p": np.arange(n), "q": np.arange(n).astype("U2")},)
    yield "plain-dict-vectors", ({"p": Vector.fast(np.arange(n), float)},)
    yield "mixed", (DataFrame(**nasty(n, "z")), {"p": 1}, DataFrame(x=[0] * n, w=[1] * n))

n = 0
for label, data in frames.items():
    for olabel, others in others_for(data):
        before = [{k: reprs(v) for k, v in x.items()} for x in (data,) + others
                  if isinstance(x, DataFrame)]
        new = outcome(lambda: data.cbind(*others))
        old = outcome(lambda: old_cbind(data, *others))
        assert new[0] == old[0], (label, olabel, new, old)
        n += 1
        if new[0] == "error":
            assert new[1] == old[1], (label, olabel, new, old)
            continue
        new, old = new[1], old[1]
        check_same(new, old)
        # Expected built with plain Python: first occurrence of each name wins,
        # columns of self's length are taken as such, single values repeated.
        expected = {}
        for frame in (data,) + others:
            for name, column in frame.items():
                if name in expected: continue
                values = reprs(DataFrameColumn(column)) if not isinstance(column, DataFrameColumn) else reprs(column)
                if len(values) != data.nrow and data:
                    assert len(values) == 1, (label, olabel, name)
                    values = values * data.nrow
                expected[name] = values
        assert list(new) == list(expected), (label, olabel)
        for name in new:
            assert reprs(new[name]) == expected[name], (label, olabel, name)
        # Every column of the result is a fresh copy.
        for frame in (data,) + others:
            for name, column in frame.items():
                if isinstance(column, np.ndarray) and name in new:
                    assert new[name] is not column
                    assert not np.shares_memory(new[name], column), (label, olabel, name)
        for name in new:
            assert new[name].flags.owndata and new[name].flags.writeable
            if new.nrow > 0:
                new[name][0] = new[name][-1]
        after = [{k: reprs(v) for k, v in x.items()} for x in (data,) + others
                 if isinstance(x, DataFrame)]
        assert before == after, (label, olabel)
        check_same(data.cbind(*others), old)

# Later mutation of the arguments must not show in the result.
a = DataFrame(x=[1, 2, 3])
b = DataFrame(y=[4.0, 5.0, 6.0])
c = a.cbind(b)
a.x[0] = 100
b.y[0] = np.nan
assert c.x.tolist() == [1, 2, 3] and c.y.tolist() == [4.0, 5.0, 6.0]

# A subclass keeps its class.
class Sub(DataFrame): pass
assert type(Sub(x=[1, 2]).cbind(DataFrame(y=[3, 4]))) is Sub

# Columns made unequal behind the frame's back raise the same error as before,
# whichever of the frames is the broken one.
def broken():
    bad = DataFrame(x=[1, 2, 3], y=[4, 5, 6])
    dict.__setitem__(bad, "y", DataFrameColumn([1, 2]))
    return bad
twisted = DataFrame(x=[1, 2, 3, 4], y=[4, 5, 6, 7])
dict.__setitem__(twisted, "y", np.arange(4).reshape(2, 2).view(DataFrameColumn))
good = DataFrame(z=[7, 8, 9])
for args in [(broken(),), (broken(), good), (good, broken()), (broken(), broken()),
             (twisted,), (twisted, good), (good, twisted), (DataFrame(), broken()),
             (good, 1), (good, None), (good, [1, 2, 3]), (good, {"z": 1, 5: 2})]:
    new = outcome(lambda: args[0].cbind(*args[1:]))
    old = outcome(lambda: old_cbind(args[0], *args[1:]))
    assert new[0] == old[0], (new, old)
    if new[0] == "error":
        assert new[1] == old[1], (new, old)
    else:
        check_same(new[1], old[1])
    n += 1

print(f"cbind: {n} cases agree")
