import os, sys; sys.path.insert(0, os.getcwd())

# Change 6: dt.to_string works for datetimes with units finer than
# microseconds (datetime64[ns] above all), which used to fail with
# "'int' object has no attribute 'strftime'". The reported case is compared
# with strftime in plain Python, everything else against a verbatim copy of
# the old code.

import datetime
import warnings
import numpy as np

warnings.simplefilter("ignore")

from dataiter import Vector, dt, dtypes, util

def old_pull_str(x, function):
    # Verbatim copy of the function before the change.
    if util.is_scalar(x):
        x = Vector([x], np.datetime64)
        return old_pull_str(x, function)[0]
    assert isinstance(x, np.ndarray)
    assert np.issubdtype(x.dtype, np.datetime64)
    out = np.full_like(x, dtypes.string.na_object, object)
    out = Vector.fast(out, object)
    na = np.isnat(x)
    if na.all(): return out.as_string()
    f = np.vectorize(function)
    out[~na] = f(x[~na].astype(object))
    return out.as_string()

def old_to_string(x, format):
    return old_pull_str(x, lambda x: x.strftime(format))

def run(f):
    try:
        return ("ok", f())
    except BaseException as e:
        return ("error", type(e), str(e))

def same(a, b):
    if a[0] != b[0]: return False
    if a[0] == "error": return a[1:] == b[1:]
    a, b = a[1], b[1]
    if type(a) is not type(b): return False
    if isinstance(a, np.ndarray):
        return a.dtype == b.dtype and a.shape == b.shape and [x for x in a] == [x for x in b]
    return a == b

# ---------------------------------------------------------------------
# 1. The reported case.

EPOCH = datetime.datetime(1970, 1, 1)
def python_to_string(ints, per_us, format):
    # ints: counts of the fine unit since 1970 or None, per_us: how many of them make a microsecond.
    # Truncate towards the past to whole microseconds, like NumPy does.
    return ["" if i is None else (EPOCH + datetime.timedelta(microseconds=i // per_us)).strftime(format) for i in ints]

ns = [1665837296789012345, None, -1, 0, -(2**63) + 1, 2**63 - 1, 1665792000000000000, -86400 * 10**9, 999, -999, -1000, -1001]
formats = ["%d.%m.%Y", "%Y-%m-%dT%H:%M:%S.%f", "%Y年%m月%d日 %H時", "%H:%M:%S", "", "%%", "%j %a %b"]
units = [("ns", 10**3, ns), ("ps", 10**6, [1665837296789012345, None, -1, 0, -(2**63) + 1, 2**63 - 1]),
         ("fs", 10**9, [123456789012345678, None, -1]), ("as", 10**12, [2**63 - 1, None, -1, 0]),
         ("10ns", 10**2, [166583729678901234, None, -1, 0])]
for unit, per_us, ints in units:
    nat = np.datetime64("NaT")
    x = Vector.fast(np.array([nat if i is None else np.datetime64(i, unit) for i in ints], f"datetime64[{unit}]"))
    assert x.dtype == np.dtype(f"datetime64[{unit}]")
    for format in formats:
        expected = python_to_string(ints, per_us, format)
        for arg in [x, np.asarray(x), x[::-1][::-1], x.copy()]:
            assert run(lambda: old_to_string(arg, format))[:2] == ("error", AttributeError)
            before = arg.copy()
            got = dt.to_string(arg, format)
            assert isinstance(got, Vector) and got.is_string()
            assert [s for s in got] == expected, (unit, format, got, expected)
            assert got.is_na().tolist() == [i is None or s == "" for i, s in zip(ints, expected)]
            # The argument is left alone (same unit, same values).
            assert arg.dtype == before.dtype and arg.tobytes() == before.tobytes()
            assert same(("ok", got), ("ok", dt.to_string(arg, format)))
        assert same(("ok", got), ("ok", x.dt.to_string(format)))
        # Single row, no missing values, and scalars.
        for i, item in enumerate(x):
            assert [s for s in dt.to_string(x[i:i+1], format)] == expected[i:i+1]
            if ints[i] is not None:
                assert run(lambda: old_to_string(item, format))[:2] == ("error", AttributeError)
                got = dt.to_string(item, format)
                assert type(got) is str and got == expected[i], (unit, format, item, got)
        present = x[~np.isnat(x)]
        assert [s for s in dt.to_string(present, format)] == [s for s, i in zip(expected, ints) if i is not None]
# The same moments at microsecond precision give the same strings.
x = Vector.fast(np.array(["2022-10-15T12:34:56.789012345", "NaT", "1969-12-31T23:59:59.999999999"], "datetime64[ns]"))
assert [s for s in dt.to_string(x, "%Y-%m-%d %H:%M:%S.%f")] == ["2022-10-15 12:34:56.789012", "", "1969-12-31 23:59:59.999999"]
assert same(("ok", dt.to_string(x, "%c %f")), ("ok", dt.to_string(x.as_datetime("us"), "%c %f")))
assert dt.to_string(np.datetime64("2022-10-15T12:34:56.789012345"), "%S.%f") == "56.789012"

# Multiples of a fine unit that reach beyond what Python can represent:
# an error as before, never a wrong string.
x = Vector.fast(np.array([1665837296789, 10**15], "datetime64[1000000ns]"))
assert [s for s in dt.to_string(x[:1], "%Y-%m-%d %H:%M:%S.%f")] == ["2022-10-15 12:34:56.789000"]
assert run(lambda: old_to_string(x, "%Y"))[:2] == ("error", AttributeError)
assert run(lambda: dt.to_string(x, "%Y"))[:2] == ("error", AttributeError)
x = Vector.fast(np.array([1665837296789, 2**62], "datetime64[1000000ns]"))
assert run(lambda: old_to_string(x, "%Y"))[:2] == ("error", AttributeError)
assert run(lambda: dt.to_string(x, "%Y"))[:2] == ("error", OverflowError)
# Next to the minimum NumPy's own cast to microseconds wraps around (to 2262).
x = Vector.fast(np.array([-(2**63) + 1], "datetime64[ns]"))
assert [s for s in dt.to_string(x, "%Y-%m-%d %H:%M:%S.%f")] == ["1677-09-21 00:12:43.145224"]

# ---------------------------------------------------------------------
# 2. Neighbours: everything else does exactly what it did.

n = 0
base = dt.new(["2022-10-15T12:34:56.789012", "NaT", "1969-12-31T23:59:59.999999", "0001-01-01T00:00:00", "9999-12-31T23:59:59"])
others = [base.astype(f"datetime64[{u}]") for u in ["us", "ms", "s", "m", "h", "D", "W", "M", "Y", "2us", "10s", "3D"]]
others += [
    base[:0], base[1:2], base[:1], np.asarray(base), base.as_date(),
    dt.new(["NaT", "NaT"]), dt.new(["NaT", "NaT"]).astype("datetime64[ns]"), Vector([], "datetime64[ns]"), Vector([], "datetime64"),
    # years that Python cannot represent come back as integers: still an error
    Vector.fast(np.array(["10000-01-01", "2022-10-15"], "datetime64[D]")), Vector.fast(np.array(["-0001-01-01T00"], "datetime64[h]")),
    # scalars
    np.datetime64("2022-10-15"), np.datetime64("2022-10-15T12:34:56"), np.datetime64("2022-10-15T12:34:56.789012"),
    np.datetime64("NaT"), np.datetime64("NaT", "ns"), np.datetime64("2022", "Y"), datetime.date(2022, 10, 15),
    datetime.datetime(2022, 10, 15, 12, 34, 56, 789012), "2022-10-15", "2022-10-15T12:34:56", None, np.nan, 5, b"x", "x",
    # not datetimes / not arrays: still refused
    Vector(["2022-10-15"]), Vector([1, 2]), Vector([1.5]), Vector([3, "NaT"], "timedelta64[ns]"), Vector([None], object),
    [np.datetime64("2022-10-15")], (), {"a": 1},
]
for x in others:
    for format in formats + [None, 5, "%Q", "\ud800"]:
        old = run(lambda: old_to_string(x, format))
        new = run(lambda: dt.to_string(x, format))
        assert same(old, new), (x, format, old, new)
        n += 1
# Plain Python expectations.
assert [s for s in dt.to_string(dt.new(["2022-10-15", "NaT"]), "%d.%m.%Y")] == ["15.10.2022", ""]
assert [s for s in dt.to_string(base, "%Y-%m-%d %H:%M:%S.%f")] == [
    "2022-10-15 12:34:56.789012", "", "1969-12-31 23:59:59.999999",
    datetime.datetime(1, 1, 1).strftime("%Y-%m-%d %H:%M:%S.%f"), "9999-12-31 23:59:59.000000"]
assert dt.to_string(np.datetime64("2022-10-15"), "%d.%m.%Y") == "15.10.2022"
assert dt.to_string(np.datetime64("NaT"), "%d.%m.%Y") == ""

print(f"OK, {n} combinations compared")
