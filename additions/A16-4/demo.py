import os, sys; sys.path.insert(0, os.getcwd())

# Change 4: DataFrame.head / tail / sample resolve the default row count with
# "n = dataiter.DEFAULT_PEEK_ROWS if n is None else n" in the body: None is
# the only "not given" marker (0 is a real request for zero rows) and the
# module-level option is read at call time, not bound in the signature.

import inspect
import math
import numpy as np
import dataiter
import dataiter as di

from dataiter import DataFrame, Vector

import warnings
warnings.simplefilter("ignore") # nan / inf as n make NumPy warn, before and after alike

FAILURES = []

def check(cond, label):
    if not cond:
        FAILURES.append(label)
        print("FAIL:", label)

def canon(column):
    return (type(column).__name__, str(column.dtype), column.shape,
            [(type(x).__name__, repr(x)) for x in column])

def same_frame(a, b):
    return (type(a) is type(b) and
            list(a.keys()) == list(b.keys()) and
            all(canon(a[k]) == canon(b[k]) for k in a))

# The implementations before the change, verbatim.
def old_head(self, n=None):
    if n is None:
        n = dataiter.DEFAULT_PEEK_ROWS
    n = min(self.nrow, n)
    return self.slice(np.arange(n))

def old_tail(self, n=None):
    if n is None:
        n = dataiter.DEFAULT_PEEK_ROWS
    n = min(self.nrow, n)
    return self.slice(np.arange(self.nrow - n, self.nrow))

def old_sample(self, n=None):
    if n is None:
        n = dataiter.DEFAULT_PEEK_ROWS
    n = min(self.nrow, n)
    rows = np.random.choice(self.nrow, n, replace=False)
    return self.slice(np.sort(rows))

def outcome(function, *args, **kwargs):
    try:
        return ("ok", function(*args, **kwargs))
    except Exception as error:
        return (type(error).__name__, str(error))

def same_outcome(a, b):
    if a[0] != b[0]: return False
    if a[0] == "ok": return same_frame(a[1], b[1])
    return a[1] == b[1]

def obj(*values):
    out = np.empty(len(values), object)
    for i, value in enumerate(values):
        out[i] = value
    return out

nan = float("nan")
def make(nrow):
    rng = np.random.default_rng(nrow)
    o = np.empty(nrow, object)
    for i in range(nrow):
        o[i] = [None, nan, "x", (1, 2), i][i % 5]
    return DataFrame(
        i=np.arange(nrow),
        f=np.where(np.arange(nrow) % 3 == 0, nan, np.arange(nrow) / 7),
        u=np.full(nrow, 2**64 - 1, np.uint64) - np.arange(nrow).astype(np.uint64),
        s=np.array(["", "ä€😀", "b"] * nrow, object)[:nrow].tolist(),
        o=o,
        d=np.array(["NaT", "2020-01-01"] * nrow, "datetime64[D]")[:nrow],
    )

frames = {n: make(n) for n in [0, 1, 2, 9, 10, 11, 25]}
frames["no_columns"] = DataFrame()
frames["subclass"] = type("Sub", (DataFrame,), {})(x=np.arange(15.0), y=["a"] * 15)

arguments = [
    (), (None,), (0,), (1,), (2,), (9,), (10,), (11,), (1000,), (-1,), (-100,),
    (False,), (True,), (0.0,), (2.5,), (math.inf,), (-math.inf,), (nan,),
    (np.int64(3),), (np.uint8(0),), (np.float64(0),), (2**70,),
    ("",), ("3",), ([],), ([2],), (b"",),
]
keyword_arguments = [dict(n=None), dict(n=0), dict(n=3), dict(m=3)]

saved = dataiter.DEFAULT_PEEK_ROWS
count = 0
# The option is changed at run time, after import, including to falsy values.
for option in [10, 3, 0, 1, 100, -2, 2.5, None, "x"]:
    dataiter.DEFAULT_PEEK_ROWS = option
    for name, data in frames.items():
        before = data.deepcopy()
        for new, old in [(data.head, old_head), (data.tail, old_tail), (data.sample, old_sample)]:
            calls = [(args, {}) for args in arguments] + [((), kw) for kw in keyword_arguments]
            for args, kwargs in calls:
                label = f"option={option!r} {name} {old.__name__[4:]} {args} {kwargs}"
                # sample: same draws from the same random state,
                # and the random state is left in the same place.
                np.random.seed(12345)
                a = outcome(new, *args, **kwargs)
                state_a = np.random.random()
                np.random.seed(12345)
                b = outcome(old, data, *args, **kwargs)
                state_b = np.random.random()
                if a[0] == "TypeError" and "unexpected keyword" in a[1]:
                    # Only the function name in the message can differ.
                    check(b[0] == "TypeError" and "unexpected keyword" in b[1], label)
                else:
                    check(same_outcome(a, b), f"{label}: {a} vs {b}")
                check(state_a == state_b, f"{label}: random state")
                check(same_frame(data, before), f"{label}: input mutated")
                if a[0] == "ok":
                    check(a[1] is not data, f"{label}: same object")
                    for c in a[1]:
                        check(not np.shares_memory(a[1][c], data[c]), f"{label}: aliasing")
                count += 1
dataiter.DEFAULT_PEEK_ROWS = saved

# Independent plain-Python expectations.
data = frames[25]
rows = list(zip(*[[repr(x) for x in data[c]] for c in data]))
def rows_of(frame):
    return list(zip(*[[repr(x) for x in frame[c]] for c in frame]))

dataiter.DEFAULT_PEEK_ROWS = 10
check(rows_of(data.head()) == rows[:10], "head() default 10")
check(rows_of(data.tail()) == rows[-10:], "tail() default 10")
check(data.sample().nrow == 10, "sample() default 10")
dataiter.DEFAULT_PEEK_ROWS = 4
check(rows_of(data.head()) == rows[:4], "head() follows option changed after import")
check(rows_of(data.tail()) == rows[-4:], "tail() follows option changed after import")
check(data.sample().nrow == 4, "sample() follows option changed after import")
check(rows_of(data.head(None)) == rows[:4], "head(None) is the default")
check(rows_of(data.tail(n=None)) == rows[-4:], "tail(n=None) is the default")
# Explicit zero is zero rows, not the default.
for zero in [0, False, 0.0, np.int64(0)]:
    check(data.head(zero).nrow == 0 and data.head(zero).colnames == data.colnames, f"head({zero!r})")
    check(data.tail(zero).nrow == 0 and data.tail(zero).colnames == data.colnames, f"tail({zero!r})")
    if type(zero) in [bool, float]: continue # np.random.choice only takes true integers
    check(data.sample(zero).nrow == 0 and data.sample(zero).colnames == data.colnames, f"sample({zero!r})")
# An option of zero is honoured too.
dataiter.DEFAULT_PEEK_ROWS = 0
check(data.head().nrow == 0 and data.tail().nrow == 0 and data.sample().nrow == 0, "option 0")
check(rows_of(data.head(3)) == rows[:3], "explicit n wins over option 0")
dataiter.DEFAULT_PEEK_ROWS = saved
check(rows_of(data.head(7)) == rows[:7], "head(7)")
check(rows_of(data.tail(7)) == rows[-7:], "tail(7)")
check(rows_of(data.head(1000)) == rows, "head(1000)")
check(rows_of(data.tail(1000)) == rows, "tail(1000)")
sample = rows_of(data.sample(7))
check(len(sample) == 7 and len(set(map(str, sample))) == 7, "sample(7) distinct")
check([r for r in rows if r in sample] == sample, "sample(7) in original order")

# The signatures are unchanged: the option is not bound at definition time.
for method in [DataFrame.head, DataFrame.tail, DataFrame.sample]:
    check(str(inspect.signature(method)) == "(self, n=None)", f"signature of {method.__name__}")

# Result mutation does not leak; repeated calls agree.
before = data.deepcopy()
head = data.head(5)
head.i[0] = 999
check(same_frame(data, before), "result mutation leaked")
check(same_frame(data.head(5), data.head(5)), "repeated call")

print(count, "combinations")
print("FAILED" if FAILURES else "OK", len(FAILURES))
sys.exit(1 if FAILURES else 0)
