import os, sys; sys.path.insert(0, os.getcwd())

# Change 1: ListOfDicts.aggregate raises its TypeError for "no group keys"
# with a message of its own, at the very place where operator.itemgetter()
# raised it before. Everything else must be exactly as before.

import contextlib
import io
import math
import operator

import numpy as np

from dataiter import ListOfDicts

FAILURES = []

def check(ok, what):
    if not ok:
        FAILURES.append(what)
        print("MISMATCH:", what)

def old_aggregate(self, **key_function_pairs):
    # The body of aggregate as it was before the change (reference).
    def generate():
        by = self._group_keys
        groups = self.unique(*by).deepcopy().select(*by)
        extract = operator.itemgetter(*by)
        items_by_group = {}
        for item in self:
            id = extract(item)
            items_by_group.setdefault(id, []).append(item)
        pairs = key_function_pairs.items()
        for group in groups.sort(**dict.fromkeys(by, 1)):
            id = extract(group)
            items = ListOfDicts(items_by_group[id])
            for key, function in pairs:
                group[key] = function(items)
            yield group
    return self._new(generate())

def outcome(function, data, **kwargs):
    # Everything observable: value or exception class, what the functions
    # received, flags and aliasing.
    seen = []
    def spy(f):
        def wrapper(items):
            seen.append((type(items).__name__, [id(x) for x in items], items._group_keys))
            return f(items)
        return wrapper
    kwargs = {k: spy(v) for k, v in kwargs.items()}
    before = [dict(x) for x in data]
    out = io.StringIO()
    try:
        with contextlib.redirect_stdout(out):
            value = function(data, **kwargs)
        result = ("ok",
                  type(value).__name__,
                  repr([list(x.items()) for x in value]),
                  [type(x).__name__ for x in value],
                  value._group_keys,
                  value._predecessor is data,
                  any(x is y for x in value for y in data))
    except Exception as error:
        result = ("exc", type(error).__name__)
    return (result, seen, out.getvalue(), data._obsolete, data._obsolete_warned,
            data._group_keys, [dict(x) for x in data] == before or repr(before))

nan = float("nan")

def make_inputs():
    rows = [{"g": "b", "h": 1, "x": 1.5},
            {"g": "a", "h": 2, "x": 2.5},
            {"g": "b", "h": 1, "x": nan},
            {"g": None, "h": 2, "x": 4.0},
            {"g": "a", "h": None, "x": None},
            {"g": "b", "h": 2, "x": math.inf}]
    functions = dict(n=len, total=lambda x: sum(y for y in x.pluck("x") if y), first=lambda x: x[0].x)
    yield "ungrouped", ListOfDicts(rows), functions
    yield "ungrouped, no functions", ListOfDicts(rows), {}
    yield "ungrouped, empty", ListOfDicts([]), functions
    yield "ungrouped, empty, no functions", ListOfDicts([]), {}
    yield "ungrouped, one item", ListOfDicts(rows[:1]), functions
    yield "ungrouped, empty dicts", ListOfDicts([{}, {}]), functions
    yield "ungrouped, no common keys", ListOfDicts([{"a": 1}, {"b": 2}]), functions
    yield "ungrouped, unhashable values", ListOfDicts([{"a": [1]}, {"a": [2]}]), dict(n=len)
    yield "group_by()", ListOfDicts(rows).group_by(), functions
    yield "group_by() empty", ListOfDicts([]).group_by(), functions
    yield "one key", ListOfDicts(rows).group_by("g"), functions
    yield "two keys", ListOfDicts(rows).group_by("g", "h"), functions
    yield "two keys, no functions", ListOfDicts(rows).group_by("h", "g"), {}
    yield "one key, empty", ListOfDicts([]).group_by("g"), functions
    yield "one key, one item", ListOfDicts(rows[:1]).group_by("g"), functions
    yield "all-missing key", ListOfDicts([{"g": None, "x": 1}, {"g": None, "x": 2}]).group_by("g"), functions
    yield "nan key", ListOfDicts([{"g": nan, "x": 1}, {"g": nan, "x": 2}]).group_by("g"), functions
    yield "numpy nan key", ListOfDicts([{"g": np.float64("nan"), "x": 1}]).group_by("g"), functions
    yield "numpy nan keys", ListOfDicts([{"g": np.float64("nan"), "h": 1, "x": 1}]).group_by("g", "h"), functions
    yield "key not in all items", ListOfDicts([{"g": 1, "x": 1}, {"x": 2}]).group_by("g"), functions
    yield "key nowhere", ListOfDicts(rows).group_by("nope"), functions
    yield "unhashable key", ListOfDicts([{"g": [1], "x": 1}]).group_by("g"), functions
    yield "mixed types", ListOfDicts([{"g": 1, "x": 1}, {"g": "a", "x": 2}]).group_by("g"), functions
    yield "failing function", ListOfDicts(rows).group_by("g"), dict(bad=lambda x: 1 / 0)
    yield "sliced (has predecessor)", ListOfDicts(rows)[1:4].group_by("g"), functions
    obsolete = ListOfDicts(rows)
    obsolete.modify(h=lambda x: 0)
    yield "obsolete, ungrouped", obsolete, functions
    obsolete = ListOfDicts(rows).group_by("g")
    obsolete.modify(h=lambda x: 0)
    yield "obsolete, grouped", obsolete, functions

names = [x[0] for x in make_inputs()]
for i, name in enumerate(names):
    # Fresh objects for each implementation, and each is called twice.
    a = list(make_inputs())[i]
    b = list(make_inputs())[i]
    for call in (1, 2):
        new = outcome(ListOfDicts.aggregate, a[1], **a[2])
        old = outcome(old_aggregate, b[1], **b[2])
        # ids differ between the two objects: compare positions instead.
        ids_a = {id(x): j for j, x in enumerate(a[1])}
        ids_b = {id(x): j for j, x in enumerate(b[1])}
        new_seen = [(t, [ids_a.get(x) for x in ids], k) for t, ids, k in new[1]]
        old_seen = [(t, [ids_b.get(x) for x in ids], k) for t, ids, k in old[1]]
        check(new[0] == old[0], f"{name} (call {call}): {new[0]} != {old[0]}")
        check(new_seen == old_seen, f"{name} (call {call}): functions saw {new_seen} != {old_seen}")
        check(new[2:] == old[2:], f"{name} (call {call}): side effects {new[2:]} != {old[2:]}")
        print(f"{name:32s} {call} {str(new[0])[:90]}")

# Expected values built by hand, not with the library.

def expect_exception(cls, function, what, message=None):
    try:
        function()
    except Exception as error:
        check(type(error) is cls, f"{what}: {type(error).__name__} instead of {cls.__name__}")
        if message is not None:
            check(message in str(error), f"{what}: message {error!s}")
    else:
        check(False, f"{what}: no exception")

rows = [{"g": "b", "x": 1}, {"g": "a", "x": 2}, {"g": "b", "x": 3}, {"g": None, "x": 4}]
data = ListOfDicts(rows).group_by("g")
stat = data.aggregate(n=len, total=lambda x: sum(x.pluck("x")))
check(list(map(dict, stat)) == [{"g": "a", "n": 1, "total": 2},
                                {"g": "b", "n": 2, "total": 4},
                                {"g": None, "n": 1, "total": 4}], "hand-made grouped result")
check(list(map(dict, data)) == rows, "items untouched")
check(ListOfDicts([]).group_by("g").aggregate(n=len) == [], "grouped empty list gives an empty list")
for data in [ListOfDicts(rows), ListOfDicts([]), ListOfDicts(rows).group_by(), ListOfDicts(rows[:1])]:
    expect_exception(TypeError, lambda: data.aggregate(n=len), "no group keys", "group_by")
    expect_exception(TypeError, lambda: data.aggregate(), "no group keys, no functions", "group_by")
    check(data._obsolete is False, "not marked obsolete")
# Failures that come before the itemgetter keep their own exception.
expect_exception(TypeError, lambda: ListOfDicts([{"a": [1]}]).aggregate(n=len), "unhashable", "unhashable")
expect_exception(KeyError, lambda: ListOfDicts(rows).group_by("nope").aggregate(n=len), "key nowhere")

print("FAILURES:", len(FAILURES))
sys.exit(1 if FAILURES else 0)
