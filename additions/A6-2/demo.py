import os, sys; sys.path.insert(0, os.getcwd())

# Change 2: ListOfDicts.write_csv builds the None-filled template once and
# only merges items that actually lack keys. Compare the written bytes with
# the old implementation and with hand-written expectations.

import csv
import datetime
import io
import tempfile

from attd import AttributeDict
from dataiter import ListOfDicts
from dataiter import util

failures = []

def check(condition, message):
    if not condition:
        failures.append(message)
        print("FAIL:", message[:1000])

def old_write_csv(self, path, *, encoding="utf-8", header=True, sep=","):
    # The implementation before the change.
    if not self:
        raise ValueError("Cannot write empty CSV file")
    keys = list(self.keys())
    util.makedirs_for_file(path)
    with util.xopen(path, "wt", encoding=encoding) as f:
        writer = csv.DictWriter(f,
                                keys,
                                dialect="unix",
                                delimiter=sep,
                                quoting=csv.QUOTE_MINIMAL)

        writer.writeheader() if header else None
        for item in self:
            item = {**dict.fromkeys(keys), **item}
            writer.writerow(item)

tmpdir = tempfile.mkdtemp(dir=os.environ.get("TMPDIR") or None)
counter = iter(range(10**6))

def written(function, data, suffix=".csv", **kwargs):
    path = os.path.join(tmpdir, f"{next(counter)}{suffix}")
    try:
        function(data, path, **kwargs)
    except Exception as error:
        # Also what was left in the file, if there is one.
        content = None
        if os.path.exists(path):
            try:
                with util.xopen(path, "rb") as f:
                    content = f.read()
            except EOFError:
                content = "truncated"
        return (type(error), str(error), content)
    with util.xopen(path, "rb") as f:
        return f.read()

def snapshot(data):
    return [(id(x), type(x), list(x.items())) for x in data]

nan = float("nan")

class Text(str):
    pass

cases = {
    "complete": ListOfDicts([{"a": 1, "b": "x"}, {"a": 2, "b": "y"}]),
    "single item": ListOfDicts([{"a": 1, "b": "x"}]),
    "single key": ListOfDicts([{"a": 1}, {"a": None}, {"a": ""}, {"a": 2}]),
    "single key missing": ListOfDicts([{"a": 1}, {}, {"a": ""}]),
    "only empty items": ListOfDicts([{}, {}]),
    "missing keys": ListOfDicts([{"a": 1}, {"b": 2}, {"a": 3, "b": 4}, {}]),
    "different order": ListOfDicts([{"a": 1, "b": 2}, {"b": 3, "a": 4}, {"c": 5, "a": 6, "b": 7}]),
    "first lacks": ListOfDicts([{"b": 1}, {"a": 2, "b": 3}]),
    "none values": ListOfDicts([{"a": None, "b": None}, {"a": None}]),
    "floats": ListOfDicts([{"x": nan, "y": float("inf")}, {"x": -float("inf"), "y": -0.0}, {"x": 1e300}]),
    "integers": ListOfDicts([{"x": 2**64}, {"x": -2**63, "y": 18446744073709551615}]),
    "text": ListOfDicts([{"näme": "Åland ☃ 日本", "q": 'quo"te'}, {"näme": "a,b", "q": "new\nline"}, {"q": ""}]),
    "nested": ListOfDicts([{"a": [1, 2], "b": {"c": 1}}, {"a": (1,)}]),
    "other values": ListOfDicts([{"d": datetime.date(2020, 1, 2), "b": True}, {"b": False, "t": Text("ö")}]),
    "odd keys": ListOfDicts([{1: "a", None: "b"}, {1: "c"}, {"": "d", "get": 1, "keys": 2}]),
    "plain dicts as is": ListOfDicts([{"a": 1}, {"b": 2}, {"a": 1, "b": 2}], as_is=True),
    "same item twice": ListOfDicts([AttributeDict(a=1, b=2)] * 2 + [AttributeDict(a=3)], as_is=True),
    "many": ListOfDicts([{"i": i, **({"odd": i} if i % 2 else {})} for i in range(1000)]),
}

options = [
    {},
    {"header": False},
    {"sep": ";"},
    {"sep": "\t", "header": False},
    {"encoding": "utf-16"},
    {"encoding": "latin-1"},
    {"encoding": "ascii"},
    {"sep": ""},
    {"sep": ",,"},
]

for name, data in cases.items():
    for kwargs in options:
        for suffix in [".csv", ".csv.gz"]:
            before = snapshot(data)
            new = written(ListOfDicts.write_csv, data, suffix=suffix, **kwargs)
            old = written(old_write_csv, data, suffix=suffix, **kwargs)
            check(new == old, f"{name} {kwargs} {suffix}: {new!r} vs {old!r}")
            check(snapshot(data) == before, f"{name} {kwargs}: data changed")
            check(not data._obsolete, f"{name}: marked obsolete")

# Empty list: same error, and no file.
for function in [ListOfDicts.write_csv, old_write_csv]:
    result = written(function, ListOfDicts([]))
    check(result == (ValueError, "Cannot write empty CSV file", None), f"empty: {result}")

# Hand-written expectations.
def expect(data, text, **kwargs):
    result = written(ListOfDicts.write_csv, data, **kwargs)
    check(result == text.encode(kwargs.get("encoding", "utf-8")), f"expected {text!r}, got {result!r}")

expect(cases["complete"], "a,b\n1,x\n2,y\n")
expect(cases["complete"], "1;x\n2;y\n", header=False, sep=";")
expect(cases["missing keys"], "a,b\n1,\n,2\n3,4\n,\n")
expect(cases["different order"], "a,b,c\n1,2,\n4,3,\n6,7,5\n")
expect(cases["first lacks"], "b,a\n1,\n3,2\n")
expect(cases["single key"], 'a\n1\n""\n""\n2\n')
expect(cases["single key missing"], 'a\n1\n""\n""\n')
expect(cases["none values"], "a,b\n,\n,\n")
expect(cases["floats"], "x,y\nnan,inf\n-inf,-0.0\n1e+300,\n")
expect(cases["integers"], "x,y\n18446744073709551616,\n-9223372036854775808,18446744073709551615\n")
expect(cases["text"], 'näme,q\nÅland ☃ 日本,"quo""te"\n"a,b","new\nline"\n,\n')
expect(cases["text"], 'näme,q\nÅland ☃ 日本,"quo""te"\n"a,b","new\nline"\n,\n', encoding="utf-16")
expect(cases["same item twice"], "a,b\n1,2\n1,2\n3,\n")

# Round trip through read_csv.
path = os.path.join(tmpdir, "round.csv")
cases["missing keys"].write_csv(path)
check(ListOfDicts.read_csv(path) == [
    {"a": "1", "b": ""}, {"a": "", "b": "2"}, {"a": "3", "b": "4"}, {"a": "", "b": ""}], "round trip")

# Writing twice, and after a later mutation of the data.
data = ListOfDicts([{"a": 1, "b": 2}, {"a": 3}])
first = written(ListOfDicts.write_csv, data)
check(written(ListOfDicts.write_csv, data) == first == b"a,b\n1,2\n3,\n", "repeated call")
check(data == [{"a": 1, "b": 2}, {"a": 3}], "no keys added to the data")
data[1].c = "new"
check(written(ListOfDicts.write_csv, data) == b"a,b,c\n1,2,\n3,,new\n", "after mutation")

import shutil
shutil.rmtree(tmpdir)
print("failures:", len(failures))
sys.exit(1 if failures else 0)
