import os, sys; sys.path.insert(0, os.getcwd())
import io, contextlib, json, shutil, tempfile
import numpy as np
from attd import AttributeDict
from dataiter import GeoJSON

# GeoJSON._check_raw_feature builds the tuple of accepted property types
# once per feature. Compared with a verbatim copy of the old method and
# with a plain-Python expectation of which features are acceptable.

def old_check_raw_feature(cls, feature, warned_feature_keys):
    if feature.type not in cls.FEATURE_TYPES:
        raise TypeError(f"Feature type {feature.type!r} not supported")
    for key in set(feature) - set(cls.FEATURE_KEYS):
        if key in warned_feature_keys: continue
        print(f"Warning: Ignoring feature key {key!r}")
        warned_feature_keys.append(key)
    for key, value in feature.properties.items():
        if isinstance(value, tuple(cls.PROPERTY_TYPES)): continue
        raise TypeError(f"Property type {type(value)} of {key!r} not supported")

def outcome(f):
    out = io.StringIO()
    try:
        with contextlib.redirect_stdout(out):
            value = f()
        return ("ok", value, out.getvalue())
    except BaseException as e:
        return ("err", type(e), str(e), out.getvalue())

class MyStr(str): pass
class MyInt(int): pass
class NoItems: pass
class PairItems:
    def __init__(self, pairs): self.pairs = pairs
    def items(self): return self.pairs

ok_values = [True, False, 0, -1, 2**70, -2**63, 2**64 - 1, 1.5, float("nan"), float("inf"), -float("inf"), -0.0,
             "", "äö€", "x" * 1000, None, MyStr("s"), MyInt(1), np.float64(1.5), np.float64("nan"), np.str_("ä")]
bad_values = [[1], (1,), {"a": 1}, {1}, b"bytes", 1j, np.int64(1), np.float32(1), np.bool_(True), np.datetime64("NaT"),
              np.timedelta64("NaT"), np.array([1]), object(), int, AttributeDict(a=1)]

def expected_plain(cls_types, props):
    # first offending key in order, or None
    for key, value in props.items():
        if not any(isinstance(value, t) for t in cls_types):
            return key, value
    return None

class Loose(GeoJSON):
    PROPERTY_TYPES = GeoJSON.PROPERTY_TYPES + [list, bytes]
class Nothing(GeoJSON):
    PROPERTY_TYPES = []
class Broken(GeoJSON):
    PROPERTY_TYPES = None
class Generated(GeoJSON):
    PROPERTY_TYPES = (str, type(None))

def feature(props, **extra):
    f = AttributeDict(type="Feature", geometry=None, **extra)
    dict.__setitem__(f, "properties", props)   # as is, no coercion
    return f

cases = []
cases.append({})                                   # no properties at all
cases.append({f"ok{i}": v for i, v in enumerate(ok_values)})
for i, bad in enumerate(bad_values):
    cases.append({"bad": bad})
    cases.append({"a": 1, "ä€": bad, "z": "later", "bad2": [2]})
    cases.append({**{f"ok{i}": v for i, v in enumerate(ok_values)}, "last": bad})
cases.append({1: "int key", None: [1]})
cases += [None, 0, 5, "", "text", [], [("a", 1)], NoItems(), PairItems([]), PairItems([("a", 1), ("b", [1])]), PairItems(())]

n = 0
for cls in (GeoJSON, Loose, Nothing, Broken, Generated):
    for props in cases:
        for extra in ({}, {"id": 1}, {"id": 1, "bbox": [1]}):
            for ftype in ("Feature", "Thing"):
                for warned in ([], ["id"]):
                    f = feature(props, **extra); f.type = ftype
                    w1, w2 = list(warned), list(warned)
                    exp = outcome(lambda: old_check_raw_feature(cls, f, w1))
                    got = outcome(lambda: cls._check_raw_feature(f, w2))
                    assert exp == got, (cls, props, extra, exp, got)
                    assert w1 == w2
                    if isinstance(props, dict) and cls is not Broken and ftype == "Feature":
                        first = expected_plain(tuple(cls.PROPERTY_TYPES), props)
                        if first is None:
                            assert got[0] == "ok"
                        else:
                            assert got[1] is TypeError and got[2] == f"Property type {type(first[1])} of {first[0]!r} not supported"
                    n += 1

# misconfigured class: error only when there is a value to check, as before
assert outcome(lambda: Broken._check_raw_feature(feature({}), []))[0] == "ok"
assert outcome(lambda: Broken._check_raw_feature(feature({"a": 1}), []))[1:3] == (TypeError, "'NoneType' object is not iterable")
# nothing is remembered between calls: changing the class list takes effect at once
f = feature({"a": [1]})
assert outcome(lambda: Loose._check_raw_feature(f, []))[0] == "ok"
Loose.PROPERTY_TYPES.remove(list)
assert outcome(lambda: Loose._check_raw_feature(f, []))[1] is TypeError
Loose.PROPERTY_TYPES.append(list)
assert outcome(lambda: Loose._check_raw_feature(f, []))[0] == "ok"
# arguments are not modified
props = {"a": 1, "b": None}
f = feature(props); before = dict(f)
GeoJSON._check_raw_feature(f, [])
assert dict(f) == before and f.properties is props and props == {"a": 1, "b": None}

# through read: whole files, warnings once per key, first bad property reported
tmp = tempfile.mkdtemp(dir=os.path.dirname(os.path.abspath(__file__)))
try:
    path = os.path.join(tmp, "x.geojson")
    def write(features):
        with open(path, "w", encoding="utf-8") as fobj:
            json.dump({"type": "FeatureCollection", "name": "ä", "features": features}, fobj, ensure_ascii=False)
    geom = {"type": "Point", "coordinates": [1, 2]}
    write([{"type": "Feature", "id": i, "properties": {"n": i, "s": "ö" * i, "x": None, "f": float("nan"), "b": True, "big": 2**70}, "geometry": geom}
           for i in range(50)] + [{"type": "Feature", "properties": {}, "geometry": None}])
    res = outcome(lambda: GeoJSON.read(path))
    assert res[0] == "ok" and res[2] == "Warning: Ignoring feature key 'id'\n"
    data = res[1]
    assert data.colnames == ["n", "s", "x", "f", "b", "big", "geometry"] and data.nrow == 51
    assert data.n.tolist()[:3] == [0, 1, 2] and np.isnan(data.n[-1]) and data.metadata == {"type": "FeatureCollection", "name": "ä"}
    write([{"type": "Feature", "properties": {"n": 1}, "geometry": geom},
           {"type": "Feature", "properties": {"n": 2, "l": [1], "d": {"a": 1}}, "geometry": geom}])
    res = outcome(lambda: GeoJSON.read(path))
    assert res[1] is TypeError and res[2] == "Property type <class 'list'> of 'l' not supported", res
    assert outcome(lambda: Loose.read(path))[2] == "Property type <class 'attd.AttributeDict'> of 'd' not supported"
    write([])
    assert GeoJSON.read(path).colnames == ["geometry"] and Broken.read(path).nrow == 0
    data = GeoJSON.read("data/neighbourhoods.geojson")
    assert data.nrow == 233 and data.colnames == ["neighbourhood", "neighbourhood_group", "geometry"]
finally:
    shutil.rmtree(tmp)
print("checked", n, "calls: OK")
