import os, sys; sys.path.insert(0, os.getcwd())

import contextlib
import io
import json
import math
import shutil
import tempfile

import numpy as np
import dataiter as di

from dataiter import DataFrame, GeoJSON

TMP = tempfile.mkdtemp(dir=os.path.dirname(os.path.abspath(__file__)))
failures = []

def check(label, ok):
    if not ok:
        failures.append(label)
        print("FAIL", label)

def same_value(a, b):
    if isinstance(a, float) and isinstance(b, float) and math.isnan(a) and math.isnan(b):
        return True
    if isinstance(a, dict) and isinstance(b, dict):
        # Geometries are read as attd.AttributeDict.
        return a == b
    return type(a) is type(b) and a == b

def point(x, y):
    return {"type": "Point", "coordinates": [x, y]}

def feature(properties, geometry):
    return {"type": "Feature", "properties": properties, "geometry": geometry}

def expected_columns(features, columns=()):
    # Plain Python: property keys in order of first appearance, limited
    # to columns if given, missing filled with None, geometry last.
    # Null properties are expected to behave like empty properties.
    features = [dict(f, properties=f["properties"] if f["properties"] is not None else {}) for f in features]
    keys = []
    for f in features:
        for key in f["properties"]:
            if key not in keys:
                keys.append(key)
    if columns:
        keys = [x for x in keys if x in columns]
    out = {k: [f["properties"].get(k, None) for f in features] for k in keys}
    out["geometry"] = [f["geometry"] for f in features]
    return out

def write_file(name, features, extra=None, **kwargs):
    blob = {"type": "FeatureCollection", **(extra or {}), "features": features}
    path = os.path.join(TMP, name)
    with open(path, "w", encoding=kwargs.pop("encoding", "utf-8")) as f:
        json.dump(blob, f, ensure_ascii=False)
    return path

def compare(label, data, expected, dtypes={}):
    check(f"{label}: class", type(data) is GeoJSON)
    check(f"{label}: colnames", list(data.colnames) == list(expected))
    ref = DataFrame(**{k: di.DataFrameColumn(v, dtypes.get(k, None)) for k, v in expected.items()})
    for name in expected:
        if name not in data: continue
        check(f"{label}: dtype of {name!r}", data[name].dtype == ref[name].dtype)
        got, exp = data[name].tolist(), ref[name].tolist()
        check(f"{label}: length of {name!r}", len(got) == len(exp))
        check(f"{label}: values of {name!r}", all(same_value(a, b) for a, b in zip(got, exp)))
        if name != "geometry":
            raw = expected[name]
            # The library's missing string is the empty string.
            missing = [i for i, x in enumerate(raw) if x is None or x == ""]
            is_na = data[name].is_na().tolist()
            check(f"{label}: missing positions of {name!r}", [i for i, x in enumerate(is_na) if x] == missing)

P0 = {"type": "Point", "coordinates": [0, 0]}
REPORTED = {
    "null only": [feature(None, P0)],
    "all null": [feature(None, P0), feature(None, None), feature(None, point(1, 1))],
    "null first": [feature(None, P0), feature({"a": 1, "b": "x"}, point(1, 1))],
    "null last": [feature({"a": 1, "b": "x"}, point(1, 1)), feature(None, P0)],
    "null in the middle": [feature({"a": 1.5}, P0), feature(None, P0), feature({"b": True, "a": 2.5}, P0)],
    "null and empty": [feature({}, P0), feature(None, P0), feature({"a": None}, P0)],
    "null with non-ascii": [feature(None, None), feature({"nimi": "Åke", "山": 2**63 - 1}, P0)],
}

CASES = {
    "ordinary": [
        feature({"name": "a", "n": 1, "x": 0.5, "ok": True}, point(1, 2)),
        feature({"name": "b", "n": 2, "x": 1.5, "ok": False}, point(3, 4)),
    ],
    "ragged": [
        feature({"a": 1}, point(0, 0)),
        feature({"b": "x"}, None),
        feature({"c": 2.5, "a": 3}, point(1, 1)),
        feature({}, point(2, 2)),
        feature({"d": None, "b": "y"}, point(3, 3)),
    ],
    "order differs": [
        feature({"b": 1, "a": 2}, point(0, 0)),
        feature({"a": 3, "b": 4}, point(0, 0)),
        feature({"c": 5, "b": 6}, point(0, 0)),
    ],
    "all missing": [
        feature({"a": None, "b": None}, None),
        feature({"a": None}, None),
    ],
    "all empty properties": [feature({}, point(0, 0)), feature({}, point(1, 1))],
    "no features": [],
    "single": [feature({"a": "only"}, point(9, 9))],
    "non-ascii": [
        feature({"nimi": "Åke", "山": "田"}, point(0, 0)),
        feature({"\U0001f600": "x", "nimi": "Öhman"}, point(0, 0)),
    ],
    "extreme numbers": [
        feature({"i": 2**63 - 1, "u": 2**64 - 1, "big": 10**30, "f": 1e308, "neg": -2**63}, point(0, 0)),
        feature({"i": -1, "u": 0, "big": 1, "f": -1e-308, "neg": 0}, point(0, 0)),
    ],
    "mixed types": [
        feature({"m": 1, "s": "1", "b": True}, point(0, 0)),
        feature({"m": 1.5, "s": None, "b": None}, point(0, 0)),
        feature({"m": None, "s": "", "b": False}, point(0, 0)),
    ],
    "duplicates": [feature({"a": 1, "b": "x"}, point(0, 0))] * 4,
    "names like comprehension variables": [
        feature({"x": 1, "k": 2, "data": 3, "raw": 4, "cls": 5, "key": 6}, point(0, 0)),
        feature({"feature": 7, "x": 8}, point(0, 0)),
    ],
    "property called geometry": [
        feature({"geometry": "fake", "a": 1}, point(5, 5)),
        feature({"a": 2}, point(6, 6)),
    ],
}

for label, features in {**REPORTED, **CASES}.items():
    path = write_file("case.geojson", features, extra={"name": "demo", "crs": {"type": "name", "properties": {"name": "EPSG:4326"}}})
    for reader in [GeoJSON.read, di.read_geojson]:
        data = reader(path)
        expected = expected_columns(features)
        compare(label, data, expected)
        check(f"{label}: metadata", dict(data.metadata) == {"type": "FeatureCollection", "name": "demo", "crs": {"type": "name", "properties": {"name": "EPSG:4326"}}})
        check(f"{label}: nrow", data.nrow == len(features))
    # Second read gives the same; columns do not share memory.
    again = GeoJSON.read(path)
    check(f"{label}: second call colnames", again.colnames == data.colnames)
    check(f"{label}: fresh columns", all(not np.shares_memory(again[x], data[x]) for x in data.colnames if data[x].dtype != object))
    # columns argument: subsets, unknown names, reversed order, tuple.
    all_keys = [k for k in expected if k != "geometry"]
    for columns in [all_keys[:1], all_keys[::-1], all_keys[1:] + ["nonexistent"], tuple(all_keys[:2]), ["nonexistent"], ["geometry"]]:
        data = GeoJSON.read(path, columns=columns)
        compare(f"{label} columns={columns}", data, expected_columns(features, columns))

# dtypes argument.
path = write_file("dtypes.geojson", CASES["ragged"])
dtypes = {"a": float, "b": object, "c": float}
compare("dtypes", GeoJSON.read(path, dtypes=dtypes), expected_columns(CASES["ragged"]), dtypes)
compare("dtypes+columns", GeoJSON.read(path, dtypes={"a": float}, columns=["a", "c"]), expected_columns(CASES["ragged"], ["a", "c"]), {"a": float})
for bad in [{"nonexistent": float}, {"b": float}]:
    try:
        GeoJSON.read(path, dtypes=bad)
        check(f"dtypes {bad} should raise", False)
    except (KeyError, ValueError) as e:
        check(f"dtypes {bad} exception type", type(e) is (KeyError if "nonexistent" in bad else ValueError))
try:
    GeoJSON.read(path, dtypes={"a": float}, columns=["b"])
    check("dtypes of excluded column should raise", False)
except KeyError:
    pass

# Bundled data file.
path = "data/neighbourhoods.geojson"
with open(path, encoding="utf-8") as f:
    features = json.load(f)["features"]
compare("neighbourhoods", GeoJSON.read(path), expected_columns(features))
compare("neighbourhoods columns", GeoJSON.read(path, columns=["neighbourhood"]), expected_columns(features, ["neighbourhood"]))

# Exceptions and warnings unchanged.
def expect(label, blob, exception, message=None, stdout=""):
    path = os.path.join(TMP, "bad.geojson")
    with open(path, "w") as f:
        json.dump(blob, f)
    out = io.StringIO()
    try:
        with contextlib.redirect_stdout(out):
            GeoJSON.read(path)
        check(f"{label}: should raise", exception is None)
    except Exception as e:
        check(f"{label}: exception {e!r}", type(e) is exception and (message is None or message in str(e)))
    check(f"{label}: stdout", out.getvalue() == stdout)

P = point(0, 0)
expect("top-level type", {"type": "Feature", "properties": {}, "geometry": P}, TypeError, "Top-level type 'Feature' not supported")
expect("no features", {"type": "FeatureCollection"}, AttributeError, "features")
expect("feature type", {"type": "FeatureCollection", "features": [{"type": "X", "properties": {}, "geometry": P}]}, TypeError, "Feature type 'X' not supported")
expect("property type", {"type": "FeatureCollection", "features": [feature({"a": [1]}, P)]}, TypeError, "of 'a' not supported")
expect("null properties", {"type": "FeatureCollection", "features": [feature(None, P)]}, None)
expect("false properties", {"type": "FeatureCollection", "features": [feature(False, P)]}, AttributeError, "'bool' object has no attribute 'items'")
expect("zero properties", {"type": "FeatureCollection", "features": [feature(0, P)]}, AttributeError, "'int' object has no attribute 'items'")
expect("string properties", {"type": "FeatureCollection", "features": [feature("", P)]}, AttributeError, "'str' object has no attribute 'items'")
expect("null then list properties", {"type": "FeatureCollection", "features": [feature(None, P), feature([], P)]}, AttributeError, "'list' object has no attribute 'items'")
expect("null then bad property", {"type": "FeatureCollection", "features": [feature(None, P), feature({"a": {}}, P)]}, TypeError, "of 'a' not supported")
expect("null then bad type", {"type": "FeatureCollection", "features": [feature(None, P), {"type": "X", "properties": None, "geometry": P}]}, TypeError, "Feature type 'X' not supported")
expect("bad top-level with null", {"type": "GeometryCollection", "features": [feature(None, P)]}, TypeError, "Top-level type 'GeometryCollection' not supported")
expect("null with extra key", {"type": "FeatureCollection", "features": [dict(feature(None, P), id=1), dict(feature(None, P), id=2, bbox=None)]}, None, stdout="Warning: Ignoring feature key 'id'\nWarning: Ignoring feature key 'bbox'\n")
expect("null properties, missing geometry", {"type": "FeatureCollection", "features": [{"type": "Feature", "properties": None}]}, AttributeError, "geometry")
expect("list properties", {"type": "FeatureCollection", "features": [feature([], P)]}, AttributeError, "'list' object has no attribute 'items'")
expect("missing properties", {"type": "FeatureCollection", "features": [{"type": "Feature", "geometry": P}]}, AttributeError, "properties")
expect("missing geometry", {"type": "FeatureCollection", "features": [{"type": "Feature", "properties": {"a": 1}}]}, AttributeError, "geometry")
expect("extra feature key", {"type": "FeatureCollection", "features": [dict(feature({"a": 1}, P), id=1), dict(feature({"a": 2}, P), id=2)]}, None, stdout="Warning: Ignoring feature key 'id'\n")

# THE REPORTED CASE by hand: reads, values missing, writes back as {}.
path = write_file("hand.geojson", [feature(None, P), feature({"a": 1, "s": "x"}, None)])
data = di.read_geojson(path)
check("hand colnames", data.colnames == ["a", "s", "geometry"])
check("hand a", data.a.dtype == np.float64 and np.isnan(data.a[0]) and data.a[1] == 1)
check("hand s", data.s.tolist() == [None, "x"] and data.s.is_na().tolist() == [True, False])
check("hand geometry", data.geometry[0] == P and data.geometry[1] is None)
check("hand dtypes", di.read_geojson(path, dtypes={"a": object}).a.tolist() == [None, 1])
check("hand columns", di.read_geojson(path, columns=["s"]).colnames == ["s", "geometry"])
out = os.path.join(TMP, "hand-out.geojson")
data.write(out)
with open(out) as f:
    blob = json.load(f)
check("hand written", blob["features"] == [
    {"type": "Feature", "properties": {"a": None, "s": None}, "geometry": P},
    {"type": "Feature", "properties": {"a": 1.0, "s": "x"}, "geometry": None}])
check("hand string", "<Point>" in data.to_string() and "None" in data.to_string())
path = write_file("hand.geojson", [feature(None, P)])
data = di.read_geojson(path)
check("hand only null", data.colnames == ["geometry"] and data.nrow == 1)
data.write(out)
with open(out) as f:
    check("hand only null written", json.load(f)["features"] == [{"type": "Feature", "properties": {}, "geometry": P}])

# Round trip through write.
path = write_file("rt.geojson", CASES["ragged"])
data = GeoJSON.read(path)
out = os.path.join(TMP, "rt-out.geojson.gz")
data.write(out)
compare("round trip", GeoJSON.read(out), {k: v for k, v in expected_columns(CASES["ragged"]).items()},)

# Other encoding and json.load kwargs.
path = write_file("latin.geojson", CASES["non-ascii"][:1] and [feature({"nimi": "Åke"}, P)], encoding="latin-1")
compare("latin-1", GeoJSON.read(path, encoding="latin-1"), expected_columns([feature({"nimi": "Åke"}, P)]))
path = write_file("pf.geojson", [feature({"x": 1.25}, P)])
data = GeoJSON.read(path, parse_float=lambda x: float(x) * 2)
check("parse_float", data.x.tolist() == [2.5] and data.geometry[0]["coordinates"] == [0, 0])

shutil.rmtree(TMP)
print("failures:", len(failures))
sys.exit(1 if failures else 0)
