import os, sys; sys.path.insert(0, os.getcwd())

# Change 2: DataFrame.unique finds first occurrences with np.unique when the
# key is a single integer or boolean column. Compare with (a) a verbatim copy
# of the old implementation and (b) first occurrences found with plain Python.

import itertools
import numpy as np
import dataiter as di

from dataiter import DataFrame, DataFrameColumn, Vector

def old_unique(self, *colnames):
    def generate(colnames=colnames):
        colnames = colnames or self.colnames
        columns = [self[x] for x in colnames]
        for i, column in enumerate(list(columns)):
            if column.is_datetime() or column.is_float() or column.is_timedelta():
                na = column.is_na()
                if not na.any(): continue
                zero = np.zeros(1, column.dtype)[0]
                columns[i] = column.replace_na(zero)
                columns.append(na)
        rows = list(zip(*columns))
        seen = set()
        keep = []
        for i in range(self.nrow):
            if rows[i] not in seen:
                seen.add(rows[i])
                keep.append(i)
        for colname, column in self.items():
            yield colname, column[keep].copy()
    return self._new(generate())

def reprs(column):
    return [repr(x) for x in np.asarray(column)]

def check_same(a, b):
    assert type(a) is type(b), (type(a), type(b))
    assert list(a.keys()) == list(b.keys()), (list(a), list(b))
    for name in a:
        assert type(a[name]) is type(b[name]) is DataFrameColumn
        assert a[name].dtype == b[name].dtype, (name, a[name].dtype, b[name].dtype)
        assert a[name].shape == b[name].shape
        assert reprs(a[name]) == reprs(b[name]), name

def outcome(function):
    try:
        return "ok", function()
    except Exception as error:
        return "error", (type(error), str(error))

def first_occurrences(values):
    # Plain Python: values are ints or bools here.
    seen, keep = set(), []
    for i, value in enumerate(values):
        assert type(value) in (int, bool)
        if value not in seen:
            seen.add(value)
            keep.append(i)
    return keep

rng = np.random.default_rng(1)
payload = lambda n: dict(
    p=Vector.fast(np.arange(n), int),
    q=Vector.fast([np.nan if i % 3 == 0 else i / 2 for i in range(n)], float),
    r=Vector.fast(["åäö" if i % 2 else "" for i in range(n)], str),
    o=Vector.fast([[i] if i % 2 else None for i in range(n)] + [None], object)[:n])

keys = {}
big = 2**63 - 1
keys["int64"] = Vector.fast([3, 1, 3, 2, 1, 1, 0, -5, -5, 3], np.int64)
keys["int64-extreme"] = Vector.fast([big, -big - 1, big, 0, -big - 1, -1, big - 1, -big, 0, -1], np.int64)
keys["uint64-extreme"] = Vector.fast([2**64 - 1, 0, 2**63, 2**64 - 1, 2**63 - 1, 2**63, 0, 1, 1, 2**64 - 2], np.uint64)
keys["int8"] = Vector.fast([-128, 127, -128, 0, 127, 1, 1, -1, -1, 0], np.int8)
keys["uint8"] = Vector.fast([255, 0, 255, 128, 127, 128, 0, 1, 1, 255], np.uint8)
keys["int16-bigendian"] = Vector.fast([256, 1, 256, 1, 2, 2, 3, -1, -1, -256], ">i2")
keys["uint32"] = Vector.fast([2**32 - 1, 0, 2**31, 2**32 - 1, 5, 5, 2**31, 0, 7, 7], np.uint32)
keys["bool"] = Vector.fast([True, True, False, True, False, False, True, False, True, True], bool)
keys["bool-all-true"] = Vector.fast([True] * 10, bool)
keys["sorted"] = Vector.fast([0, 0, 1, 1, 2, 3, 3, 3, 4, 9], int)
keys["reverse-sorted"] = Vector.fast([9, 9, 8, 7, 7, 7, 3, 2, 2, 0], int)
keys["all-equal"] = Vector.fast([7] * 10, int)
keys["all-distinct"] = Vector.fast(rng.permutation(10), int)
keys["random-ties"] = Vector.fast(rng.integers(-3, 3, 10), int)
keys["longlong"] = Vector.fast([1, 2, 1, 2, 3, 3, 4, 4, 5, 1], np.longlong)
keys["intc"] = Vector.fast([1, 2, 1, 2, 3, 3, 4, 4, 5, 1], np.intc)

n = 0
for label, key in keys.items():
    for length in [10, 7, 2, 1, 0]:
        k = key[:length].copy()
        for position in ["first", "last", "only"]:
            if position == "only":
                data = DataFrame(k=k)
            elif position == "first":
                data = DataFrame(k=k, **payload(length))
            else:
                data = DataFrame(**payload(length), k=k)
            before = {name: reprs(column) for name, column in data.items()}
            calls = [("k",)]
            if position == "only":
                calls.append(())
            for colnames in calls:
                new = data.unique(*colnames)
                old = old_unique(data, *colnames)
                check_same(new, old)
                keep = first_occurrences(k.tolist())
                for name in data:
                    assert reprs(new[name]) == [before[name][i] for i in keep], (label, name)
                    assert new[name].dtype == data[name].dtype
                    assert not np.shares_memory(new[name], data[name])
                    assert new[name].flags.owndata and new[name].flags.writeable
                    if new.nrow > 0:
                        new[name][0] = new[name][-1]
                assert {name: reprs(column) for name, column in data.items()} == before
                check_same(data.unique(*colnames), old)
                n += 1

# Large random keys with many ties: order of first occurrence must be kept.
for dtype in [np.int64, np.uint64, np.int8, np.uint16, bool]:
    info = None if dtype is bool else np.iinfo(dtype)
    for size, span in [(5000, 10), (5000, 2000), (5000, 10**6)]:
        if dtype is bool:
            k = rng.integers(0, 2, size).astype(bool)
        else:
            lo = max(info.min, -span)
            hi = min(info.max, span)
            k = rng.integers(lo, hi, size, endpoint=True).astype(dtype)
            k[rng.integers(0, size, 5)] = info.max
            k[rng.integers(0, size, 5)] = info.min
        data = DataFrame(k=k, i=np.arange(size))
        new = data.unique("k")
        check_same(new, old_unique(data, "k"))
        assert new.i.tolist() == first_occurrences(k.tolist())
        n += 1

# Keys that must NOT take the new path, or that combine several columns:
# results unchanged for every dtype, with and without missing values.
nasty = DataFrame(
    f=Vector.fast([np.nan, 0.0, -0.0, np.inf, -np.inf, np.nan, 1.5, 1.5], float),
    g=Vector.fast([1.0, 1.0, 2.0, 2.0, 1.0, 1.0, 2.0, 2.0], float),
    h=Vector.fast([np.nan, np.nan, 1, 1, 2, np.nan, 1, 2], np.float16),
    d=Vector.fast(["NaT", "2020-01-01", "2020-01-01", "NaT", "1970-01-01", "1970-01-01", "NaT", "2020-01-01"], "datetime64[D]"),
    m=Vector.fast([np.timedelta64("NaT"), np.timedelta64(0, "s"), np.timedelta64(0, "s"), np.timedelta64("NaT"),
                   np.timedelta64(1, "s"), np.timedelta64(-1, "s"), np.timedelta64(1, "s"), np.timedelta64("NaT")], "timedelta64[s]"),
    m0=Vector.fast([0, 1, 0, 1, 2, 2, 0, 1], "timedelta64[D]"),
    s=["", "åäö", "", "日本語", "åäö", "a", "a", ""],
    fx=Vector.fast(["", "åäö", "", "x", "åäö", "a", "a", ""], "U3"),
    by=Vector.fast([b"", b"a", b"", b"\xff", b"a", b"\xff", b"b", b""], "S1"),
    o=Vector.fast([None, 1, None, "x", 1, "x", (1, 2), (1, 2)], object),
    i=Vector.fast([1, 1, 2, 2, 1, 1, 2, 2], int),
    u=Vector.fast([2**64 - 1, 2**64 - 1, 0, 0, 1, 1, 2**63, 2**63], np.uint64),
    b=Vector.fast([True, False, True, False, True, False, True, False], bool))
for r in [1, 2]:
    for colnames in itertools.permutations(nasty.colnames, r):
        check_same(nasty.unique(*colnames), old_unique(nasty, *colnames))
        n += 1
check_same(nasty.unique(), old_unique(nasty))
check_same(nasty.unique("i", "i"), old_unique(nasty, "i", "i"))
for single in nasty.colnames:
    data = nasty.select(single)
    check_same(data.unique(), old_unique(data))
    empty = data.slice(rows=[])
    check_same(empty.unique(), old_unique(empty))
    check_same(empty.unique(single), old_unique(empty, single))

# Exceptions are unchanged.
unhashable = DataFrame(k=[1, 1, 2], o=Vector.fast([[1], [1], [2, 3]], object))
check_same(unhashable.unique("k"), old_unique(unhashable, "k"))
bad = DataFrame(k=[1, 1, 2], y=[4, 5, 6])
dict.__setitem__(bad, "y", DataFrameColumn([1, 2]))
cases = [
    (nasty, ("nonexistent",)),
    (nasty, ("i", "nonexistent")),
    (unhashable, ("o",)),
    (unhashable, ()),
    (bad, ("k",)),
    (bad, ("y",)),
    (DataFrame(), ()),
    (DataFrame(), ("k",)),
]
for data, colnames in cases:
    new = outcome(lambda: data.unique(*colnames))
    old = outcome(lambda: old_unique(data, *colnames))
    assert new[0] == old[0], (colnames, new, old)
    if new[0] == "error":
        assert new[1] == old[1], (colnames, new, old)
    else:
        check_same(new[1], old[1])
    n += 1

# Callers of unique: aggregate, split, count, joins.
data = DataFrame(g=[3, 1, 3, 2, 1], x=[1.0, 2.0, 3.0, 4.0, 5.0])
stat = data.group_by("g").aggregate(n=di.count(), x=di.sum("x"))
assert stat.g.tolist() == [1, 2, 3] and stat.n.tolist() == [2, 1, 2] and stat.x.tolist() == [7.0, 4.0, 4.0]
assert [x.tolist() for x in data.split("g")] == [[1, 4], [3], [0, 2]]
other = DataFrame(g=[1, 1, 3], y=["first", "second", "third"])
assert data.left_join(other, "g").y.tolist() == ["third", "first", "third", None, "first"]

print(f"unique: {n} cases agree")
