import os, sys; sys.path.insert(0, os.getcwd())

# Change 3: GeoJSON.read names the column in the KeyError it raises when
# dtypes mentions a column that is not in the data, at the very place
# where data[name] raised it before. Everything else must be exactly as before.

import contextlib
import io
import json
import shutil
import tempfile

import numpy as np

from attd import AttributeDict
from dataiter import DataFrameColumn
from dataiter import GeoJSON
from dataiter import util

FAILURES = []

def check(ok, what):
    if not ok:
        FAILURES.append(what)
        print("MISMATCH:", what)

def old_read(cls, path, *, encoding="utf-8", columns=[], dtypes={}, **kwargs):
    # GeoJSON.read as it was before the change (reference).
    with util.xopen(path, "rt", encoding=encoding) as f:
        raw = AttributeDict(json.load(f, **kwargs))
    cls._check_raw_data(raw)
    data = {}
    for feature in raw.features:
        for key in feature.properties:
            data.setdefault(key, [])
    if columns:
        data = {k: v for k, v in data.items() if k in columns}
    for feature in raw.features:
        for key in data:
            value = feature.properties.get(key, None)
            data[key].append(value)
    data["geometry"] = [x.geometry for x in raw.features]
    for name, dtype in dtypes.items():
        data[name] = DataFrameColumn(data[name], dtype)
    data = cls(**data)
    del raw.features
    data.metadata = raw
    return data

def outcome(function, path, **kwargs):
    out = io.StringIO()
    try:
        with contextlib.redirect_stdout(out):
            data = function(GeoJSON, path, **kwargs)
        result = ("ok", type(data).__name__, list(data.colnames),
                  [str(x.dtype) for x in data.columns],
                  [type(x).__name__ for x in data.columns],
                  [repr(x.tolist()) for x in data.columns],
                  data.nrow, data.ncol,
                  type(data.metadata).__name__, repr(data.metadata),
                  data.to_string())
    except Exception as error:
        result = ("exc", type(error).__name__)
    return result, out.getvalue()

point = lambda x, y: {"type": "Point", "coordinates": [x, y]}
feature = lambda properties, geometry, **more: {"type": "Feature", "properties": properties, "geometry": geometry, **more}
collection = lambda features, **more: {"type": "FeatureCollection", "features": features, **more}

FILES = {
    "ordinary": collection([
        feature({"a": 1, "b": "x", "c": 1.5, "d": True}, point(1, 2)),
        feature({"a": 2, "b": "y", "c": None, "d": False}, point(3, 4)),
        feature({"a": 3, "b": "10", "c": 2.5, "e": None}, None)],
        crs={"type": "name", "properties": {"name": "x"}}, name="demo"),
    "no features": collection([]),
    "no features, metadata": collection([], name="nothing", bbox=[0, 0, 1, 1]),
    "one feature": collection([feature({"a": 1}, point(0, 0))]),
    "no properties": collection([feature({}, point(0, 0)), feature({}, point(1, 1))]),
    "all missing": collection([feature({"a": None, "b": None}, None), feature({"a": None}, None)]),
    "column called geometry": collection([feature({"geometry": 1, "a": 2}, point(0, 0))]),
    "columns called like the rest": collection([feature({"type": "t", "metadata": 1, "features": 2, "properties": 3}, point(0, 0), id=5)]),
    "extremes": collection([feature({"a": 2**62, "c": 1e308}, point(0, 0)), feature({"a": -2**62, "c": -1e308}, point(0, 0))]),
    "null properties": collection([feature(None, point(0, 0))]),
    "bad feature type": collection([{"type": "Other", "properties": {}, "geometry": None}]),
    "bad top level": {"type": "Feature", "features": []},
}

COLUMNS = [[], ["a"], ["b", "a"], ["geometry"], ["nope"], ["a", "nope"], ("a",)]
DTYPES = [{}, {"a": float}, {"a": int, "b": str}, {"b": float}, {"nope": float},
          {"a": float, "nope": float}, {"nope": float, "a": float}, {"b": float, "nope": float},
          {"nope": float, "b": float}, {"geometry": object}, {"geometry": object, "a": object},
          {"type": str}, {"metadata": object}, {"features": object}, {"properties": object},
          {"crs": object}, {"name": str}, {"c": float, "d": bool, "e": object},
          {"a": "datetime64[D]"}, {"a": np.int8}, {"": float}, {1: float}, {None: float},
          {("a",): float}, {"A": float}, {"a ": float}, None, [("a", float)]]

directory = tempfile.mkdtemp()
try:
    count = 0
    for name, content in FILES.items():
        path = os.path.join(directory, "data.geojson")
        with open(path, "w") as f:
            json.dump(content, f)
        for columns in COLUMNS:
            for dtypes in DTYPES:
                for call in (1, 2):
                    new = outcome(GeoJSON.read.__func__, path, columns=columns, dtypes=dtypes)
                    old = outcome(old_read, path, columns=columns, dtypes=dtypes)
                    count += 1
                    check(new == old, f"{name} columns={columns} dtypes={dtypes} call {call}:\n  {new}\n  {old}")
    path = os.path.join(os.getcwd(), "data", "neighbourhoods.geojson")
    for columns in [[], ["neighbourhood"], ["geometry"], ["nope"]]:
        for dtypes in [{}, {"neighbourhood": object}, {"neighbourhood_group": str, "nope": int},
                       {"geometry": object}, {"nope": int}, {"neighbourhood": float}]:
            new = outcome(GeoJSON.read.__func__, path, columns=columns, dtypes=dtypes)
            old = outcome(old_read, path, columns=columns, dtypes=dtypes)
            count += 1
            check(new == old, f"neighbourhoods columns={columns} dtypes={dtypes}: {new[0][:3]} {old[0][:3]}")
    print(count, "comparisons with the old read")

    # Expected values built by hand, not with the library.

    def expect_exception(cls, function, what, message=None):
        try:
            function()
        except Exception as error:
            check(type(error) is cls, f"{what}: {type(error).__name__} instead of {cls.__name__}")
            if message is not None:
                check(message in str(error), f"{what}: message {error!s}")
        else:
            check(False, f"{what}: no exception")

    path = os.path.join(directory, "data.geojson")
    with open(path, "w") as f:
        json.dump(FILES["ordinary"], f)
    data = GeoJSON.read(path, dtypes={"a": float, "geometry": object})
    check(data.colnames == ["a", "b", "c", "d", "e", "geometry"], "hand: colnames")
    check(data.a.dtype == np.dtype("float64") and data.a.tolist() == [1.0, 2.0, 3.0], "hand: a as float")
    check(data.geometry.dtype == np.dtype("object"), "hand: geometry as object")
    check(data.geometry.tolist() == [point(1, 2), point(3, 4), None], "hand: geometry values")
    check(dict(data.metadata) == {"type": "FeatureCollection", "crs": {"type": "name", "properties": {"name": "x"}}, "name": "demo"}, "hand: metadata")
    data = GeoJSON.read(path, columns=["geometry"], dtypes={"geometry": object})
    check(data.colnames == ["geometry"] and data.nrow == 3, "hand: geometry alone, with a dtype")
    expect_exception(KeyError, lambda: GeoJSON.read(path, dtypes={"nope": float}), "unknown column", "'nope'")
    expect_exception(KeyError, lambda: GeoJSON.read(path, columns=["b"], dtypes={"a": float}), "column not asked for", "'a'")
    expect_exception(KeyError, lambda: GeoJSON.read(path, dtypes={"name": str}), "name in the metadata only", "'name'")
    expect_exception(KeyError, lambda: GeoJSON.read(path, dtypes={"nope": float, "b": float}), "unknown column first", "'nope'")
    # The earlier column fails first, with its own exception, as before.
    expect_exception(ValueError, lambda: GeoJSON.read(path, dtypes={"b": float, "nope": float}), "bad conversion first")
    with open(path, "w") as f:
        json.dump(FILES["no features"], f)
    data = GeoJSON.read(path)
    check(data.colnames == ["geometry"] and data.nrow == 0, "hand: no features")
    data = GeoJSON.read(path, dtypes={"geometry": object})
    check(data.colnames == ["geometry"] and data.nrow == 0 and data.geometry.dtype == np.dtype("object"), "hand: no features, with a dtype")
    expect_exception(KeyError, lambda: GeoJSON.read(path, dtypes={"a": float}), "no features, unknown column", "'a'")
finally:
    shutil.rmtree(directory)

print("FAILURES:", len(FAILURES))
sys.exit(1 if FAILURES else 0)
