import os, sys; sys.path.insert(0, os.getcwd())
import itertools, math, datetime, warnings
import numpy as np
import dataiter as di
from dataiter import DataFrame, DataFrameColumn, Vector, util

FAILURES = []

def check(label, ok):
    print(("ok   " if ok else "FAIL ") + label)
    if not ok:
        FAILURES.append(label)

def same_scalar(a, b):
    if type(a) is not type(b):
        return False
    if isinstance(a, (float, np.floating)) and a != a:
        return b != b
    if isinstance(a, (np.datetime64, np.timedelta64)) and np.isnat(a):
        return bool(np.isnat(b)) and a.dtype == b.dtype
    if isinstance(a, np.ndarray):
        return same_array(a, b)
    return bool(a == b)

def same_array(a, b):
    # Same class, dtype, shape and element-wise identical values
    # (NaN/NaT positions included, -0.0 vs 0.0 told apart via bytes).
    if type(a) is not type(b): return False
    if a.dtype != b.dtype or a.shape != b.shape: return False
    if a.dtype.kind in "biufcmMSUV?" and not a.dtype.hasobject:
        return a.tobytes() == b.tobytes()
    return all(same_scalar(x, y) for x, y in zip(list(a), list(b)))

def same_frame(a, b):
    return (type(a) is type(b) and
            list(a.keys()) == list(b.keys()) and
            all(same_array(a[k], b[k]) for k in a) and
            a._group_colnames == b._group_colnames)

def outcome(function):
    # Result or (exception type, message) of calling function.
    try:
        return ("value", function())
    except Exception as e:
        return ("error", type(e), str(e))

def same_outcome(x, y, same=None):
    if x[0] != y[0]: return False
    if x[0] == "error": return x[1:] == y[1:]
    return (same or same_frame)(x[1], y[1])

# --- Change 4 (fix): DataFrame.from_pandas with column labels that are not strings.

import pandas as pd

def old_from_pandas(cls, data, *, dtypes={}):
    def generate():
        for name in data.columns:
            req_dtype = dtypes.get(name, None)
            na = data[name].isna().to_numpy(copy=True)
            column = data[name].to_numpy(copy=True)
            if np.issubdtype(column.dtype, np.object_):
                if req_dtype is None or np.dtype(req_dtype) != np.dtype(object):
                    column = column.tolist()
            column = DataFrameColumn.fast(column, req_dtype)
            if na.any():
                if column.dtype != column.na_dtype:
                    column = column.astype(column.na_dtype)
                column[na] = column.na_value
            yield name, column
    return cls._new(generate())

def same_frame_and_keys(a, b):
    return (same_frame(a, b) and
            all(type(x) is type(y) for x, y in zip(a.keys(), b.keys())))

# 1. The reported case: default integer labels.
pdf = pd.DataFrame(np.arange(6.0).reshape(3, 2))
y = outcome(lambda: old_from_pandas(DataFrame, pdf))
check("reported case used to raise TypeError", y[0] == "error" and y[1] is TypeError)
data = DataFrame.from_pandas(pdf)
check("reported case: names", data.colnames == ["0", "1"] and all(type(x) is str for x in data))
check("reported case: values", data["0"].tolist() == [0.0, 2.0, 4.0] and data["1"].tolist() == [1.0, 3.0, 5.0])
check("reported case: dtypes", data["0"].dtype == np.float64 and data["1"].dtype == np.float64)
check("reported case: a regular data frame", data.nrow == 3 and data.ncol == 2 and type(data["0"]) is DataFrameColumn)
check("reported case: prints", "0" in data.to_string().splitlines()[1])
data["0"][0] = 100
check("reported case: copy of the pandas data", pdf.iloc[0, 0] == 0.0)
check("reported case: repeated call", same_frame(DataFrame.from_pandas(pdf), DataFrame.from_pandas(pdf)))

# Other kinds of labels, which all used to raise.
labels = {
    "ints and missing values": [0, 1, 2],
    "negative": [-1, 5],
    "floats": [0.5, 1.5],
    "numpy ints": list(np.array([7, 8], np.int64)),
    "bool": [True, False],
    "none": [None, "a"],
    "tuple": [("a", 1), ("a", 2)],
    "bytes": [b"x", b"y"],
    "timestamp": [pd.Timestamp("2020-01-01"), pd.Timestamp("2020-01-02")],
    "mixed": ["a", 1, "b"],
    "non-string last": ["a", "b", 3],
}
for name, cols in labels.items():
    pdf = pd.DataFrame({c: [1, None, 3] if i == 0 else ["x", None, "ö𝔘"] for i, c in enumerate(cols)})
    pdf.columns = pd.Index(cols, dtype=object) if not isinstance(cols[0], tuple) else pd.MultiIndex.from_tuples(cols)
    y = outcome(lambda: old_from_pandas(DataFrame, pdf))
    check(f"{name}: used to raise TypeError", y[0] == "error" and y[1] is TypeError)
    data = DataFrame.from_pandas(pdf)
    check(f"{name}: names", data.colnames == [c if isinstance(c, str) else str(c) for c in cols])
    check(f"{name}: values", data.columns[0].tolist() == [1, None, 3] and data.columns[1].tolist() == ["x", None, "ö𝔘"])
    check(f"{name}: dtypes", data.columns[0].dtype == np.float64 and data.columns[1].is_string())
# dtypes are still looked up by the pandas label.
pdf = pd.DataFrame({0: [1, 2], 1: ["a", "b"]})
data = DataFrame.from_pandas(pdf, dtypes={0: float, 1: object, "0": np.int8})
check("dtypes by pandas label", data["0"].dtype == np.float64 and data["1"].dtype == object)

# 2. Nothing changes for frames with string labels: old against new.
class Label(str):
    pass
NaT = pd.NaT
frames = {
    "no columns": pd.DataFrame(),
    "no columns but rows": pd.DataFrame(index=[0, 1, 2]),
    "no rows": pd.DataFrame({"a": [], "b": []}),
    "no rows typed": pd.DataFrame({"a": pd.Series([], dtype="int64"), "b": pd.Series([], dtype="object"), "c": pd.Series([], dtype="datetime64[ns]")}),
    "one row": pd.DataFrame({"a": [1], "b": ["x"]}),
    "ordinary": pd.DataFrame({"a": [1, 2, 3], "b": ["x", "y", "z"], "c": [1.5, 2.5, 3.5], "d": [True, False, True]}),
    "missing": pd.DataFrame({"a": [1, None, 3], "b": ["x", None, "z"], "c": [None, None, None], "d": [True, None, False]}),
    "all missing": pd.DataFrame({"a": [np.nan, np.nan], "b": [None, None], "c": [NaT, NaT]}),
    "special floats": pd.DataFrame({"a": [np.inf, -np.inf, np.nan, -0.0]}),
    "unsigned and extreme": pd.DataFrame({"a": np.array([0, 2**64 - 1], np.uint64), "b": np.array([2**63 - 1, -2**63]), "c": np.array([0, 255], np.uint8)}),
    "dates": pd.DataFrame({"a": pd.to_datetime(["2020-01-01", None, "2020-01-03"]), "b": pd.to_timedelta([1, None, 3], unit="s")}),
    "dates as objects": pd.DataFrame({"a": [datetime.date(2020, 1, 1), None], "b": [datetime.datetime(2020, 1, 1, 12), None]}),
    "nullable": pd.DataFrame({"a": pd.array([1, None, 3], dtype="Int64"), "b": pd.array(["x", None, "z"], dtype="string"), "c": pd.array([True, None, False], dtype="boolean")}),
    "categorical": pd.DataFrame({"a": pd.Categorical(["x", "y", None])}),
    "non-ascii": pd.DataFrame({"ä": ["ö", "𝔘𝔫𝔦", ""], "𝔘": [1, 2, 3], "": [1, 2, 3], "a b": [1, 2, 3], "items": [1, 2, 3], "nrow": [1, 2, 3], "class": [1, 2, 3]}),
    "mixed objects": pd.DataFrame({"a": [1, "x", None], "b": [(1, 2), [3], {"k": 1}]}),
    "duplicates and ties": pd.DataFrame({"a": [1, 1, 1, 2, 2], "b": ["x", "x", "x", "y", "y"]}),
    "odd index": pd.DataFrame({"a": [1, 2, 3]}, index=["r", "s", "t"]),
    "numpy string labels": pd.DataFrame(np.zeros((2, 2)), columns=np.array(["a", "b"])),
    "string subclass labels": pd.DataFrame(np.zeros((2, 2)), columns=pd.Index([Label("a"), Label("b")], dtype=object)),
    "duplicate labels": pd.DataFrame(np.zeros((2, 2)), columns=["a", "a"]),
    "duplicate labels, strings": pd.DataFrame([["x", "y"], ["z", "w"]], columns=["a", "a"]),
}
dtypes_variants = [{}, {"a": float}, {"a": object}, {"a": str, "b": object}, {"zzz": int}, {"c": "datetime64[D]"}]
for name, pdf in frames.items():
    before = pdf.copy(deep=True)
    for dtypes in dtypes_variants:
        with warnings.catch_warnings():
            warnings.simplefilter("ignore")
            x = outcome(lambda: DataFrame.from_pandas(pdf, dtypes=dtypes))
            y = outcome(lambda: old_from_pandas(DataFrame, pdf, dtypes=dtypes))
        check(f"{name}, dtypes {dtypes}: {x[0]}", same_outcome(x, y, same_frame_and_keys))
    check(f"{name}: pandas data untouched", pdf.equals(before) and list(pdf.columns) == list(before.columns))
# Keys are the very same label objects as before.
pdf = frames["string subclass labels"]
data = DataFrame.from_pandas(pdf)
check("label objects passed through as they are", all(x is y for x, y in zip(data.keys(), pdf.columns)) and all(type(x) is Label for x in data.keys()))
# Arguments that are not pandas data frames fail the same.
for k, arg in enumerate([None, {"a": [1]}, [1, 2], DataFrame(a=[1]), pd.Series([1, 2], name="a")]):
    x = outcome(lambda: DataFrame.from_pandas(arg))
    y = outcome(lambda: old_from_pandas(DataFrame, arg))
    check(f"bad argument {k}: {x[0]} {x[1].__name__ if x[0] == 'error' else ''}", same_outcome(x, y, same_frame_and_keys))
# Round trip and independence of the result.
data = DataFrame(a=[1, 2, 3], b=["x", "", "z"], c=[1.5, None, 3.5])
back = DataFrame.from_pandas(data.to_pandas())
check("round trip", same_frame(back, old_from_pandas(DataFrame, data.to_pandas())) and back.a.tolist() == [1, 2, 3] and back.b.tolist() == ["x", None, "z"])
pdf = pd.DataFrame({"a": [1.0, 2.0]})
data = DataFrame.from_pandas(pdf)
data.a[0] = 100
pdf.iloc[1, 0] = 200
check("result independent of pandas data", pdf.a.tolist() == [1.0, 200.0] and data.a.tolist() == [100.0, 2.0])

print(f"{len(FAILURES)} failures")
sys.exit(1 if FAILURES else 0)
