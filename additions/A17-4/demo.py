import os, sys; sys.path.insert(0, os.getcwd())

# Change 4: Vector.head, Vector.tail and Vector.sample resolve their default
# with `n = dataiter.DEFAULT_PEEK_ELEMENTS if n is None else n` (one line, inside
# the body) instead of the two-line `if n is None:` block. Only None means
# "use the option"; 0, False and negative values are kept as given, and the
# option is still read when the method is called.
# The demo compares with verbatim copies of the old methods and with
# plain-Python list slicing.

import inspect
import numpy as np
import dataiter
import dataiter as di
from dataiter import Vector, DataFrameColumn

failures = []
def check(ok, what):
    if not ok:
        failures.append(what)
        print("MISMATCH:", what)

def old_head(self, n=None):
    if n is None:
        n = dataiter.DEFAULT_PEEK_ELEMENTS
    n = min(self.length, n)
    return self[np.arange(n)].copy()

def old_tail(self, n=None):
    if n is None:
        n = dataiter.DEFAULT_PEEK_ELEMENTS
    n = min(self.length, n)
    return self[np.arange(self.length - n, self.length)].copy()

def old_sample(self, n=None):
    if n is None:
        n = dataiter.DEFAULT_PEEK_ELEMENTS
    n = min(self.length, n)
    indices = np.random.choice(self.length, n, replace=False)
    return self[np.sort(indices)].copy()

def outcome(f, v, *args, **kwargs):
    np.random.seed(42)
    try:
        r = f(v, *args, **kwargs)
    except BaseException as e:
        return ("error", type(e).__name__, str(e))
    return ("ok", type(r).__name__, str(r.dtype), r.shape, [repr(x) for x in r.view(np.ndarray).tolist()],
            np.shares_memory(r, v), r.flags.owndata, r.flags.writeable)

NAN, INF = float("nan"), float("inf")
vectors = {
    "int 25": Vector(range(25)),
    "int 3": Vector([7, 8, 9]),
    "one": Vector([1]),
    "empty int": Vector([], int),
    "empty string": Vector([], str),
    "empty object": Vector([], object),
    "float": Vector([1.5, NAN, INF, -INF, NAN, 0.0, -0.0] * 3),
    "all nan": Vector([NAN] * 12),
    "uint64": Vector.fast(np.array([0, 2**64 - 1, 2**63] * 5, np.uint64)),
    "int64 extreme": Vector.fast(np.array([-2**63, 2**63 - 1] * 7, np.int64)),
    "bool": Vector([True, False] * 8),
    "string": Vector(["a", "", "ä", "日本語", None] * 4),
    "date": Vector(["2020-01-01", None, "1999-12-31"] * 5).as_date(),
    "timedelta": Vector.fast(np.array([1, "NaT", 3] * 5, "timedelta64[s]")),
    "object": Vector([None, 1, "a", None, 2.5, [1, 2]] * 3, object),
    "column": DataFrameColumn(range(30)),
    "strided": Vector(range(40))[::3],
}
ns = [None, 0, 1, 2, 3, 10, 11, 24, 25, 26, 1000, -1, -3, -1000, False, True,
      np.int64(4), np.int64(0), np.uint8(2), np.int64(-2), 2.0, 0.0, 2.5, float("nan"), float("inf"),
      "", "3", [], [2], (), 2**70, -2**70, np.array(3), np.array([3]), NotImplemented]

saved = dataiter.DEFAULT_PEEK_ELEMENTS
count = 0
try:
    for option in (saved, 0, 1, 3, 12, 10**6, -2, 2.0, None, "5"):
        # The option is changed after import and must be honoured at call time.
        dataiter.DEFAULT_PEEK_ELEMENTS = option
        for name, v in vectors.items():
            before = v.copy()
            for old, new in ((old_head, Vector.head), (old_tail, Vector.tail), (old_sample, Vector.sample)):
                calls = [((), {})] + [((n,), {}) for n in ns] + [((), {"n": n}) for n in (None, 0, 2, -1)]
                for args, kwargs in calls:
                    a = outcome(old, v, *args, **kwargs)
                    b = outcome(new, v, *args, **kwargs)
                    check(a == b, f"option={option!r} {name} {new.__name__}{args}{kwargs}: {a} != {b}")
                    count += 1
            check(v.equal(before), f"{name}: vector modified")
finally:
    dataiter.DEFAULT_PEEK_ELEMENTS = saved

# Plain-Python expectations.
for name, v in vectors.items():
    items = v.view(np.ndarray).tolist()
    size = len(items)
    def same(result, expected):
        return ([repr(x) for x in result.view(np.ndarray).tolist()] == [repr(x) for x in expected]
                and type(result) is type(v) and result.dtype == v.dtype
                and not np.shares_memory(result, v))
    for n in (0, 1, 2, 10, size, size + 1, 1000):
        k = min(size, n)
        check(same(v.head(n), items[:k]), f"{name}: head({n})")
        check(same(v.tail(n), items[size - k:]), f"{name}: tail({n})")
        np.random.seed(7)
        expected_indices = sorted(np.random.choice(size, k, replace=False).tolist())
        np.random.seed(7)
        check(same(v.sample(n), [items[i] for i in expected_indices]), f"{name}: sample({n})")
    for n in (-1, -5, -1000):
        # Negative counts give nothing (they do not count from the other end).
        check(same(v.head(n), []), f"{name}: head({n})")
        check(same(v.tail(n), []), f"{name}: tail({n})")
    # No argument / None: the option as it is at that moment; 0 is 0, not the option.
    for option in (0, 2, 10, 10**6):
        dataiter.DEFAULT_PEEK_ELEMENTS = option
        try:
            k = min(size, option)
            check(same(v.head(), items[:k]) and same(v.head(None), items[:k]), f"{name}: head() option {option}")
            check(same(v.tail(), items[size - k:]) and same(v.tail(n=None), items[size - k:]), f"{name}: tail() option {option}")
            check(len(v.sample()) == k == len(v.sample(None)), f"{name}: sample() option {option}")
            check(same(v.head(0), []) and same(v.tail(0), []) and same(v.sample(0), []), f"{name}: explicit 0 with option {option}")
            check(same(v.head(False), []) and same(v.tail(False), []), f"{name}: explicit False with option {option}")
        finally:
            dataiter.DEFAULT_PEEK_ELEMENTS = saved

# The result is a fresh copy: changing it leaves the vector alone.
v = Vector(range(5))
for r in (v.head(3), v.tail(3), v.sample(3), v.head(), v.tail()):
    r[:] = -1
check(v.tolist() == [0, 1, 2, 3, 4], "fresh copy")

# Signatures are unchanged: the default stays None in the signature.
for f in (Vector.head, Vector.tail, Vector.sample):
    check(str(inspect.signature(f)) == "(self, n=None)", f"signature of {f.__name__}")

# Data frame head / tail build on their own default and still work.
data = di.DataFrame(x=range(30))
check(data.head().nrow == di.DEFAULT_PEEK_ROWS and data.head(0).nrow == 0 and data.tail(2).x.tolist() == [28, 29], "data frame")

print("calls compared:", count, "failures:", len(failures))
sys.exit(1 if failures else 0)
