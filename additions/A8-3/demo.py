import os, sys; sys.path.insert(0, os.getcwd())
import numpy as np
import dataiter as di
from dataiter import Vector
from dataiter.aggregate import handle_na

def old_nth(x, index, *, drop_na=False):
    # The original (non-group) implementation, verbatim.
    x = handle_na(x, drop_na)
    try:
        return x[index].item()
    except IndexError:
        return x.na_value

def plain_nth(v, index, drop_na):
    # Independent expectation with a plain Python list (None = missing).
    lst = v.tolist()
    if drop_na:
        lst = [x for x in lst if x is not None]
    try:
        return lst[index]
    except IndexError:
        return "OUT OF RANGE"

def canon(r):
    # Make results comparable: type plus a representation where NaN == NaN.
    return (type(r), repr(r))

def run(f, *args, **kwargs):
    try:
        return canon(f(*args, **kwargs))
    except Exception as e:
        return ("raised", type(e).__name__, str(e))

nan = float("nan")
vectors = [
    Vector([1, 2, 3]), Vector([7]), Vector.fast([], int),
    Vector.fast([0, 2**64 - 1], np.uint64), Vector.fast([-2**63, 2**63 - 1], np.int64),
    Vector([True, False, True]), Vector.fast([], bool),
    Vector([1.5, None, np.inf, -np.inf, None]), Vector.fast([nan, nan], float), Vector.fast([], float),
    Vector(["a", "", "ö", None, "日本語"]), Vector(["", ""]), Vector.fast([], str),
    Vector.fast(["2020-01-01", "NaT", "1969-12-31"], "datetime64[D]"), Vector.fast([], "datetime64[us]"),
    Vector.fast(["2020-01-01T00:00:00.000000001", "NaT"], "datetime64[ns]"),
    Vector.fast([1, "NaT", 3], "timedelta64[s]"), Vector.fast(["NaT"], "timedelta64[s]"),
    Vector([True, None, "x", 1.5]), Vector.fast([None, None], object), Vector.fast([], object),
    Vector.fast([1 + 2j], complex), Vector.fast([b"a", b""], bytes), Vector.fast(["a", ""], "U1"),
]
obj = Vector.fast([None, None], object); obj[0] = [1, 2]; obj[1] = np.arange(3)
vectors.append(obj)

for v in vectors:
    n = len(v)
    indices = list(range(-n - 3, n + 3)) + [10**30, -10**30, 2**63, -2**63 - 1, 2**31 - 1, 2**31, -2**31, -2**31 - 1, 2**63 - 1, -2**63, 2**64 - 1, 2**64,
        True, False, np.int64(0), np.int64(n), np.int64(-n - 1), np.uint8(200), np.bool_(True),
        0.0, 2.0, float(n), nan, None, Ellipsis, [0], [], [n], (0,), slice(0, 1), slice(None),
        np.array([0]), np.array([True] * n), "a", 1 + 0j]
    for drop_na in (False, True):
        for index in indices:
            new = run(di.nth, v, index, drop_na=drop_na)
            old = run(old_nth, v, index, drop_na=drop_na)
            assert new == old, (v.dtype, index, drop_na, new, old)
            if type(index) is int and new[0] != "raised" and v.dtype.kind not in "cSUV" and v is not obj:
                exp = plain_nth(v, index, drop_na)
                got = di.nth(v, index, drop_na=drop_na)
                if exp is None:   # a missing element in range: covered by the comparison above
                    pass
                elif exp == "OUT OF RANGE":   # must be the dtype's NA value
                    assert canon(got) == canon(handle_na(v, drop_na).na_value), (v.dtype, index, got)
                else:
                    assert got == exp and type(got) is type(exp), (v.dtype, index, got, exp)
        assert run(di.first, v, drop_na=drop_na) == run(old_nth, v, 0, drop_na=drop_na)
        assert run(di.last, v, drop_na=drop_na) == run(old_nth, v, -1, drop_na=drop_na)

# The exact bounds: index == len(x) and index == -len(x) - 1 are out, -len(x) and len(x) - 1 are in.
v = Vector([10, 20, 30])
assert di.nth(v, 2) == 30 and di.nth(v, -3) == 10
assert np.isnan(di.nth(v, 3)) and np.isnan(di.nth(v, -4))
assert di.nth(Vector([7]), True) == 7            # True is a mask for NumPy, not position 1
assert di.first(Vector.fast([], str)) == "" and di.last(Vector.fast([], object)) is None
assert np.isnat(di.first(Vector.fast([], "timedelta64[s]")))
assert np.isnan(di.first(Vector([None, None], float), drop_na=True))

# Wrong dimensions: unchanged.
for bad in [np.arange(6).reshape(2, 3).view(Vector), np.arange(3).reshape(3, 1).view(Vector), np.array(5).view(Vector)]:
    for index in (-4, -1, 0, 1, 2, 3, 5):
        assert run(di.nth, bad, index) == run(old_nth, bad, index), (bad.shape, index)

# Not a vector: same TypeError as before; a string still gives an aggregate function.
assert run(di.nth, [1, 2, 3], 5)[1] == "TypeError"
assert callable(di.nth("x", 5)) and di.nth("x", 5).group_aware

# Group-wise use is untouched and agrees.
data = di.DataFrame(g=[1, 1, 2, 3, 3, 3], x=[1.5, 2.5, 3.5, 4.5, 5.5, 6.5])
out = data.group_by("g").aggregate(a=di.nth("x", 1), b=di.nth("x", -3), c=di.nth("x", 3))
assert out.a.tolist() == [2.5, None, 5.5] and out.b.tolist() == [None, None, 4.5] and out.c.tolist() == [None] * 3

# Source is never modified; repeated calls agree.
v = Vector([1.5, None]); keep = v.tobytes()
for i in range(3):
    assert np.isnan(di.nth(v, 5)) and np.isnan(di.nth(v, 1, drop_na=True))
assert v.tobytes() == keep
print("OK")
