import os, sys; sys.path.insert(0, os.getcwd())

import bz2
import collections
import csv
import gzip
import io
import lzma
import shutil
import tempfile

from attd import AttributeDict, FallbackAttributeDict
from dataiter import ListOfDicts

TMP = tempfile.mkdtemp(dir=os.path.dirname(os.path.abspath(__file__)))
failures = []

def check(label, ok):
    if not ok:
        failures.append(label)
        print("FAIL", label)

def reference_text(items, header=True, sep=","):
    # The old algorithm in plain Python: superset of keys in order of first
    # appearance, each row merged on top of an all-None row.
    if not items:
        raise ValueError("Cannot write empty CSV file")
    keys = []
    for item in items:
        for key in item:
            if not any(key is k or key == k for k in keys):
                keys.append(key)
    f = io.StringIO(newline="")
    writer = csv.DictWriter(f, keys, dialect="unix", delimiter=sep, quoting=csv.QUOTE_MINIMAL)
    if header:
        writer.writeheader()
    for item in items:
        row = {}
        for key in keys:
            row[key] = None
        for key in item:
            row[key] = item[key]
        writer.writerow(row)
    return f.getvalue()

def read_back(path, encoding):
    opener = open
    if path.endswith(".gz"): opener = gzip.open
    if path.endswith(".bz2"): opener = bz2.open
    if path.endswith(".xz"): opener = lzma.open
    with opener(path, "rt", encoding=encoding, newline="") as f:
        return f.read()

nan1, nan2 = float("nan"), float("nan")
CASES = {
    "ordinary": [{"a": 1, "b": "x"}, {"a": 2, "b": "y"}],
    "missing keys": [{"a": 1}, {"b": 2}, {"c": 3, "a": 4}, {}],
    "all empty dicts": [{}, {}],
    "none values": [{"a": None, "b": None}, {"a": None}],
    "single column none and empty": [{"a": None}, {"a": ""}, {}, {"a": "x"}],
    "quoting": [{"a": 'say "hi"', "b": "x,y", "c": "line1\nline2", "d": "semi;colon", "e": " pad "}],
    "non-ascii": [{"nimi": "Åke Öhman", "kaupunki": "Jyväskylä"}, {"nimi": "山田", "emoji": "\U0001f600"}],
    "floats": [{"x": float("nan"), "y": float("inf"), "z": float("-inf")}, {"x": 0.1, "y": -0.0, "z": 1e308}],
    "extreme ints": [{"i": 2**64 - 1, "j": -2**63}, {"i": 10**40, "j": 0}, {"i": True, "j": False}],
    "nested values": [{"a": [1, 2], "b": {"x": 1}, "c": (1, 2)}, {"a": None}],
    "keys like dict methods": [{"keys": 1, "get": 2, "items": 3, "values": 4}, {"update": 5, "keys": 6}],
    "non-string keys": [{1: "a", 2.5: "b", None: "c", (1, 2): "d"}, {1.0: "e", True: "f"}, {3: "g"}],
    "nan keys": [{nan1: 1}, {nan2: 2}, {nan1: 3, nan2: 4}],
    "duplicated rows": [{"a": 1, "b": 2}] * 3,
    "single row": [{"a": 1}],
    "key order differs": [{"a": 1, "b": 2}, {"b": 3, "a": 4}, {"c": 5, "b": 6}],
    "empty string key": [{"": 1, "a": 2}, {"a": 3}],
}

for label, dicts in CASES.items():
    for header in [True, False]:
        for sep in [",", ";", "\t"]:
            for ext in [".csv", ".csv.gz", ".csv.bz2", ".csv.xz"]:
                if ext != ".csv" and (sep != "," or not header): continue
                data = ListOfDicts(dicts)
                snapshot = [dict(x) for x in data]
                path = os.path.join(TMP, "sub", "dir", f"out{ext}")
                ret = data.write_csv(path, header=header, sep=sep)
                check(f"{label}: return value", ret is None)
                got = read_back(path, "utf-8")
                expected = reference_text(dicts, header=header, sep=sep)
                check(f"{label} header={header} sep={sep!r} ext={ext}", got == expected)
                # No side effects on the data.
                check(f"{label}: items unchanged", [dict(x) for x in data] == snapshot)
                check(f"{label}: types unchanged", all(type(x) is AttributeDict for x in data))
                check(f"{label}: not obsolete", data._obsolete is False)
                # Second call gives the same file.
                data.write_csv(path, header=header, sep=sep)
                check(f"{label}: second call", read_back(path, "utf-8") == expected)

# Hand-written expectations.
path = os.path.join(TMP, "hand.csv")
ListOfDicts([{"a": 1}, {"b": "ä,ö"}, {}]).write_csv(path)
check("hand 1", read_back(path, "utf-8") == 'a,b\n1,\n,"ä,ö"\n,\n')
ListOfDicts([{"a": None}, {}]).write_csv(path)
check("hand 2", read_back(path, "utf-8") == 'a\n""\n""\n')
ListOfDicts([{"a": None}, {}]).write_csv(path, header=False)
check("hand 3", read_back(path, "utf-8") == '""\n""\n')

# Other encodings, including a failing one: same exception, same partial output.
data = ListOfDicts([{"a": "ä"}, {"b": "ö"}])
data.write_csv(path, encoding="latin-1")
check("latin-1", open(path, "rb").read() == "a,b\nä,\n,ö\n".encode("latin-1"))
data.write_csv(path, encoding="utf-16")
check("utf-16", read_back(path, "utf-16") == "a,b\nä,\n,ö\n")
try:
    ListOfDicts([{"a": "x"}, {"a": "山"}]).write_csv(path, encoding="ascii")
    check("ascii should raise", False)
except UnicodeEncodeError:
    pass

# Empty list: ValueError and nothing created.
path = os.path.join(TMP, "never", "empty.csv")
try:
    ListOfDicts([]).write_csv(path)
    check("empty should raise", False)
except ValueError as e:
    check("empty message", str(e) == "Cannot write empty CSV file")
check("empty: no directory created", not os.path.exists(os.path.dirname(path)))

# Multi-character separator: same TypeError from the csv module.
path = os.path.join(TMP, "sep.csv")
try:
    ListOfDicts([{"a": 1}]).write_csv(path, sep=";;")
    check("bad sep should raise", False)
except TypeError as e:
    check("bad sep message", "delimiter" in str(e))

# Items that are not AttributeDict (as_is=True): plain dict, defaultdict,
# OrderedDict, FallbackAttributeDict; the defaultdict must not grow.
dd = collections.defaultdict(list, {"a": 1})
items = [{"a": 0, "b": 9}, dd, collections.OrderedDict(b=2), FallbackAttributeDict(c=3)]
data = ListOfDicts(items, as_is=True)
path = os.path.join(TMP, "asis.csv")
data.write_csv(path)
check("as_is", read_back(path, "utf-8") == reference_text(items))
check("as_is hand", read_back(path, "utf-8") == "a,b,c\n0,9,\n1,,\n,2,\n,,3\n")
check("defaultdict unchanged", dict(dd) == {"a": 1})
check("same objects", all(x is y for x, y in zip(data, items)))

# Grouped, sliced and obsolete lists.
data = ListOfDicts([{"g": 1, "x": 1}, {"g": 1}, {"g": 2, "y": 3}]).group_by("g")
data.write_csv(path)
check("grouped", read_back(path, "utf-8") == "g,x,y\n1,1,\n1,,\n2,,3\n")
check("grouped keys kept", data._group_keys == ("g",))
data[1:].write_csv(path)
check("sliced", read_back(path, "utf-8") == "g,y\n1,\n2,3\n")

# Later mutation of the data does not matter, next write reflects it.
data[0]["z"] = "new"
data.write_csv(path)
check("after mutation", read_back(path, "utf-8") == "g,x,z,y\n1,1,new,\n1,,,\n2,,,3\n")

shutil.rmtree(TMP)
print("failures:", len(failures))
sys.exit(1 if failures else 0)
