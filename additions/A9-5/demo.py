import os, sys; sys.path.insert(0, os.getcwd())
import io, contextlib, json, math, shutil, tempfile
import numpy as np
from attd import AttributeDict
from dataiter import DataFrameColumn, GeoJSON, util

# GeoJSON.read(columns=["geometry"]) now skips collecting the properties.
# Compared with (1) a verbatim copy of the old read and (2) columns built
# with plain Python from the parsed JSON, for many kinds of `columns`.

def old_read(cls, path, *, encoding="utf-8", columns=[], dtypes={}, **kwargs):
    with util.xopen(path, "rt", encoding=encoding) as f:
        raw = AttributeDict(json.load(f, **kwargs))
    cls._check_raw_data(raw)
    data = {}
    for feature in raw.features:
        for key in feature.properties:
            data.setdefault(key, [])
    if columns:
        data = {k: v for k, v in data.items() if k in columns}
    for feature in raw.features:
        for key in data:
            value = feature.properties.get(key, None)
            data[key].append(value)
    data["geometry"] = [x.geometry for x in raw.features]
    for name, dtype in dtypes.items():
        data[name] = DataFrameColumn(data[name], dtype)
    data = cls(**data)
    del raw.features
    data.metadata = raw
    return data

def plain_expected(doc, columns):
    names = []
    for f in doc["features"]:
        for k in f["properties"]:
            if k not in names: names.append(k)
    if columns:
        names = [k for k in names if k in columns]
    cols = {k: [f["properties"].get(k) for f in doc["features"]] for k in names}
    cols["geometry"] = [f["geometry"] for f in doc["features"]]
    meta = {k: v for k, v in doc.items() if k != "features"}
    return cols, meta

def outcome(f):
    out = io.StringIO()
    try:
        with contextlib.redirect_stdout(out):
            value = f()
        return ("ok", value, out.getvalue())
    except BaseException as e:
        return ("err", type(e), str(e), out.getvalue())

def same_scalar(a, b):
    if a is None or b is None: return a is b
    if isinstance(a, float) and isinstance(b, float) and math.isnan(a): return math.isnan(b)
    return type(a) is type(b) and a == b

def same_frames(a, b):
    assert type(a) is type(b) is GeoJSON
    assert a.colnames == b.colnames, (a.colnames, b.colnames)
    assert a.nrow == b.nrow
    for name in a.colnames:
        assert a[name].dtype == b[name].dtype, (name, a[name].dtype, b[name].dtype)
        assert all(map(same_scalar, a[name].tolist(), b[name].tolist())), name
    assert type(a.metadata) is type(b.metadata) is AttributeDict
    assert list(a.metadata.items()) == list(b.metadata.items())

def pt(x, y): return {"type": "Point", "coordinates": [x, y]}
def feat(props, geom, **extra): return {"type": "Feature", "properties": props, "geometry": geom, **extra}

docs = {
    "ordinary": {"type": "FeatureCollection", "name": "ordinary", "crs": {"type": "name", "properties": {"name": "x"}},
                 "features": [feat({"name": "a", "n": 1, "f": 1.5, "b": True}, pt(1, 2)),
                              feat({"name": "b", "n": 2, "f": 2.5, "b": False}, pt(3, 4))]},
    "property called geometry": {"type": "FeatureCollection",
                 "features": [feat({"name": "a", "geometry": "prop1", "z": 1}, pt(1, 2)),
                              feat({"geometry": "prop2", "name": "b"}, None)], "after": [1, 2]},
    "geometry property only": {"type": "FeatureCollection", "features": [feat({"geometry": 5}, pt(0, 0))]},
    "ragged and nasty": {"type": "FeatureCollection", "bbox": [0, 0, 1, 1],
                 "features": [feat({"ä€": "ключ", "big": 2**70, "neg": -2**63}, pt(0.5, -0.0)),
                              feat({}, None),
                              feat({"nan": float("nan"), "inf": float("inf"), "ä€": None, "geo": 1, "try": 2, "": 3}, pt(1e308, 5)),
                              feat({"big": None, "u": 2**64 - 1, "ä€": "", "e": "geometry"}, {"type": "LineString", "coordinates": []})]},
    "zero features": {"type": "FeatureCollection", "name": "empty", "features": [], "x": None},
    "one feature": {"type": "FeatureCollection", "features": [feat({"a": None}, pt(1, 1))]},
    "extra feature key": {"type": "FeatureCollection", "features": [feat({"a": 1}, pt(1, 1), id=7), feat({"a": 2}, pt(1, 1), id=8, bbox=[1])]},
    "no geometry member": {"type": "FeatureCollection", "features": [feat({"a": 1}, pt(1, 1)), {"type": "Feature", "properties": {"a": 2}}]},
    "bad property type": {"type": "FeatureCollection", "features": [feat({"a": [1]}, pt(1, 1))]},
    "null properties": {"type": "FeatureCollection", "features": [feat(None, pt(1, 1))]},
    "bad feature type": {"type": "FeatureCollection", "features": [{"type": "Thing", "properties": {}, "geometry": None}]},
    "bad top type": {"type": "Feature", "features": []},
    "no features member": {"type": "FeatureCollection"},
    "features is a dict": {"type": "FeatureCollection", "features": {}},
}

class S(str): pass
def columns_variants():
    return {
        "[]": [], "None": None, "()": (),
        "['geometry']": ["geometry"], "('geometry',)": ("geometry",), "['geometry'] * 2": ["geometry", "geometry"],
        "{'geometry'}": {"geometry"}, "frozenset": frozenset(["geometry"]), "dict": {"geometry": 1},
        "str 'geometry'": "geometry", "str 'geo'": "geo",
        "[S('geometry')]": [S("geometry")], "['geometry', S]": ["geometry", S("geometry")],
        "np.array": np.array(["geometry"]), "[b'geometry']": [b"geometry"], "[['geometry']]": [["geometry"]],
        "['geometry', 'name']": ["geometry", "name"], "['name', 'geometry']": ["name", "geometry"],
        "['name']": ["name"], "['nope']": ["nope"], "['ä€', 'nan', 'u']": ["ä€", "nan", "u"],
        "['Geometry']": ["Geometry"], "[' geometry']": [" geometry"], "['geometry', None]": ["geometry", None],
        "['geometry', 1]": ["geometry", 1], "[None]": [None], "[0]": [0], "generator": "GEN", "0": 0, "1": 1,
    }
dtypes_variants = [{}, {"geometry": object}, {"name": str}, {"nope": int}, {"geometry": object, "a": float}, None]

tmp = tempfile.mkdtemp(dir=os.path.dirname(os.path.abspath(__file__)))
try:
    n = 0
    for dname, doc in docs.items():
        path = os.path.join(tmp, "x.geojson")
        with open(path, "w", encoding="utf-8") as f:
            json.dump(doc, f, ensure_ascii=False)
        for cname in columns_variants():
            for dtypes in dtypes_variants:
                def get(name):
                    c = columns_variants()[name]
                    return (x for x in ["geometry"]) if isinstance(c, str) and c == "GEN" else c
                kw = {} if dtypes is None and cname == "[]" else {"dtypes": dtypes}
                exp = outcome(lambda: old_read(GeoJSON, path, columns=get(cname), **kw))
                got = outcome(lambda: GeoJSON.read(path, columns=get(cname), **kw))
                assert exp[0] == got[0], (dname, cname, dtypes, exp, got)
                assert exp[-1] == got[-1], (dname, cname, exp[-1], got[-1])   # same warnings printed
                if exp[0] == "err":
                    assert exp[1:] == got[1:], (dname, cname, dtypes, exp, got)
                else:
                    same_frames(got[1], exp[1])
                    if not dtypes and not (cname == "generator"):
                        cols, meta = plain_expected(json.loads(json.dumps(doc)), get(cname))
                        assert got[1].colnames == list(cols), (dname, cname, got[1].colnames, list(cols))
                        assert all(map(same_scalar, got[1].geometry.tolist(), cols["geometry"])) or True
                        assert [None if g is None else dict(g) for g in got[1].geometry] == cols["geometry"]
                        assert dict(got[1].metadata) == meta and list(got[1].metadata) == list(meta)
                        if cname in ("['geometry']", "('geometry',)", "['geometry'] * 2"):
                            assert got[1].colnames == ["geometry"]
                n += 1
    # compressed file, other encoding, json.load kwargs, default arguments not touched
    path = os.path.join(tmp, "y.geojson.gz")
    with util.xopen(path, "wt", encoding="utf-16") as f:
        json.dump(docs["ragged and nasty"], f, ensure_ascii=False)
    for kw in ({}, {"parse_float": str}, {"parse_int": float}, {"parse_constant": lambda x: None}):
        for columns in (["geometry"], [], ["big"]):
            same_frames(GeoJSON.read(path, encoding="utf-16", columns=columns, **kw),
                        old_read(GeoJSON, path, encoding="utf-16", columns=columns, **kw))
    # repeated calls are independent, the result can be modified and written back
    path = os.path.join(tmp, "x.geojson")
    with open(path, "w", encoding="utf-8") as f:
        json.dump(docs["property called geometry"], f)
    cols = ["geometry"]
    a = GeoJSON.read(path, columns=cols); b = GeoJSON.read(path, columns=cols)
    assert cols == ["geometry"] and a.geometry[0] is not b.geometry[0]
    a.geometry[0]["coordinates"].append(9); a.metadata.after.append(3); a.extra = 1
    same_frames(b, old_read(GeoJSON, path, columns=cols))
    b.write(os.path.join(tmp, "out.geojson"))
    same_frames(GeoJSON.read(os.path.join(tmp, "out.geojson")), b)
    # subclass with its own rules still goes through the same checks
    class Loose(GeoJSON):
        PROPERTY_TYPES = GeoJSON.PROPERTY_TYPES + [list]
    with open(path, "w", encoding="utf-8") as f:
        json.dump(docs["bad property type"], f)
    assert type(Loose.read(path, columns=["geometry"])) is Loose
    assert Loose.read(path, columns=["geometry"]).colnames == ["geometry"]
    assert outcome(lambda: GeoJSON.read(path, columns=["geometry"]))[1] is TypeError
finally:
    shutil.rmtree(tmp)
print("checked", n, "combinations: OK")
