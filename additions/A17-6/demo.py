import os, sys; sys.path.insert(0, os.getcwd())

# Change 6: dt.replace lists its seven optional components explicitly
# (dict(year=year, ..., microsecond=microsecond)) instead of digging them out
# of locals(), and keeps exactly those that are `not None`. None stays the only
# "not given" sentinel: 0, False, "" and empty vectors are passed on as given.
# The demo compares with a verbatim copy of the old function and with values
# built with datetime.replace in plain Python.

import datetime
import inspect
import itertools
import numpy as np
import dataiter as di
from dataiter import dt, util, Vector, DataFrameColumn
from dataiter.dt import _pull_datetime

failures = []
def check(ok, what):
    if not ok:
        failures.append(what)
        print("MISMATCH:", what)

def old_replace(x, year=None, month=None, day=None, hour=None, minute=None, second=None, microsecond=None):
    kwargs = {k: v for k, v in locals().items() if k != "x" and v is not None}
    if all(map(util.is_scalar, kwargs.values())):
        return _pull_datetime(x, lambda y: y.replace(**kwargs))
    for value in kwargs.values():
        assert util.is_scalar(value) or len(value) == len(x)
    scalar_keys = [x for x in kwargs if util.is_scalar(kwargs[x])]
    vector_keys = [x for x in kwargs if x not in scalar_keys]
    # Like _pull_datetime, but no vectorized function.
    assert isinstance(x, np.ndarray)
    assert np.issubdtype(x.dtype, np.datetime64)
    out = np.full_like(x, np.nan)
    out = Vector.fast(out, np.datetime64)
    na = np.isnat(x)
    xobj = x.astype(object)
    kwargs_scalar = {x: kwargs[x] for x in scalar_keys}
    for i in np.flatnonzero(~na):
        for key in vector_keys:
            kwargs_scalar[key] = kwargs[key][i]
        out[i] = xobj[i].replace(**kwargs_scalar)
    return out

def outcome(f, *args, **kwargs):
    try:
        r = f(*args, **kwargs)
    except BaseException as e:
        return ("error", type(e).__name__, str(e))
    if isinstance(r, np.ndarray):
        return ("ok", type(r).__name__, str(r.dtype), r.shape, r.astype(str).tolist(), r.flags.owndata, r.flags.writeable)
    return ("ok", type(r).__name__, str(r))

dates = dt.new(["2022-10-15", "NaT", "2020-02-29", "1969-12-31", "0001-01-01", "9999-12-31"])
times = Vector(["2022-10-15T12:34:56.789012", None, "2020-02-29T23:59:59.999999",
                "1969-12-31T00:00:00", "NaT", "2000-01-01T00:00:00"]).as_datetime()
n = len(dates)
xs = {
    "dates": dates,
    "datetimes us": times,
    "datetimes s": times.as_datetime("s"),
    "all NaT": dt.new(["NaT"] * n),
    "empty": dt.new([]),
    "empty us": Vector([], "datetime64[us]"),
    "column": DataFrameColumn.fast(times),
    "ndarray": np.asarray(times),
    "scalar date": np.datetime64("2022-10-15"),
    "scalar datetime": np.datetime64("2022-10-15T12:34:56"),
    "scalar NaT": np.datetime64("NaT"),
    "python date": datetime.date(2022, 10, 15),
    "python datetime": datetime.datetime(2022, 10, 15, 12, 34, 56, 789),
    "scalar None": None,
    "string vector": Vector(["2022-10-15"]),
}
names = ["year", "month", "day", "hour", "minute", "second", "microsecond"]
# Values per component: None (not given), legitimate falsy values, ordinary and bad ones.
values = {
    "year": [None, 2000, 0, False, "", 1, 9999, 10000, np.int64(1999), [2001] * n, [], Vector([2001] * n), 2000.0],
    "month": [None, 1, 0, False, "", 12, 13, [1, 2, 3, 4, 5, 6], [], np.array([], int)],
    "day": [None, 1, 0, False, "", 28, 31, [1] * n, [0] * n, [], ()],
    "hour": [None, 0, False, "", 23, 24, 0.0, [0] * n, Vector([0, 1, 2, 3, 4, 5]), []],
    "minute": [None, 0, False, "", 59, 60, [0] * n, []],
    "second": [None, 0, False, "", 59, [0] * n, np.zeros(n, int), np.zeros(0, int)],
    "microsecond": [None, 0, False, "", 999999, 10**6, [0] * n, [None] * n, np.array(None), np.array(0)],
}

cases = [{}]
for k in names:
    cases += [{k: v} for v in values[k]]
for a, b in itertools.combinations(names, 2):
    for va in values[a][:8]:
        for vb in values[b][:8]:
            cases.append({a: va, b: vb})
            cases.append({b: vb, a: va}) # keywords given the other way round
# All seven at once, in a few flavours.
cases.append({k: 0 for k in names})
cases.append({k: None for k in names})
cases.append({k: False for k in names})
cases.append({k: "" for k in names})
cases.append({k: 1 for k in names})
cases.append({k: [1] * n for k in names})
cases.append({k: [] for k in names})
cases.append(dict(year=2000, month=2, day=29, hour=0, minute=0, second=0, microsecond=0))
cases.append(dict(year=[2000] * n, month=2, day=[29] * n, hour=0, minute=[0] * n, second=0, microsecond=[0] * n))

count = 0
for xname, x in xs.items():
    for kw in cases:
        a, b = outcome(old_replace, x, **kw), outcome(dt.replace, x, **kw)
        check(a == b, f"{xname} {kw}: {a} != {b}")
        count += 1
    # Positional components.
    for args in ((2000,), (None, 1), (None, None, 0), (2000, 1, 1, 0, 0, 0, 0), (None,) * 7, (0,) * 7,
                 ([2000] * n, None, 1)):
        a, b = outcome(old_replace, x, *args), outcome(dt.replace, x, *args)
        check(a == b, f"{xname} positional {args}: {a} != {b}")
        count += 1
    a, b = outcome(old_replace, x, 2000, 1, 1, 0, 0, 0, 0, 0), outcome(dt.replace, x, 2000, 1, 1, 0, 0, 0, 0, 0)
    check(a[:2] == b[:2] == ("error", "TypeError"), f"{xname}: too many positional arguments")
    a, b = outcome(old_replace, x, weekday=1), outcome(dt.replace, x, weekday=1)
    check(a[:2] == b[:2] == ("error", "TypeError"), f"{xname}: unknown keyword")
    a, b = outcome(old_replace, x, x=1), outcome(dt.replace, x, x=1)
    check(a[:2] == b[:2] == ("error", "TypeError"), f"{xname}: x given twice")

# Plain-Python expectations: 0 is a real value, None means "leave alone".
def expected(x, **kw):
    out = []
    for i, value in enumerate(x.astype(object).tolist()):
        if value is None:
            out.append(np.datetime64("NaT"))
            continue
        this = {k: (v if util.is_scalar(v) else v[i]) for k, v in kw.items() if v is not None}
        out.append(np.datetime64(value.replace(**this)))
    return out
def agrees(result, exp):
    return len(result) == len(exp) and all((a == b) or (np.isnat(a) and np.isnat(b)) for a, b in zip(result, exp))
for kw in (dict(hour=0), dict(hour=0, minute=0, second=0, microsecond=0), dict(hour=None, minute=0),
           dict(year=None, month=None, day=None, hour=None, minute=None, second=None, microsecond=None),
           dict(microsecond=False), dict(hour=[0] * n, minute=None, second=0), dict(day=1, hour=None),
           dict(second=[0, 1, 2, 3, 4, 5], microsecond=0), dict(year=2000, month=1, day=1)):
    check(agrees(dt.replace(times, **kw), expected(times, **kw)), f"times {kw}")
    check(dt.replace(times, **kw).dtype == times.dtype, f"times {kw} dtype")
for kw in (dict(day=1), dict(month=None, day=1), dict(year=[2004, 2008, 2012, 2016, 2020, 2024], month=None), dict()):
    check(agrees(dt.replace(dates, **kw), expected(dates, **kw)), f"dates {kw}")
    check(dt.replace(dates, **kw).dtype == dates.dtype, f"dates {kw} dtype")
check(str(dt.replace(times, hour=0)[0]) == "2022-10-15T00:34:56.789012", "hour=0 is applied")
check(str(dt.replace(times, hour=None)[0]) == "2022-10-15T12:34:56.789012", "hour=None leaves the hour")
check(outcome(dt.replace, times, month=0)[:2] == ("error", "ValueError"), "month=0 is passed on (and rejected by datetime)")
check(outcome(dt.replace, times, day=False)[:2] == ("error", "ValueError"), "day=False is passed on")
check(outcome(dt.replace, times, day="")[:2] == ("error", "TypeError"), 'day="" is passed on')
check(outcome(dt.replace, times, day=[])[:2] == ("error", "AssertionError"), "day=[] is a vector of the wrong length")
check(len(dt.replace(dt.new([]), day=[])) == 0, "day=[] fits an empty vector")

# Fresh result, argument untouched, repeated calls, proxy, signature.
before = times.copy()
a = dt.replace(times, hour=0); b = dt.replace(times, hour=0)
check(a.equal(b) and not np.shares_memory(a, b) and not np.shares_memory(a, times), "fresh results")
a[:] = np.datetime64("2000-01-01")
check(times.equal(before), "argument untouched")
check(times.dt.replace(hour=0, minute=[0] * n).equal(dt.replace(times, hour=0, minute=[0] * n)), "proxy")
check(str(inspect.signature(dt.replace)) ==
      "(x, year=None, month=None, day=None, hour=None, minute=None, second=None, microsecond=None)", "signature")

print("calls compared:", count, "failures:", len(failures))
sys.exit(1 if failures else 0)
