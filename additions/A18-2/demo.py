import os, sys; sys.path.insert(0, os.getcwd())
import contextlib
import io
import json
import shutil
import tempfile
import numpy as np

from dataiter import DataFrameColumn
from dataiter import GeoJSON

HERE = os.path.dirname(os.path.abspath(__file__))
tmpdir = tempfile.mkdtemp(dir=HERE)

def feature(properties, geometry, **extra):
    return {"type": "Feature", "properties": properties, "geometry": geometry, **extra}

def point(x, y):
    return {"type": "Point", "coordinates": [x, y]}

# Independent plain-Python expectation: columns in order of FIRST appearance
# over all features, missing properties as None, geometry last.
def expected_columns(features, columns):
    names = []
    for f in features:
        for key in f["properties"]:
            if key not in names:
                names.append(key)
    if columns:
        names = [x for x in names if x in columns]
    out = {x: [f["properties"].get(x) for f in features] for x in names}
    out["geometry"] = [f["geometry"] for f in features]
    return out

def same(a, b):
    if isinstance(a, float) and isinstance(b, float) and a != a and b != b:
        return True
    return type(a) is type(b) and a == b

FEATURE_SETS = {
    "ordinary": [
        feature({"name": "a", "n": 1}, point(0, 0)),
        feature({"name": "b", "n": 2}, point(1, 1)),
    ],
    "ragged": [
        feature({"b": 1}, point(0, 0)),
        feature({"a": "x", "b": 2}, point(1, 1)),
        feature({"c": 1.5, "a": "y"}, None),
        feature({}, point(2, 2)),
        feature({"d": True, "b": None, "c": None}, point(3, 3)),
    ],
    "repeated-late": [
        feature({"z": 1, "y": 2}, point(0, 0)),
        feature({"y": 3, "x": 4, "z": 5}, point(0, 0)),
        feature({"x": 6, "w": 7, "z": 8}, point(0, 0)),
    ],
    "all-missing": [
        feature({"a": None}, None),
        feature({"a": None, "b": None}, None),
    ],
    "non-ascii": [
        feature({"nimi": "Töölö", "名前": "東京", "": "empty key"}, point(24.9, 60.2)),
        feature({"名前": "大阪", "nimi": "Åbo"}, point(22.3, 60.5)),
    ],
    "extremes": [
        feature({"i": 2**63 - 1, "f": 1e308, "s": ""}, point(0, 0)),
        feature({"i": -2**63, "f": -1e-308, "s": "x"}, point(0, 0)),
        feature({"f": float("nan"), "i": 0}, point(0, 0)),
        feature({"f": float("inf")}, point(0, 0)),
    ],
    "no-properties": [
        feature({}, point(0, 0)),
        feature({}, point(1, 1)),
    ],
    "empty": [],
}

def outcome(function, *args, **kwargs):
    try:
        return ("ok", function(*args, **kwargs))
    except Exception as error:
        return ("error", type(error), str(error))

for label, features in FEATURE_SETS.items():
    raw = {"type": "FeatureCollection", "name": "täst", "crs": {"x": [1, 2]}, "features": features}
    path = os.path.join(tmpdir, f"{label}.geojson")
    with open(path, "w", encoding="utf-8") as f:
        json.dump(raw, f, ensure_ascii=False)
    for columns in [[], ["a"], ["b", "a"], ["nope"], ["z", "x"], ("nimi",), ["geometry"]]:
        want = expected_columns(features, columns)
        # What the constructor does with such columns is not at issue here.
        want_data = outcome(lambda: GeoJSON(**{k: list(v) for k, v in want.items()}))
        got = outcome(GeoJSON.read, path, columns=columns)
        assert got[0] == want_data[0], (label, columns, got, want_data)
        if got[0] == "error":
            assert got == want_data, (label, columns, got, want_data)
            continue
        data = got[1]
        assert isinstance(data, GeoJSON)
        assert list(data.colnames) == list(want), (label, columns, data.colnames, list(want))
        assert data.nrow == len(features)
        for name in want:
            ref = DataFrameColumn(list(want[name]))
            assert data[name].dtype == ref.dtype, (label, name, data[name].dtype, ref.dtype)
            a, b = data[name].tolist(), ref.tolist()
            assert len(a) == len(b) == len(features)
            if name == "geometry":
                assert a == want[name]
            else:
                assert all(same(x, y) for x, y in zip(a, b)), (label, name, a, b)
        # Columns do not share their storage.
        arrays = [np.asarray(data[x]) for x in data.colnames]
        for i, a in enumerate(arrays):
            for b in arrays[i+1:]:
                assert not np.shares_memory(a, b)
        # Metadata is everything but the features.
        assert dict(data.metadata) == {k: v for k, v in raw.items() if k != "features"}
        # Reading again gives the same.
        again = GeoJSON.read(path, columns=columns)
        assert list(again.colnames) == list(data.colnames)

# dtypes are still applied, also an unknown name still raises KeyError.
path = os.path.join(tmpdir, "ragged.geojson")
data = GeoJSON.read(path, dtypes={"a": object, "b": float})
assert data.a.dtype == object and data.b.dtype == float
assert data.colnames == ["b", "a", "c", "d", "geometry"]
assert outcome(GeoJSON.read, path, dtypes={"nope": object})[:2] == ("error", KeyError)
assert outcome(GeoJSON.read, path, columns=["a"], dtypes={"b": float})[:2] == ("error", KeyError)

# Unsupported property type and foreign feature keys behave as before.
path = os.path.join(tmpdir, "bad.geojson")
with open(path, "w") as f:
    json.dump({"type": "FeatureCollection", "features": [feature({"a": [1]}, None)]}, f)
assert outcome(GeoJSON.read, path)[:2] == ("error", TypeError)
with open(path, "w") as f:
    json.dump({"type": "FeatureCollection", "features": [
        feature({"a": 1}, None, id=1), feature({"b": 1}, None, id=2)]}, f)
with contextlib.redirect_stdout(io.StringIO()) as out:
    data = GeoJSON.read(path)
assert out.getvalue() == "Warning: Ignoring feature key 'id'\n"
assert data.colnames == ["a", "b", "geometry"]
assert data.a.tolist()[0] == 1 and data.b.tolist()[1] == 1

# The shipped file.
data = GeoJSON.read("data/neighbourhoods.geojson")
assert data.colnames == ["neighbourhood", "neighbourhood_group", "geometry"], data.colnames
assert data.nrow == 233

shutil.rmtree(tmpdir)
print("OK")
