#!/usr/bin/env python3
"""Print the markdown table of DESIGN.md section 9 from seeded/*/meta.json."""
import glob, json, os
HERE = os.path.dirname(os.path.dirname(os.path.abspath(__file__)))
print("| seed | round | reported by | when first seen | first report |")
print("|---|---|---|---|---|")
for p in sorted(glob.glob(os.path.join(HERE, "seeded", "*", "meta.json"))):
    m = json.load(open(p))
    first = m.get("first_reports") or []
    fr = first[0].split("] ", 1)[-1][:105] if first else "(not reported)"
    if m.get("retired"):
        fr = "(retired: site removed by a later repair) " + fr[:60]
    print(f"| {m['seed']} | {m['round']} | {', '.join(m.get('caught_by') or []) or '—'} | "
          f"{'yes' if m.get('caught_by_when_first_seen') else 'no'} | {fr.replace('|', '/')} |")
