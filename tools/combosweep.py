#!/usr/bin/env python3
"""Detection under refactoring: apply a committed behaviour-preserving refactoring AND a confirmed seed together and
require that the seed is still reported by (one of) the checks recorded to catch it.  An instrument (like mutsweep),
not a registered check.  usage: combosweep.py [--same-file] [--large] [--limit N]   (--large: whole-method rewrites too; there an
analysis error is an accepted outcome, a MISS is not)"""
import glob, importlib, json, os, re, shutil, subprocess, sys, tempfile
from concurrent.futures import ProcessPoolExecutor
HERE = os.path.dirname(os.path.dirname(os.path.abspath(__file__)))
sys.path.insert(0, HERE)
ROOT = "/repo"


def files_of(patch_text):
    return set(re.findall(r"(?m)^diff --git a/(dataiter/[A-Za-z_]+\.py) ", patch_text))


def filtered(patch_text):
    parts = re.split(r"(?m)^(?=diff --git )", patch_text)
    return "".join(p for p in parts if re.match(r"diff --git a/dataiter/[A-Za-z_]+\.py ", p))


def _one(job):
    rname, rpatch, sname, spatch, caught_by = job
    from sa.model import Repo, AnalysisError
    from sa import report
    tmp = tempfile.mkdtemp(prefix="combo-")
    try:
        os.makedirs(os.path.join(tmp, "dataiter"))
        for f in glob.glob(os.path.join(ROOT, "dataiter", "*.py")):
            shutil.copy(f, os.path.join(tmp, "dataiter"))
        for text in (rpatch, spatch):
            fp = os.path.join(tmp, "p.diff")
            open(fp, "w", encoding="utf-8").write(filtered(text))
            r = subprocess.run(["patch", "-p1", "-s", "-F1", "-d", tmp, "-i", fp], capture_output=True, text=True)
            if r.returncode != 0:
                return (rname, sname, "no-apply", "")
        ov = {}
        for f in glob.glob(os.path.join(tmp, "dataiter", "*.py")):
            rel = "dataiter/" + os.path.basename(f)
            src = open(f, encoding="utf-8").read()
            if src != open(os.path.join(ROOT, rel), encoding="utf-8").read():
                ov[rel] = src
        try:
            repo = Repo(ROOT, overlay=ov)
        except Exception as e:
            return (rname, sname, "model-error", str(e)[:100])
        known = report.load_known()
        errs = []
        for pid in caught_by:
            try:
                ctx = report.Context(pid, repo, "quick")
                report.run_check(importlib.import_module(f"sa.props.{pid}"), ctx)
                bad = [o for o in ctx.obligations if o.verdict == report.VIOLATED and not report.match_known(o, known)]
                if bad:
                    return (rname, sname, "reported", f"{pid} {bad[0].rule}")
            except AnalysisError as e:
                errs.append(f"{pid}: {str(e)[:80]}")
        return (rname, sname, "analysis-error" if errs else "MISSED", "; ".join(errs)[:200])
    finally:
        shutil.rmtree(tmp, ignore_errors=True)


def main():
    same_file = "--same-file" in sys.argv
    limit = int(sys.argv[sys.argv.index("--limit") + 1]) if "--limit" in sys.argv else None
    refs = []
    dirs = ["refactors"] + (["refactors_large"] if "--large" in sys.argv else [])
    for p in sorted(q for d_ in dirs for q in glob.glob(os.path.join(HERE, d_, "*", "patch.diff"))):
        refs.append((os.path.basename(os.path.dirname(p)), open(p, encoding="utf-8").read()))
    seeds = []
    for mp in sorted(glob.glob(os.path.join(HERE, "seeded", "*", "meta.json"))):
        m = json.load(open(mp))
        if not m.get("caught_by") or m.get("retired"):
            continue
        seeds.append((m["seed"], open(os.path.join(os.path.dirname(mp), "patch.diff"), encoding="utf-8").read(), m["caught_by"]))
    jobs = []
    for rn, rp in refs:
        rf = files_of(rp)
        for sn, sp, cb in seeds:
            if same_file and not (rf & files_of(sp)):
                continue
            jobs.append((rn, rp, sn, sp, cb))
    if limit:
        jobs = jobs[:limit]
    print(len(jobs), "combinations", flush=True)
    from collections import Counter
    c = Counter()
    with ProcessPoolExecutor(16) as ex:
        for i, r in enumerate(ex.map(_one, jobs, chunksize=8)):
            c[r[2]] += 1
            if r[2] in ("MISSED", "analysis-error", "model-error"):
                print(r, flush=True)
    print(dict(c))


if __name__ == "__main__":
    main()
