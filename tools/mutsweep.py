#!/usr/bin/env python3
"""Generic mutation sweep: how much of the repository's behaviour do the 20 static checks constrain?

Not part of any registered check (it runs the repository's test suite for the mutants the checks are silent
on, which no check may do); it is the instrument with which coverage gaps were looked for.  All scratch
material lives under /tmp/mutsweep and is removed by `clean`.

  mutsweep.py gen                     one-edit AST mutants of dataiter/*.py (tests excluded) -> mutants.jsonl
  mutsweep.py static [N]              run all 20 checks on every mutant (in memory, overlay) -> static.jsonl
  mutsweep.py tests [JOBS]            run the test suite on the mutants no check reports      -> tests.jsonl
  mutsweep.py report                  survivors (suite passes, no check reports) grouped by function
  mutsweep.py clean
"""
import ast, json, os, subprocess, sys, shutil, importlib, hashlib
from concurrent.futures import ProcessPoolExecutor
HERE = os.path.dirname(os.path.dirname(os.path.abspath(__file__)))
sys.path.insert(0, HERE)
WORK = "/tmp/mutsweep"
ROOT = WORK + "/repo" if os.path.isdir(WORK + "/repo/dataiter") else "/repo"     # snapshot taken by `gen`
PROPS = [f"C{i:02d}" for i in range(1, 21)]
CMP = {ast.Lt: ast.LtE, ast.LtE: ast.Lt, ast.Gt: ast.GtE, ast.GtE: ast.Gt, ast.Eq: ast.NotEq, ast.NotEq: ast.Eq,
       ast.Is: ast.IsNot, ast.IsNot: ast.Is, ast.In: ast.NotIn, ast.NotIn: ast.In}


def seg(src_lines, node):
    """(start offset, end offset) of node in the joined source."""
    def off(l, c):
        return sum(len(x) for x in src_lines[:l - 1]) + len(src_lines[l - 1].encode()[:c].decode())
    return off(node.lineno, node.col_offset), off(node.end_lineno, node.end_col_offset)


def mutants_of(rel):
    src = open(os.path.join(ROOT, rel), encoding="utf-8").read()
    lines = src.splitlines(keepends=True)
    tree = ast.parse(src)
    parents = {}
    for n in ast.walk(tree):
        for c in ast.iter_child_nodes(n):
            parents[c] = n
    out = []

    def qual(n):
        names = []
        p = n
        while p is not None:
            if isinstance(p, (ast.FunctionDef, ast.ClassDef)):
                names.append(p.name)
            p = parents.get(p)
        return ".".join(reversed(names))

    def add(node, new_node_or_text, op):
        if not hasattr(node, "end_lineno"):
            return
        s, e = seg(lines, node)
        new = new_node_or_text if isinstance(new_node_or_text, str) else ast.unparse(new_node_or_text)
        if isinstance(node, ast.expr) and not isinstance(new_node_or_text, str):
            new = "(" + new + ")"
        old = src[s:e]
        if old == new:
            return
        out.append({"file": rel, "function": qual(node), "op": op, "line": node.lineno, "start": s, "end": e,
                    "old": old[:160], "new": new})

    import copy
    for fn in [n for n in ast.walk(tree) if isinstance(n, ast.FunctionDef)]:
        if parents.get(fn) is not None and isinstance(parents[fn], ast.FunctionDef) and False:
            continue
        body = fn.body
        for n in ast.walk(fn):
            if n is fn or isinstance(n, (ast.FunctionDef,)) and n is not fn:
                continue
            # innermost function owns the node
            p = parents.get(n)
            owner = None
            while p is not None:
                if isinstance(p, ast.FunctionDef):
                    owner = p
                    break
                p = parents.get(p)
            if owner is not fn:
                continue
            if isinstance(n, ast.Expr) and isinstance(n.value, ast.Constant) and isinstance(n.value.value, str):
                continue
            # conditions
            if isinstance(n, (ast.If, ast.While, ast.IfExp)):
                add(n.test, ast.UnaryOp(op=ast.Not(), operand=copy.deepcopy(n.test)), "COND-NEG")
            if isinstance(n, ast.comprehension):
                for t in n.ifs:
                    add(t, ast.UnaryOp(op=ast.Not(), operand=copy.deepcopy(t)), "COND-NEG")
                    add(t, ast.Constant(True), "COND-TRUE")
            if isinstance(n, ast.Compare) and len(n.ops) == 1 and type(n.ops[0]) in CMP:
                m = copy.deepcopy(n)
                m.ops = [CMP[type(n.ops[0])]()]
                add(n, m, "CMP")
            if isinstance(n, ast.BoolOp):
                m = copy.deepcopy(n)
                m.op = ast.Or() if isinstance(n.op, ast.And) else ast.And()
                add(n, m, "BOOL")
                if len(n.values) >= 2:
                    for i in range(len(n.values)):
                        m = copy.deepcopy(n)
                        del m.values[i]
                        add(n, m if len(m.values) > 1 else m.values[0], "BOOL-DROP")
            if isinstance(n, ast.Constant) and not isinstance(parents.get(n), (ast.Expr, ast.JoinedStr, ast.FormattedValue)):
                v = n.value
                if isinstance(v, bool):
                    add(n, ast.Constant(not v), "CONST")
                elif isinstance(v, int):
                    add(n, ast.Constant(v + 1), "CONST")
                    if v != 0:
                        add(n, ast.Constant(v - 1), "CONST")
                elif v is None and isinstance(parents.get(n), (ast.Call, ast.keyword, ast.Return)):
                    pass
            if isinstance(n, ast.BinOp) and isinstance(n.op, (ast.Add, ast.Sub)):
                m = copy.deepcopy(n)
                m.op = ast.Sub() if isinstance(n.op, ast.Add) else ast.Add()
                add(n, m, "ARITH")
            if isinstance(n, ast.UnaryOp) and isinstance(n.op, (ast.USub, ast.Invert, ast.Not)):
                add(n, copy.deepcopy(n.operand), "UNARY-DROP")
            if isinstance(n, ast.Call):
                f = n.func
                if isinstance(f, ast.Attribute) and f.attr in ("copy", "deepcopy", "view", "as_object", "as_string", "tolist", "item") and not n.args:
                    add(n, copy.deepcopy(f.value), "UNWRAP")
                if isinstance(f, ast.Name) and f.id in ("reversed", "sorted", "list", "tuple", "set", "abs", "int", "str") and len(n.args) == 1 and not n.keywords:
                    add(n, copy.deepcopy(n.args[0]), "UNWRAP")
                pos = [a for a in n.args if not isinstance(a, ast.Starred)]
                if len(n.args) >= 2 and len(pos) == len(n.args):
                    m = copy.deepcopy(n)
                    m.args[0], m.args[1] = m.args[1], m.args[0]
                    add(n, m, "ARG-SWAP")
                for i, k in enumerate(n.keywords):
                    if k.arg is not None:
                        m = copy.deepcopy(n)
                        del m.keywords[i]
                        add(n, m, "KW-DROP")
            if isinstance(n, ast.Subscript) and isinstance(n.slice, ast.Slice):
                sl = n.slice
                if sl.lower is not None or sl.upper is not None:
                    m = copy.deepcopy(n)
                    m.slice = ast.Slice(lower=None, upper=None, step=copy.deepcopy(sl.step))
                    add(n, m, "SLICE-ALL")
            # statement deletion
            if isinstance(n, (ast.Expr, ast.AugAssign, ast.Delete, ast.Raise, ast.Continue, ast.Break)) or \
                    (isinstance(n, ast.Assign) and all(isinstance(t, (ast.Attribute, ast.Subscript)) for t in n.targets)):
                if isinstance(n, ast.Expr) and isinstance(n.value, (ast.Yield, ast.YieldFrom)):
                    pass
                add(n, "pass", "DEL-STMT")
            if isinstance(n, ast.Return) and n.value is not None and isinstance(n.value, ast.Call) and \
                    isinstance(n.value.func, ast.Attribute) and n.value.func.attr in ("copy",):
                pass
    # dedupe
    seen, res = set(), []
    for m in out:
        k = (m["start"], m["end"], m["new"])
        if k not in seen:
            seen.add(k)
            res.append(m)
    return res


def mutated_source(m):
    src = open(os.path.join(ROOT, m["file"]), encoding="utf-8").read()
    return src[:m["start"]] + m["new"] + src[m["end"]:]


def gen():
    global ROOT
    shutil.rmtree(WORK, ignore_errors=True)
    os.makedirs(WORK, exist_ok=True)
    # work on a snapshot, so that /repo may change (fix commits) while the sweep is running
    subprocess.run(["rsync", "-a", "--exclude", ".git", "--exclude", "__pycache__", "--exclude", "*.nbi", "--exclude", "*.nbc",
                    "/repo/", WORK + "/repo/"], check=True)
    ROOT = WORK + "/repo"
    files = sorted(f for f in os.listdir(os.path.join(ROOT, "dataiter")) if f.endswith(".py"))
    allm = []
    for f in files:
        ms = mutants_of("dataiter/" + f)
        ok = []
        for m in ms:
            try:
                ast.parse(mutated_source(m))
                ok.append(m)
            except SyntaxError:
                pass
        allm += ok
    for i, m in enumerate(allm):
        m["id"] = i
    with open(f"{WORK}/mutants.jsonl", "w") as f:
        for m in allm:
            f.write(json.dumps(m) + "\n")
    from collections import Counter
    print(len(allm), "mutants", dict(Counter(m["op"] for m in allm)))


def _static_one(m):
    from sa.model import Repo, AnalysisError
    from sa import report
    res = {"id": m["id"], "caught": [], "errors": []}
    try:
        repo = Repo(ROOT, overlay={m["file"]: mutated_source(m)})
    except Exception as e:
        res["errors"] = ["model:" + type(e).__name__]
        return res
    known = report.load_known()
    for pid in PROPS:
        try:
            ctx = report.Context(pid, repo, "quick")
            report.run_check(importlib.import_module(f"sa.props.{pid}"), ctx)
            bad = [o for o in ctx.obligations if o.verdict == report.VIOLATED and not report.match_known(o, known)]
            if bad:
                res["caught"].append([pid, bad[0].rule, bad[0].function, bad[0].construct[:80]])
        except AnalysisError as e:
            res["errors"].append([pid, str(e)[:120]])
        except Exception as e:
            res["errors"].append([pid, "EXC " + type(e).__name__ + ": " + str(e)[:100]])
    return res


def static(limit=None):
    ms = [json.loads(l) for l in open(f"{WORK}/mutants.jsonl")]
    done = set()
    if os.path.exists(f"{WORK}/static.jsonl"):
        done = {json.loads(l)["id"] for l in open(f"{WORK}/static.jsonl")}
    todo = [m for m in ms if m["id"] not in done]
    if limit:
        todo = todo[:limit]
    with ProcessPoolExecutor(16) as ex, open(f"{WORK}/static.jsonl", "a") as f:
        for i, r in enumerate(ex.map(_static_one, todo, chunksize=4)):
            f.write(json.dumps(r) + "\n")
            f.flush()
            if i % 100 == 0:
                print(i, "/", len(todo), flush=True)


DESELECT = ["dataiter/test/test_data_frame.py::TestDataFrame::test_read_json_columns",
            "dataiter/test/test_data_frame.py::TestDataFrame::test_read_json_dtypes",
            "dataiter/test/test_data_frame.py::TestDataFrame::test_read_json_path",
            "dataiter/test/test_list_of_dicts.py::TestListOfDicts::test_drop_na",
            "dataiter/test/test_list_of_dicts.py::TestListOfDicts::test_keys",
            "dataiter/test/test_list_of_dicts.py::TestListOfDicts::test_print_memory_use",
            "dataiter/test/test_list_of_dicts.py::TestListOfDicts::test_print_na_counts"]


def _test_one(m):
    d = f"{WORK}/t{m['id']}"
    shutil.rmtree(d, ignore_errors=True)
    subprocess.run(["rsync", "-a", "--exclude", ".git", "--exclude", "__pycache__", "--exclude", "*.nbi", "--exclude", "*.nbc",
                    ROOT + "/", d + "/"], check=True)
    open(os.path.join(d, m["file"]), "w", encoding="utf-8").write(mutated_source(m))
    os.makedirs(d + "/.tmp", exist_ok=True)
    # the suite leaves its temporary files behind (about 70 MB per run): keep them inside the scratch copy
    env = dict(os.environ, NUMBA_CACHE_DIR=d + "/.nc", PYTHONDONTWRITEBYTECODE="1", TMPDIR=d + "/.tmp")
    cmd = ["/venv/bin/python", "-m", "pytest", "-x", "-q", "-p", "no:cacheprovider", "--timeout=600", "dataiter/test"]
    for t in DESELECT:
        cmd += ["--deselect", t]
    try:
        r = subprocess.run(cmd, cwd=d, env=env, capture_output=True, text=True, timeout=1500)
        tail = r.stdout.strip().splitlines()[-1] if r.stdout.strip() else ""
        res = {"id": m["id"], "rc": r.returncode, "tail": tail[:160]}
    except subprocess.TimeoutExpired:
        res = {"id": m["id"], "rc": -9, "tail": "timeout"}
    shutil.rmtree(d, ignore_errors=True)
    return res


def tests(jobs=12):
    ms = {json.loads(l)["id"]: json.loads(l) for l in open(f"{WORK}/mutants.jsonl")}
    st = [json.loads(l) for l in open(f"{WORK}/static.jsonl")]
    silent = [ms[r["id"]] for r in st if not r["caught"] and not r["errors"]]
    done = set()
    if os.path.exists(f"{WORK}/tests.jsonl"):
        done = {json.loads(l)["id"] for l in open(f"{WORK}/tests.jsonl")}
    todo = [m for m in silent if m["id"] not in done]
    print(len(silent), "silent mutants;", len(todo), "to test", flush=True)
    with ProcessPoolExecutor(jobs) as ex, open(f"{WORK}/tests.jsonl", "a") as f:
        for i, r in enumerate(ex.map(_test_one, todo)):
            f.write(json.dumps(r) + "\n")
            f.flush()
            if i % 50 == 0:
                print(i, "/", len(todo), flush=True)


def report_():
    ms = {json.loads(l)["id"]: json.loads(l) for l in open(f"{WORK}/mutants.jsonl")}
    st = {json.loads(l)["id"]: json.loads(l) for l in open(f"{WORK}/static.jsonl")}
    ts = {json.loads(l)["id"]: json.loads(l) for l in open(f"{WORK}/tests.jsonl")} if os.path.exists(f"{WORK}/tests.jsonl") else {}
    n = len(st)
    caught = sum(1 for r in st.values() if r["caught"])
    errs = sum(1 for r in st.values() if r["errors"] and not r["caught"])
    print(f"{n} mutants analysed: {caught} reported by a check, {errs} analysis-error only, {n - caught - errs} silent")
    surv = [i for i, r in ts.items() if r["rc"] == 0]
    print(f"{len(ts)} silent mutants run against the suite: {len(surv)} pass it (survivors)")
    from collections import defaultdict
    by = defaultdict(list)
    for i in surv:
        by[(ms[i]["file"], ms[i]["function"])].append(ms[i])
    for (f, fn), l in sorted(by.items()):
        print(f"\n{f}: {fn}  ({len(l)})")
        for m in l:
            print(f"   #{m['id']} L{m['line']} {m['op']}: {m['old'][:70]!r} -> {m['new'][:70]!r}")


if __name__ == "__main__":
    cmd = sys.argv[1] if len(sys.argv) > 1 else "report"
    if cmd == "gen":
        gen()
    elif cmd == "static":
        static(int(sys.argv[2]) if len(sys.argv) > 2 else None)
    elif cmd == "tests":
        tests(int(sys.argv[2]) if len(sys.argv) > 2 else 12)
    elif cmd == "report":
        report_()
    elif cmd == "clean":
        shutil.rmtree(WORK, ignore_errors=True)
