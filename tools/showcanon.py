#!/usr/bin/env python3
"""Debug aid: print a function as the checks see it (after canonicalisation) with a stored patch applied.
usage: showcanon.py <patch dir or -> <qualname>..."""
import ast, glob, os, shutil, subprocess, sys, tempfile
HERE = os.path.dirname(os.path.dirname(os.path.abspath(__file__)))
sys.path.insert(0, HERE)
from sa.model import Repo
from tools.combosweep import filtered
ROOT = "/repo"
ov = {}
if sys.argv[1] != "-":
    tmp = tempfile.mkdtemp(prefix="canon-")
    os.makedirs(tmp + "/dataiter")
    for f in glob.glob(ROOT + "/dataiter/*.py"):
        shutil.copy(f, tmp + "/dataiter")
    open(tmp + "/p.diff", "w").write(filtered(open(os.path.join(sys.argv[1], "patch.diff")).read()))
    subprocess.run(["patch", "-p1", "-s", "-F2", "-d", tmp, "-i", tmp + "/p.diff"], check=True)
    for f in glob.glob(tmp + "/dataiter/*.py"):
        rel = "dataiter/" + os.path.basename(f)
        if open(f).read() != open(os.path.join(ROOT, rel)).read():
            ov[rel] = open(f).read()
    shutil.rmtree(tmp)
repo = Repo(ROOT, overlay=ov)
for q in sys.argv[2:]:
    print(ast.unparse(repo.fn(q).node))
for l in getattr(repo, "canon_log", []):
    print("#", l)
