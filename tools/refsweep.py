#!/usr/bin/env python3
"""Run all 20 checks on the committed behaviour-preserving refactorings (refactors/*/patch.diff) and list every
false alarm or analysis error.  usage: refsweep.py [NAME-SUFFIX ...]   e.g. refsweep.py R7-1 R9-5   (default: all)"""
import os, sys
HERE = os.path.dirname(os.path.dirname(os.path.abspath(__file__)))
sys.path.insert(0, HERE)
from sa.variants import _refactor_overlays, _run_variant
from concurrent.futures import ProcessPoolExecutor


def main():
    only = sys.argv[1:]
    root = "/repo"
    ovs = [o for o in _refactor_overlays(root) if (not only or any(o[0].endswith(x) for x in only))]
    jobs = []
    for name, ov, expect in ovs:
        if ov is None:
            print("STALE", name)
    for pid in [f"C{i:02d}" for i in range(1, 21)]:
        for name, ov, expect in ovs:
            if ov is not None:
                jobs.append((pid, root, name, ov, expect, None, frozenset()))
    bad = 0
    with ProcessPoolExecutor(16) as ex:
        for r in ex.map(_run_variant, jobs):
            if r[2] in ("MISSED", "FALSE-ALARM", "analysis-error"):
                bad += 1
                print(r)
            elif r[3].startswith("analysis-error (accepted"):
                print("accepted:", r[0], r[3][:160])
    print(f"{len(ovs)} refactorings x 20 checks: {bad} unexpected")
    return 1 if bad else 0


if __name__ == "__main__":
    sys.exit(main())
