#!/usr/bin/env python3
"""Behaviour-preserving alpha-renaming of local variables, module by module, as an overlay;
all checks must stay silent (no new violation, no analysis error).
usage: rename_fuzz.py [module.py ...]   (default: every module of the package)"""
import ast, glob, importlib, os, sys
HERE = os.path.dirname(os.path.dirname(os.path.abspath(__file__)))
sys.path.insert(0, HERE)
from sa.model import Repo, AnalysisError, assigned_names
from sa import report


class Renamer(ast.NodeTransformer):
    def __init__(self):
        self.stack = []

    def visit_FunctionDef(self, node):
        # locals: assigned names in this function (not params, not nested defs, not global/nonlocal)
        params = {a.arg for a in node.args.posonlyargs + node.args.args + node.args.kwonlyargs}
        if node.args.vararg: params.add(node.args.vararg.arg)
        if node.args.kwarg: params.add(node.args.kwarg.arg)
        local, skip = set(), set()
        for n in self._own_nodes(node):
            if isinstance(n, ast.Name) and isinstance(n.ctx, (ast.Store, ast.Del)):
                local.add(n.id)
            elif isinstance(n, ast.NamedExpr):
                local.add(n.target.id)
            elif isinstance(n, (ast.FunctionDef, ast.ClassDef)):
                skip.add(n.name)
            elif isinstance(n, (ast.Global, ast.Nonlocal)):
                skip.update(n.names)
            elif isinstance(n, (ast.Import, ast.ImportFrom)):
                for a in n.names: skip.add((a.asname or a.name).split(".")[0])
        local -= params | skip | {"self", "cls"}
        mapping = {x: f"{x}_rn" for x in local}
        mapping.update({x: x for x in params | skip})      # parameters / nested defs shadow outer locals
        self.stack.append(mapping)
        node = self.generic_visit(node)
        self.stack.pop()
        return node

    def _own_nodes(self, fnode):
        stack = list(fnode.body)
        while stack:
            n = stack.pop()
            yield n
            if isinstance(n, (ast.FunctionDef, ast.ClassDef, ast.Lambda)):
                continue
            stack.extend(ast.iter_child_nodes(n))

    def visit_Name(self, node):
        for m in reversed(self.stack):
            if node.id in m:
                return ast.copy_location(ast.Name(id=m[node.id], ctx=node.ctx), node)
            # a name that is a parameter/local of an inner scope shadows outer ones: approximated by innermost-first lookup
        return node


def main():
    mods = sys.argv[1:] or sorted(os.path.basename(p) for p in glob.glob("/repo/dataiter/*.py"))
    props = [f"C{i:02d}" for i in range(1, 21)]
    base = {}
    total_bad = 0
    for pid in props:
        repo = Repo("/repo"); ctx = report.Context(pid, repo)
        report.run_check(importlib.import_module(f"sa.props.{pid}"), ctx)
        base[pid] = {o.key for o in ctx.obligations if o.verdict == report.VIOLATED}
    for m in mods:
        rel = f"dataiter/{m}"
        src = open(f"/repo/{rel}").read()
        tree = Renamer().visit(ast.parse(src))
        new = ast.unparse(ast.fix_missing_locations(tree))
        compile(new, rel, "exec")
        for pid in props:
            try:
                repo = Repo("/repo", overlay={rel: new}); ctx = report.Context(pid, repo)
                report.run_check(importlib.import_module(f"sa.props.{pid}"), ctx)
                bad = [o for o in ctx.obligations if o.verdict == report.VIOLATED and o.key.replace("_rn", "") not in base[pid] and o.key not in base[pid]]
                for o in bad[:6]:
                    print(f"{m} {pid} FALSE-ALARM {o.rule} {o.function}: {o.construct[:90]}\n      {o.why[:160]}")
                total_bad += len(bad)
            except AnalysisError as e:
                print(f"{m} {pid} ANALYSIS-ERROR {str(e)[:200]}")
                total_bad += 1
    print("unexpected:", total_bad)
    return 1 if total_bad else 0


if __name__ == "__main__":
    sys.exit(main())
