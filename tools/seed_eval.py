#!/usr/bin/env python3
"""Run the static checks against seeded changes.
usage: seed_eval.py SEED_DIR [PROP ...]      SEED_DIR contains patch.diff
A scratch copy of /repo's working tree is made under /tmp, the patch applied there, and
./vcheck <PROP> --repo <copy> --no-write run for each PROP (default: all claimed)."""
import json, os, shutil, subprocess, sys, tempfile
HERE = os.path.dirname(os.path.dirname(os.path.abspath(__file__)))


def main():
    seed = sys.argv[1]
    props = sys.argv[2:]
    if not props:
        props = [c["property_id"] for c in json.load(open(os.path.join(HERE, "MANIFEST.json")))["checks"]]
    tmp = tempfile.mkdtemp(prefix="evalrepo-")
    try:
        subprocess.run(["rsync", "-a", "--exclude", ".git", "--exclude", "__pycache__", "/repo/", tmp + "/"], check=True)
        r = subprocess.run(["git", "apply", "--unsafe-paths", "--directory", tmp, os.path.join(seed, "patch.diff")],
                           cwd=tmp, capture_output=True, text=True)
        if r.returncode != 0:
            r = subprocess.run(["patch", "-p1", "-d", tmp, "-i", os.path.join(seed, "patch.diff")], capture_output=True, text=True)
            if r.returncode != 0:
                print(f"{seed}: PATCH DOES NOT APPLY: {r.stdout[-300:]} {r.stderr[-300:]}")
                return 3
        out = {}
        for p in props:
            r = subprocess.run([os.path.join(HERE, "vcheck"), p, "--repo", tmp, "--no-write"], capture_output=True, text=True)
            lines = [l for l in r.stdout.splitlines() if "conda" not in l]
            viol = [l for l in lines if ": " in l and l.startswith("dataiter/")]
            out[p] = (r.returncode, viol, [l for l in lines if l.startswith("ANALYSIS-ERROR")])
        caught = [p for p, (rc, v, e) in out.items() if rc == 1]
        errs = [p for p, (rc, v, e) in out.items() if rc == 2]
        print(f"{seed}: caught by {caught or 'NONE'}" + (f"; analysis errors in {errs}" if errs else ""))
        for p in caught:
            for l in out[p][1][:4]:
                print(f"    [{p}] {l[:230]}")
        for p in errs:
            print(f"    [{p}] {out[p][2][0][:230]}")
        return 0 if caught else 1
    finally:
        shutil.rmtree(tmp, ignore_errors=True)


if __name__ == "__main__":
    sys.exit(main())
