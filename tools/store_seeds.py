#!/usr/bin/env python3
"""Store confirmed seeds of one round under seeded/ with meta.json.
usage: store_seeds.py ROUND SEEDROOT CONFIRM_TXT EVAL_FIRST_TXT EVAL_NOW_TXT
(CONFIRM_TXT = output of tools/seed_confirm.sh lines; EVAL_* = output of tools/seed_eval.py per seed)"""
import json, os, re, shutil, sys, glob
HERE = os.path.dirname(os.path.dirname(os.path.abspath(__file__)))
BASE = "9f6aba30"      # md5 prefix of the sorted FAILED lines of the baseline suite run


def conf(path):
    out = {}
    for l in open(path):
        m = re.match(r"(C\d\d)/(\w) apply=(\w+) demo_with=(\d) tests='([^']*)' failset=(\w+) demo_without=(\d)", l)
        if m:
            out[(m[1], m[2])] = dict(apply=m[3], demo_with=int(m[4]), tests=m[5], failset=m[6], demo_without=int(m[7]))
    return out


def parse_eval(path):
    out, cur = {}, None
    for l in open(path):
        m = re.match(r"/tmp/seeds\d*/(C\d\d)/(\w): caught by (.*)", l)
        if m:
            head = m[3].split(";")[0]
            cur = (m[1], m[2])
            out[cur] = {"caught_by": [] if "NONE" in head else re.findall(r"C\d\d", head), "lines": []}
        elif cur and l.startswith("    ["):
            out[cur]["lines"].append(l.strip())
    return out


def main():
    rnd, root, cpath, e1p, e2p = sys.argv[1:6]
    rnd = int(rnd)
    tag = "" if rnd == 1 else str(rnd)
    cf, e1, e2 = conf(cpath), parse_eval(e1p), parse_eval(e2p)
    idx_path = os.path.join(HERE, "seeded", "INDEX.json")
    idx = json.load(open(idx_path)) if os.path.exists(idx_path) else {"kept": [], "rejected": []}
    kept = []
    for (pid, x), c in sorted(cf.items()):
        src = f"{root}/{pid}/{x}"
        name = f"{pid}{x}{tag}"
        ok = c["demo_with"] == 1 and c["demo_without"] == 0 and c["failset"] == BASE
        if not ok:
            idx["rejected"] = [r for r in idx["rejected"] if r["seed"] != name] + [dict(seed=name, round=rnd, why=(
                "demo does not fail on the current tree" if c["demo_with"] == 0 else f"suite result differs from baseline ({c['tests']})"), **c)]
            continue
        dst = os.path.join(HERE, "seeded", name)
        os.makedirs(dst, exist_ok=True)
        for f in ("patch.diff", "demo.py", "notes.md"):
            if os.path.exists(f"{src}/{f}"):
                shutil.copy(f"{src}/{f}", f"{dst}/{f}")
        notes = open(f"{src}/notes.md").read() if os.path.exists(f"{src}/notes.md") else ""
        meta = {
            "seed": name, "property": pid, "round": rnd,
            "origin": "written by a fresh sub-agent that saw only the property text and its own scratch worktree of /repo (nothing from /verif)",
            "breaks_and_needs": " ".join(notes.split())[:900],
            "confirmed": {"how": f"tools/seed_confirm.sh in scratch worktree /tmp/wt/{pid} at /repo HEAD: git apply patch.diff; demo.py; full test suite with a fresh Numba cache; git checkout -- .; demo.py",
                          "patch_applies": c["apply"], "demo_exit_with_change": c["demo_with"], "demo_exit_without_change": c["demo_without"],
                          "tests_with_change": c["tests"], "failing_set_equals_baseline": True},
            "caught_by": e2.get((pid, x), {}).get("caught_by", []),
            "caught_by_when_first_seen": e1.get((pid, x), {}).get("caught_by", []),
            "first_reports": e2.get((pid, x), {}).get("lines", [])[:4],
        }
        with open(f"{dst}/meta.json", "w") as f:
            json.dump(meta, f, indent=1)
            f.write("\n")
        kept.append(meta)
        if name not in idx["kept"]:
            idx["kept"].append(name)
    idx["kept"] = sorted(idx["kept"])
    json.dump(idx, open(idx_path, "w"), indent=1)
    print("round", rnd, len(kept), "kept; first-seen caught:", sum(1 for m in kept if m["caught_by_when_first_seen"]),
          "now caught:", sum(1 for m in kept if m["caught_by"]), "missed now:", [m["seed"] for m in kept if not m["caught_by"]])


if __name__ == "__main__":
    main()
