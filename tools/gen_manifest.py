#!/usr/bin/env python3
"""Regenerate MANIFEST.json from the per-property table below (kept next to the
checks so the claims and the code change together)."""
import json
import os
import sys

HERE = os.path.dirname(os.path.dirname(os.path.abspath(__file__)))
sys.path.insert(0, HERE)
from sa.claims import CLAIMS, NOT_APPLICABLE  # noqa

BASELINE = ("cd /repo && /venv/bin/python -m pytest -ra -q -p no:cacheprovider --timeout=900 "
            "--continue-on-collection-errors")


def main():
    props = [json.loads(l) for l in open(os.path.join(HERE, "properties.jsonl"))]
    ids = [p["id"] for p in props]
    checks = []
    for pid in ids:
        c = CLAIMS.get(pid)
        if not c:
            continue
        if not os.path.exists(os.path.join(HERE, "sa", "props", f"{pid}.py")):
            raise SystemExit(f"claimed {pid} has no check module")
        checks.append({
            "property_id": pid,
            "quick_cmd": f"./vcheck {pid} --tier quick",
            "thorough_cmd": f"./vcheck {pid} --tier thorough",
            "evidence_file": f"/verif/evidence/{pid}.json",
            "replay_cmd_template": f"./vcheck {pid} --replay {{path}}",
            "engine": "sa",
            "level_claimed": {"category": "other", "text": c["text"], "design_ref": c.get("design_ref", f"DESIGN.md section 5 / {pid}")},
            "level_note": c["note"],
            "technique": c["technique"],
        })
    na = [{"property_id": pid, "reason": NOT_APPLICABLE[pid]} for pid in ids if pid not in CLAIMS]
    for e in na:
        assert e["reason"]
    manifest = {
        "version": 1,
        "setup_cmd": "true",
        "hooks": {
            "guard": "DATAITER_VERIF",
            "enable": "none needed: the checks read /repo's source with ast and never import or run it; the guard name is declared and unused",
            "baseline_off_cmd": BASELINE,
            "source_commits": [],
            "add_only": True,
        },
        "engines": [{
            "name": "sa", "path": "/verif/sa",
            "serves_properties": [c["property_id"] for c in checks],
            "kind_free_text": "repository-specific static analysis on CPython ast: resolved repository model, per-function CFG with "
                              "dominators / must-facts, ownership-alias-effect abstract interpreter with computed callee summaries, "
                              "sibling agreement, forwarding/liveness, guard-dominates-partial-operation, taint/routing rules",
        }],
        "checks": checks,
        "notes": "Every check decides structural necessary conditions (clauses) of its property from source on every run; "
                 "no repository code is imported or executed. Exit 0 all obligations discharged (KNOWN-FINDING lines allowed), "
                 "1 VIOLATION, 2 ANALYSIS-ERROR (fail closed). See DESIGN.md.",
        "not_applicable": na,
    }
    with open(os.path.join(HERE, "MANIFEST.json"), "w") as f:
        json.dump(manifest, f, indent=1)
        f.write("\n")
    print(f"{len(checks)} checks, {len(na)} not applicable")


if __name__ == "__main__":
    main()
