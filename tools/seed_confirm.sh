#!/bin/bash
# usage: seed_confirm.sh C07 a   -> confirms a seeded change in the scratch worktree /tmp/wt/C07 (at /repo's HEAD)
# prints: <id>/<x> apply=ok demo_with=1 tests=7failed,515passed demo_without=0
id=$1; x=$2; wt=/tmp/wt/$id; seed=${SEEDROOT:-/tmp/seeds}/$id/$x
export NUMBA_CACHE_DIR=/tmp/numba_cache_${id}_${x}
mkdir -p $NUMBA_CACHE_DIR
# the suite leaves ~70 MB of temporary files per run: keep them in a directory that is removed afterwards
export TMPDIR=/tmp/seedtmp_${id}_${x}; mkdir -p $TMPDIR
cd $wt || exit 2
git checkout -q -- . ; git clean -qfd -e data >/dev/null 2>&1
git checkout -q --detach $(git -C /repo rev-parse HEAD) 2>/dev/null
if git apply --check $seed/patch.diff 2>/dev/null; then git apply $seed/patch.diff; ap=ok
elif patch -p1 --dry-run -s -i $seed/patch.diff >/dev/null 2>&1; then patch -p1 -s -i $seed/patch.diff; ap=fuzzy
else echo "$id/$x apply=FAILED"; exit 0; fi
/venv/bin/python $seed/demo.py > $seed/confirm_demo_with.txt 2>&1; dw=$?
# the suite gets a FRESH Numba cache of its own: kernels cached by the demo (or by an earlier run) change
# which tests pass -- the compilation-history effect property C08 is about
rm -rf $NUMBA_CACHE_DIR; mkdir -p $NUMBA_CACHE_DIR
timeout 1500 /venv/bin/python -m pytest -q -p no:cacheprovider --timeout=900 dataiter/test > /tmp/confirm_${id}_${x}.log 2>&1
t=$(tail -1 /tmp/confirm_${id}_${x}.log)
fails=$(grep -E "^FAILED" /tmp/confirm_${id}_${x}.log | sort | md5sum | cut -c1-8)
rm -f /tmp/confirm_${id}_${x}.log; rm -rf $NUMBA_CACHE_DIR; mkdir -p $NUMBA_CACHE_DIR
git checkout -q -- . ; find . -name "*.orig" -delete; find . -name "*.rej" -delete
/venv/bin/python $seed/demo.py > $seed/confirm_demo_without.txt 2>&1; dwo=$?
rm -rf $NUMBA_CACHE_DIR $TMPDIR
echo "$id/$x apply=$ap demo_with=$dw tests='$t' failset=$fails demo_without=$dwo"
