#!/usr/bin/env python3
"""Append an entry to known_findings.json (done by hand at triage time, never by a check).
usage: kf_add.py STATUS PROP RULE FUNCTION CONSTRUCT COMMIT WHAT"""
import json, os, sys
p = os.path.join(os.path.dirname(os.path.dirname(os.path.abspath(__file__))), "known_findings.json")
d = json.load(open(p))
status, prop, rule, fn, construct, commit, what = sys.argv[1:8]
e = {"status": status, "property": prop, "rule": rule, "function": fn, "construct": construct,
     "commit": commit or None, "what": what}
if status == "fixed":
    e["line"] = f"fixed: property={prop} {commit} {what}"
d["entries"].append(e)
with open(p, "w") as f:
    f.write('{\n "comment": ' + json.dumps(d["comment"]) + ',\n "entries": [\n')
    f.write(",\n".join("  " + json.dumps(x) for x in d["entries"]))
    f.write("\n ]\n}\n")
