#!/usr/bin/env python3
"""Apply an in-memory textual edit to one repo file and run a property check on the overlay.
usage: tools/mut.py PROP relpath OLD NEW   (OLD must occur exactly once)"""
import os, sys
HERE = os.path.dirname(os.path.dirname(os.path.abspath(__file__)))
sys.path.insert(0, HERE)
from sa.model import Repo, AnalysisError
from sa import report
import importlib, ast


def run(pid, rel, old, new, root="/repo", verbose=True):
    src = open(os.path.join(root, rel)).read()
    if src.count(old) != 1:
        raise SystemExit(f"OLD occurs {src.count(old)} times in {rel}")
    mutated = src.replace(old, new)
    ast.parse(mutated)
    repo = Repo(root, overlay={rel: mutated})
    ctx = report.Context(pid, repo)
    mod = importlib.import_module(f"sa.props.{pid}")
    try:
        report.run_check(mod, ctx)
    except AnalysisError as e:
        print("ANALYSIS-ERROR", e)
        return None
    bad = [o for o in ctx.obligations if o.verdict == report.VIOLATED]
    known = report.load_known()
    bad = [o for o in bad if not report.match_known(o, known)]
    if verbose:
        for o in bad:
            print(f"VIOLATED {o.rule} {o.function}: {o.construct}\n    {o.why}")
        print(f"{len(bad)} violation(s)")
    return bad


if __name__ == "__main__":
    run(*sys.argv[1:5])
