"""Exact decision of small integer predicates by enumeration of orderings.

A bounds test such as ``abs(index) >= len(x)`` touches its operands only through comparisons, negation, abs() and
addition of constants, so its truth depends only on where ``index`` lies relative to the break points -n-1, -n, -1, 0,
n-1, n (n = the length).  Evaluating the test's own syntax tree on a grid that contains every such ordering (n = 0..4,
index = -n-2 .. n+2) therefore decides it for all integers.  The evaluator interprets the ast itself (no eval, no repo
code is run); an unsupported node makes the predicate undecidable here (None).
"""
import ast
from .facts import norm


class Unsupported(Exception):
    pass


def _ev(e, env):
    t = norm(e)
    if t in env:
        return env[t]
    if isinstance(e, ast.Constant) and isinstance(e.value, (int, bool)):
        return e.value
    if isinstance(e, ast.UnaryOp):
        v = _ev(e.operand, env)
        if isinstance(e.op, ast.Not):
            return not v
        if isinstance(e.op, ast.USub):
            return -v
        if isinstance(e.op, ast.UAdd):
            return +v
        raise Unsupported(t)
    if isinstance(e, ast.BinOp) and isinstance(e.op, (ast.Add, ast.Sub)):
        a, b = _ev(e.left, env), _ev(e.right, env)
        return a + b if isinstance(e.op, ast.Add) else a - b
    if isinstance(e, ast.BoolOp):
        if isinstance(e.op, ast.And):
            return all(_ev(v, env) for v in e.values)
        return any(_ev(v, env) for v in e.values)
    if isinstance(e, ast.Call) and isinstance(e.func, ast.Name) and e.func.id == "abs" and len(e.args) == 1:
        return abs(_ev(e.args[0], env))
    if isinstance(e, ast.Compare):
        left = _ev(e.left, env)
        for op, c in zip(e.ops, e.comparators):
            right = _ev(c, env)
            if isinstance(op, ast.Lt):
                ok = left < right
            elif isinstance(op, ast.LtE):
                ok = left <= right
            elif isinstance(op, ast.Gt):
                ok = left > right
            elif isinstance(op, ast.GtE):
                ok = left >= right
            elif isinstance(op, ast.Eq):
                ok = left == right
            elif isinstance(op, ast.NotEq):
                ok = left != right
            else:
                raise Unsupported(t)
            if not ok:
                return False
            left = right
        return True
    raise Unsupported(t)


def implies_out_of_range(test, index_text, length_texts):
    """(True, None) when ``test`` holds only for indices Python indexing rejects (not -n <= index < n);
    (False, (index, n)) with a witness when it also holds for a valid index; (None, reason) when undecidable."""
    for n in range(0, 5):
        for i in range(-n - 2, n + 3):
            env = {index_text: i}
            for lt in length_texts:
                env[lt] = n
            try:
                v = bool(_ev(test, env))
            except Unsupported as u:
                return None, f"unsupported expression {u}"
            if v and (-n <= i < n):
                return False, (i, n)
    return True, None


def equals_valid_index(test, index_text, length_texts):
    """Is ``test`` exactly Python's index validity -n <= index < n?  (True, None) / (False, witness) / (None, reason)."""
    for n in range(0, 5):
        for i in range(-n - 2, n + 3):
            env = {index_text: i}
            for lt in length_texts:
                env[lt] = n
            try:
                v = bool(_ev(test, env))
            except Unsupported as u:
                return None, f"unsupported expression {u}"
            if v != (-n <= i < n):
                return False, (i, n)
    return True, None


# ------------------------------------------------------------------ position selection
class _NoValue:
    pass


def _sel(e, env):
    """Interpret a position-selecting expression on a concrete list (env maps names/texts to ints, lists or None)."""
    t = norm(e)
    if t in env:
        return env[t]
    if isinstance(e, ast.Constant):
        return e.value
    if isinstance(e, ast.IfExp):
        return _sel(e.body, env) if _sel(e.test, env) else _sel(e.orelse, env)
    if isinstance(e, ast.UnaryOp):
        v = _sel(e.operand, env)
        if isinstance(e.op, ast.Not):
            return not v
        if isinstance(e.op, ast.USub):
            return -v
        raise Unsupported(t)
    if isinstance(e, ast.BoolOp):
        vals = e.values
        if isinstance(e.op, ast.And):
            r = True
            for v in vals:
                r = _sel(v, env)
                if not r:
                    return r
            return r
        r = False
        for v in vals:
            r = _sel(v, env)
            if r:
                return r
        return r
    if isinstance(e, ast.BinOp) and isinstance(e.op, (ast.Add, ast.Sub)):
        a, b = _sel(e.left, env), _sel(e.right, env)
        return a + b if isinstance(e.op, ast.Add) else a - b
    if isinstance(e, ast.Compare):
        left = _sel(e.left, env)
        for op, c in zip(e.ops, e.comparators):
            right = _sel(c, env)
            ok = {ast.Lt: lambda a, b: a < b, ast.LtE: lambda a, b: a <= b, ast.Gt: lambda a, b: a > b, ast.GtE: lambda a, b: a >= b,
                  ast.Eq: lambda a, b: a == b, ast.NotEq: lambda a, b: a != b, ast.Is: lambda a, b: a is b,
                  ast.IsNot: lambda a, b: a is not b}.get(type(op))
            if ok is None:
                raise Unsupported(t)
            if not ok(left, right):
                return False
            left = right
        return True
    if isinstance(e, ast.Call) and isinstance(e.func, ast.Name):
        if e.func.id == "len" and len(e.args) == 1:
            return len(_sel(e.args[0], env))
        if e.func.id == "abs" and len(e.args) == 1:
            return abs(_sel(e.args[0], env))
        if e.func.id == "next" and len(e.args) == 2 and isinstance(e.args[0], ast.Call) and isinstance(e.args[0].func, ast.Name) \
                and e.args[0].func.id == "iter" and len(e.args[0].args) == 1:
            seq = _sel(e.args[0].args[0], env)
            return seq[0] if len(seq) else _sel(e.args[1], env)
        if e.func.id in ("list", "tuple") and len(e.args) == 1:
            return list(_sel(e.args[0], env))
    if isinstance(e, ast.Subscript):
        base = _sel(e.value, env)
        if isinstance(e.slice, ast.Slice):
            lo = _sel(e.slice.lower, env) if e.slice.lower is not None else None
            hi = _sel(e.slice.upper, env) if e.slice.upper is not None else None
            st = _sel(e.slice.step, env) if e.slice.step is not None else None
            return base[lo:hi:st]
        i = _sel(e.slice, env)
        return base[i]                      # IndexError propagates: the expression itself would raise
    raise Unsupported(t)


def selects_like_indexing(expr, index_text, seq_text, extra=None):
    """Does ``expr`` give seq[index] for every valid index and None (the default) otherwise, for all lengths / indices?
    (True, None) / (False, (index, n, got, want)) / (None, reason)."""
    for n in range(0, 5):
        for i in range(-n - 2, n + 3):
            seq = list(range(100, 100 + n))
            env = {index_text: i, seq_text: seq}
            env.update(extra or {})
            want = seq[i] if -n <= i < n else None
            try:
                got = _sel(expr, env)
            except Unsupported as u:
                return None, f"unsupported expression {u}"
            except IndexError:
                got = "IndexError"
            except Exception as ex:            # a type error in the fragment for this input
                return None, f"{type(ex).__name__} while interpreting the expression"
            if got != want:
                return False, (i, n, got, want)
    return True, None


def holds_somewhere(test, env_grid):
    """First environment of ``env_grid`` (list of dicts text -> number) in which ``test`` is true; None when false
    everywhere; ('?', reason) when the test cannot be interpreted."""
    for env in env_grid:
        try:
            if bool(_ev(test, env)):
                return env
        except Unsupported as u:
            return ("?", f"unsupported expression {u}")
        except Exception as ex:
            return ("?", type(ex).__name__)
    return None
