"""Exact decision of small integer predicates by enumeration of orderings.

A bounds test such as ``abs(index) >= len(x)`` touches its operands only through comparisons, negation, abs() and
addition of constants, so its truth depends only on where ``index`` lies relative to the break points -n-1, -n, -1, 0,
n-1, n (n = the length).  Evaluating the test's own syntax tree on a grid that contains every such ordering (n = 0..4,
index = -n-2 .. n+2) therefore decides it for all integers.  The evaluator interprets the ast itself (no eval, no repo
code is run); an unsupported node makes the predicate undecidable here (None).
"""
import ast
from .facts import norm


class Unsupported(Exception):
    pass


def _ev(e, env):
    t = norm(e)
    if t in env:
        return env[t]
    if isinstance(e, ast.Constant) and isinstance(e.value, (int, bool)):
        return e.value
    if isinstance(e, ast.UnaryOp):
        v = _ev(e.operand, env)
        if isinstance(e.op, ast.Not):
            return not v
        if isinstance(e.op, ast.USub):
            return -v
        if isinstance(e.op, ast.UAdd):
            return +v
        raise Unsupported(t)
    if isinstance(e, ast.BinOp) and isinstance(e.op, (ast.Add, ast.Sub)):
        a, b = _ev(e.left, env), _ev(e.right, env)
        return a + b if isinstance(e.op, ast.Add) else a - b
    if isinstance(e, ast.BoolOp):
        if isinstance(e.op, ast.And):
            return all(_ev(v, env) for v in e.values)
        return any(_ev(v, env) for v in e.values)
    if isinstance(e, ast.Call) and isinstance(e.func, ast.Name) and e.func.id == "abs" and len(e.args) == 1:
        return abs(_ev(e.args[0], env))
    if isinstance(e, ast.Compare):
        left = _ev(e.left, env)
        for op, c in zip(e.ops, e.comparators):
            right = _ev(c, env)
            if isinstance(op, ast.Lt):
                ok = left < right
            elif isinstance(op, ast.LtE):
                ok = left <= right
            elif isinstance(op, ast.Gt):
                ok = left > right
            elif isinstance(op, ast.GtE):
                ok = left >= right
            elif isinstance(op, ast.Eq):
                ok = left == right
            elif isinstance(op, ast.NotEq):
                ok = left != right
            else:
                raise Unsupported(t)
            if not ok:
                return False
            left = right
        return True
    raise Unsupported(t)


def implies_out_of_range(test, index_text, length_texts):
    """(True, None) when ``test`` holds only for indices Python indexing rejects (not -n <= index < n);
    (False, (index, n)) with a witness when it also holds for a valid index; (None, reason) when undecidable."""
    for n in range(0, 5):
        for i in range(-n - 2, n + 3):
            env = {index_text: i}
            for lt in length_texts:
                env[lt] = n
            try:
                v = bool(_ev(test, env))
            except Unsupported as u:
                return None, f"unsupported expression {u}"
            if v and (-n <= i < n):
                return False, (i, n)
    return True, None


def equals_valid_index(test, index_text, length_texts):
    """Is ``test`` exactly Python's index validity -n <= index < n?  (True, None) / (False, witness) / (None, reason)."""
    for n in range(0, 5):
        for i in range(-n - 2, n + 3):
            env = {index_text: i}
            for lt in length_texts:
                env[lt] = n
            try:
                v = bool(_ev(test, env))
            except Unsupported as u:
                return None, f"unsupported expression {u}"
            if v != (-n <= i < n):
                return False, (i, n)
    return True, None
