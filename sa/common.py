"""Helpers shared by the property modules."""
import ast
from .model import FunctionInfo, body_nodes, src, outermost, AnalysisError
from .absint import Interp, all_alias

_interp_cache = {}


def interp(repo):
    k = id(repo)
    if k not in _interp_cache:
        _interp_cache.clear()
        _interp_cache[k] = Interp(repo)
    return _interp_cache[k]


DF = "dataiter.data_frame.DataFrame"
DFC = "dataiter.data_frame.DataFrameColumn"
VEC = "dataiter.vector.Vector"
LOD = "dataiter.list_of_dicts.ListOfDicts"
GEO = "dataiter.geojson.GeoJSON"


def norm(node):
    return " ".join(src(node).split())


def ours(alias):
    """Origins belonging to the caller: the receiver or one of its arguments."""
    return frozenset(o for o in alias if o == "SELF" or o.startswith("ARG:"))


def calls_in(fn, include_nested=True):
    """All Call nodes in ``fn`` (nested defs included by default)."""
    for n in body_nodes(fn.node):
        if isinstance(n, ast.Call):
            yield fn, n
    if include_nested:
        for sub in fn.nested.values():
            yield from calls_in(sub, True)


def calls_to(repo, fn, dotted_names, include_nested=True):
    """Call nodes in fn whose callee resolves to one of dotted_names (external
    dotted name or package function qualname)."""
    if isinstance(dotted_names, str):
        dotted_names = {dotted_names}
    out = []
    for f, c in calls_in(fn, include_nested):
        r = repo.resolve_call(f, c)
        if r[0] == "ext" and r[1] in dotted_names:
            out.append((f, c))
        elif r[0] == "pkg" and any(t.qualname in dotted_names for t in r[1]):
            out.append((f, c))
        elif r[0] == "class" and r[1].qualname in dotted_names:
            out.append((f, c))
    return out


def method_calls(fn, name, include_nested=True):
    """Call nodes of the form <expr>.name(...)."""
    return [(f, c) for f, c in calls_in(fn, include_nested)
            if isinstance(c.func, ast.Attribute) and c.func.attr == name]


def is_self_call(fn, call, name=None):
    f = call.func
    top = outermost(fn)
    if not (isinstance(f, ast.Attribute) and isinstance(f.value, ast.Name) and top.params
            and f.value.id == top.params[0]):
        return False
    return name is None or f.attr == name


def public_methods(repo, cls_q):
    cls = repo.cls(cls_q)
    return [m for m in cls.methods.values() if not m.name.startswith("_")]


def kw(call, name):
    for k in call.keywords:
        if k.arg == name:
            return k.value
    return None


def const(node):
    if isinstance(node, ast.Constant):
        return node.value
    if isinstance(node, ast.UnaryOp) and isinstance(node.op, ast.USub) and isinstance(node.operand, ast.Constant):
        return -node.operand.value
    return None


def reachable_functions(repo, roots, max_depth=8):
    """Package functions reachable from ``roots`` through resolved calls
    (self.m, Class.m, module functions, nested defs)."""
    seen = {}
    stack = [(r, 0) for r in roots]
    while stack:
        fn, d = stack.pop()
        if fn.qualname in seen or d > max_depth:
            continue
        seen[fn.qualname] = fn
        for f, c in calls_in(fn, True):
            r = repo.resolve_call(f, c)
            if r[0] == "pkg":
                for t in r[1]:
                    stack.append((t, d + 1))
            elif r[0] == "class":
                for nm in ("__new__", "__init__"):
                    hit = repo.lookup_method(r[1], nm)
                    if isinstance(hit, FunctionInfo):
                        stack.append((hit, d + 1))
            elif r[0] == "method":
                # method on a local value: any package class defining it
                for cls in repo.classes.values():
                    if r[1] in cls.methods:
                        stack.append((cls.methods[r[1]], d + 1))
    return seen


def precedes(fn, a, b):
    """Statement/expression ``a`` is executed before ``b`` on every path reaching ``b`` (CFG dominance) --
    program order that does not depend on line numbers (inlined statements keep the lines of their origin)."""
    from .cfg import cfg_of
    from .facts import cfg_node_of
    na, nb = cfg_node_of(fn, a), cfg_node_of(fn, b)
    if na is None or nb is None:
        return a.lineno < b.lineno
    if na is nb:
        return (a.lineno, a.col_offset) < (b.lineno, b.col_offset)
    return cfg_of(fn).dominates(na, nb)
