"""E6 -- partial operations and the guards that discharge them.

``nonempty(fn, expr, at)`` decides from branch facts and definitions whether the
sequence denoted by ``expr`` has at least one element whenever ``at`` executes.
``lower_bound`` is a tiny interval analysis for integers.  ``partial_sites``
enumerates the identity-less reductions of a function.
"""
import ast
from .facts import facts_at, norm, length_preserving, LENGTH_PRESERVING_METHODS
from .dataflow import defs_reaching, comprehension_binding
from .model import body_nodes, outermost, FunctionInfo
from .common import calls_in

NEG_INF = float("-inf")

NA_MASK_METHODS = {"is_na"}
NA_MASK_FUNCS = {"numpy.isnat", "numpy.isnan"}


def _int(node):
    if isinstance(node, ast.Constant) and isinstance(node.value, (int, float)) and not isinstance(node.value, bool):
        return node.value
    if isinstance(node, ast.UnaryOp) and isinstance(node.op, ast.USub):
        v = _int(node.operand)
        return -v if v is not None else None
    return None


def _parse(text):
    try:
        return ast.parse(text, mode="eval").body
    except SyntaxError:
        return None


def _length_texts(x):
    return {f"len({x})", f"{x}.length", f"{x}.nrow", f"{x}.size"}


def fact_nonempty(fact, x):
    """Does the fact imply that the sequence with source text ``x`` is non-empty?"""
    truth, text = fact
    if truth not in ("T", "F"):
        return False
    e = _parse(text) if not text.startswith("iter:") else None
    if text.startswith("iter:"):
        return truth == "T" and text[5:] == x
    if e is None:
        return False
    L = _length_texts(x)
    if isinstance(e, ast.Compare) and len(e.ops) == 1:
        l, op, r = norm(e.left), e.ops[0], norm(e.comparators[0])
        lv, rv = _int(e.left), _int(e.comparators[0])
        if l in L and rv is not None:
            if truth == "T":
                return (isinstance(op, ast.Gt) and rv >= 0) or (isinstance(op, ast.GtE) and rv >= 1) or \
                       (isinstance(op, ast.NotEq) and rv == 0) or (isinstance(op, ast.Eq) and rv >= 1)
            return (isinstance(op, ast.Eq) and rv == 0) or (isinstance(op, ast.Lt) and rv >= 1) or \
                   (isinstance(op, ast.LtE) and rv >= 0)
        if r in L and lv is not None:
            if truth == "T":
                return (isinstance(op, ast.Lt) and lv >= 0) or (isinstance(op, ast.LtE) and lv >= 1) or \
                       (isinstance(op, ast.NotEq) and lv == 0)
            return (isinstance(op, ast.Eq) and lv == 0) or (isinstance(op, ast.Gt) and lv >= 1) or \
                   (isinstance(op, ast.GtE) and lv >= 0)
        return False
    # truthiness of the container itself or of its length
    if text == x or text in L:
        return truth == "T"
    return False


def mask_source(fn, mask_name, at, repo):
    """If local ``mask_name`` is the NA mask of some vector X (X.is_na(),
    np.isnat(X), np.isnan(X), X == <na_object>), return source text of X."""
    out = set()
    for d in defs_reaching(fn, mask_name, at):
        if d.kind != "assign" or d.value is None:
            return None
        v = d.value
        if isinstance(v, ast.Call) and isinstance(v.func, ast.Attribute) and v.func.attr in NA_MASK_METHODS and not v.args:
            out.add(norm(v.func.value))
        elif isinstance(v, ast.Call) and repo.dotted(fn, v.func) in NA_MASK_FUNCS and v.args:
            out.add(norm(v.args[0]))
        elif isinstance(v, ast.Compare) and len(v.ops) == 1 and isinstance(v.ops[0], ast.Eq) \
                and "na_object" in norm(v.comparators[0]):
            out.add(norm(v.left))
        else:
            return None
    return out.pop() if len(out) == 1 else None


def nonempty(repo, fn, expr, at, depth=10, why=None):
    """(True, reason) when expr is provably non-empty at ``at``; else (False, reason)."""
    why = why if why is not None else []
    if depth == 0:
        return False, "definition chain too deep"
    facts = facts_at(fn, at)
    x = norm(expr)
    for f in facts:
        if fact_nonempty(f, x):
            return True, f"fact {f[0]}:{f[1]}"
    # ----- literal / structural
    if isinstance(expr, (ast.List, ast.Tuple, ast.Set)):
        if any(not isinstance(e, ast.Starred) for e in expr.elts):
            return True, "literal with at least one element"
        for e in expr.elts:
            ok, r = nonempty(repo, fn, e.value, at, depth - 1)
            if ok:
                return True, r
        return False, f"{x} may be empty"
    if isinstance(expr, ast.BinOp) and isinstance(expr.op, ast.Add):
        for side in (expr.left, expr.right):
            ok, r = nonempty(repo, fn, side, at, depth - 1)
            if ok:
                return True, f"concatenation with non-empty part ({r})"
        return False, f"{x} may be empty"
    if isinstance(expr, (ast.GeneratorExp, ast.ListComp, ast.SetComp)):
        if any(g.ifs for g in expr.generators):
            return False, f"filtered comprehension {x} may be empty"
        for g in expr.generators:
            ok, r = nonempty(repo, fn, g.iter, at, depth - 1)
            if not ok:
                return False, r
        return True, "comprehension over non-empty iterable(s)"
    if isinstance(expr, ast.Call):
        f = expr.func
        if isinstance(f, ast.Attribute) and isinstance(f.value, ast.Attribute) and f.value.attr in ("str",):
            # X.str.<elementwise>() has the length of X
            return nonempty(repo, fn, f.value.value, at, depth - 1)
        if isinstance(f, ast.Attribute) and (f.attr in LENGTH_PRESERVING_METHODS or f.attr in (
                "str_len", "values", "keys", "items", "cumsum", "argsort")):
            return nonempty(repo, fn, f.value, at, depth - 1)
        # package function whose result has the length of one of its parameters
        r = repo.resolve_call(fn, expr)
        if r[0] == "pkg" and len(r[1]) == 1:
            p = returns_length_of(repo, r[1][0])
            if p is not None:
                actual = actual_for(r[1][0], expr, p)
                if actual is not None:
                    return nonempty(repo, fn, actual, at, depth - 1)
        if isinstance(f, ast.Name) and f.id in ("list", "tuple", "sorted", "reversed", "enumerate") and expr.args:
            return nonempty(repo, fn, expr.args[0], at, depth - 1)
        d = repo.dotted(fn, f)
        if d in ("numpy.zeros_like", "numpy.full_like", "numpy.ones_like", "numpy.asarray", "numpy.array",
                 "numpy.isnan", "numpy.isnat", "numpy.abs", "numpy.sort") and expr.args:
            return nonempty(repo, fn, expr.args[0], at, depth - 1)
        if isinstance(f, ast.Attribute) and f.attr == "fast" and expr.args:
            return nonempty(repo, fn, expr.args[0], at, depth - 1)
        if d == "numpy.full" and expr.args:
            a = expr.args[0]
            lb = lower_bound(repo, fn, a, at)
            if lb is not None and lb >= 1:
                return True, f"shape >= {lb}"
            return False, f"length of {x} unknown"
        if d in ("numpy.repeat",) and len(expr.args) >= 2:
            lb = lower_bound(repo, fn, expr.args[1], at)
            if lb is not None and lb >= 1:
                return True, f"repeat count >= {lb}"
            a = expr.args[1]
            if isinstance(a, ast.Attribute) and a.attr in ("length", "nrow", "size"):
                return nonempty(repo, fn, a.value, at, depth - 1)
            if isinstance(a, ast.Call) and isinstance(a.func, ast.Name) and a.func.id == "len" and a.args:
                return nonempty(repo, fn, a.args[0], at, depth - 1)
        return False, f"length of {x} unknown"
    if isinstance(expr, ast.Subscript):
        base, idx = expr.value, expr.slice
        b = norm(base)
        # X[~na] with na = NA mask of X (or of something X has the length of) and fact not na.all()
        m = idx.operand if isinstance(idx, ast.UnaryOp) and isinstance(idx.op, ast.Invert) else None
        if m is not None and isinstance(m, ast.Name):
            if ("F", f"{m.id}.all()") in facts or ("T", f"(~{m.id}).any()") in facts or ("T", f"not {m.id}.all()") in facts:
                return True, f"fact F:{m.id}.all() (some element is not masked)"
        if isinstance(idx, ast.Name):
            if ("T", f"{idx.id}.any()") in facts:
                return True, f"fact T:{idx.id}.any()"
        if isinstance(idx, ast.Slice) and idx.lower is None and idx.upper is None and idx.step is not None:
            return nonempty(repo, fn, base, at, depth - 1)
        return False, f"selection {x} may be empty"
    if isinstance(expr, ast.Name):
        cb = comprehension_binding(fn, expr.id, expr)
        if cb:
            return False, f"{x} is a comprehension/lambda variable"
        defs = defs_reaching(fn, expr.id, at)
        if defs and all(d.kind in ("assign", "walrus") and d.value is not None and isinstance(d.target, (ast.Name, type(None)))
                        for d in defs):
            reasons = []
            for d in defs:
                site = d.node.ast if d.node is not None else at
                # evaluate at the definition site (facts there), unless self-referential
                ok, r = nonempty(repo, fn, d.value, site, depth - 1)
                if not ok:
                    # a length-preserving rebinding X = f(X): look through it at the use site
                    return False, r
                reasons.append(r)
            return True, "; ".join(reasons)
        if any(d.kind == "param" for d in defs):
            return False, f"PARAM:{expr.id}"
        if any(d.kind == "free" for d in defs) and fn.parent is not None:
            return False, f"closure variable {x}"
        return False, f"{x} may be empty"
    if isinstance(expr, ast.Attribute):
        return False, f"{x} may be empty"
    if isinstance(expr, ast.IfExp):
        a = nonempty(repo, fn, expr.body, at, depth - 1)
        b = nonempty(repo, fn, expr.orelse, at, depth - 1)
        return (a[0] and b[0]), (a[1] if not a[0] else b[1])
    return False, f"{x} may be empty"


def lower_bound(repo, fn, expr, at, depth=5):
    """Greatest provable integer lower bound of expr at ``at`` (None = unknown)."""
    if depth == 0:
        return None
    v = _int(expr)
    if v is not None:
        return v
    x = norm(expr)
    best = None
    for truth, text in facts_at(fn, at):
        e = _parse(text) if not text.startswith("iter:") else None
        if not isinstance(e, ast.Compare) or len(e.ops) != 1:
            if e is not None and norm(e) == x and truth == "T":
                base = _source_bound(repo, fn, expr, at, depth - 1)
                if base is not None and base >= 0:
                    best = max(best, 1) if best is not None else 1
            continue
        l, op, r = norm(e.left), e.ops[0], norm(e.comparators[0])
        lv, rv = _int(e.left), _int(e.comparators[0])
        b = None
        if l == x and rv is not None:
            if truth == "T":
                b = rv + 1 if isinstance(op, ast.Gt) else rv if isinstance(op, (ast.GtE, ast.Eq)) else None
            else:
                b = rv if isinstance(op, ast.Lt) else rv + 1 if isinstance(op, ast.LtE) else None
                if isinstance(op, ast.Eq):
                    base = _source_bound(repo, fn, expr, at, depth - 1)
                    if base is not None and base >= rv:
                        b = rv + 1
        elif r == x and lv is not None:
            if truth == "T":
                b = lv + 1 if isinstance(op, ast.Lt) else lv if isinstance(op, (ast.LtE, ast.Eq)) else None
            else:
                b = lv if isinstance(op, ast.Gt) else lv + 1 if isinstance(op, ast.GtE) else None
        if b is not None:
            best = b if best is None else max(best, b)
    src_b = _source_bound(repo, fn, expr, at, depth - 1)
    if src_b is not None:
        best = src_b if best is None else max(best, src_b)
    return best


def _source_bound(repo, fn, expr, at, depth):
    if depth <= 0:
        return None
    v = _int(expr)
    if v is not None:
        return v
    if isinstance(expr, ast.Call):
        f = expr.func
        if isinstance(f, ast.Name) and f.id == "len":
            ok, _ = nonempty(repo, fn, expr.args[0], at, depth) if expr.args else (False, "")
            return 1 if ok else 0
        if isinstance(f, ast.Name) and f.id in ("min", "max") and len(expr.args) >= 2 and repo.dotted(fn, f) == f"builtins.{f.id}":
            bs = [lower_bound(repo, fn, a, at, depth) for a in expr.args]
            if f.id == "min":
                return None if any(b is None for b in bs) else min(bs)
            known = [b for b in bs if b is not None]
            return max(known) if known else None
        if isinstance(f, ast.Attribute) and f.attr in ("max", "min", "sum") and not expr.args:
            inner = f.value
            if isinstance(inner, ast.Call) and isinstance(inner.func, ast.Attribute) and inner.func.attr in ("str_len",):
                return 0
            return None
        if isinstance(f, ast.Attribute) and f.attr in ("sum",):
            return None
    if isinstance(expr, ast.Attribute) and expr.attr in ("length", "nrow", "ncol", "size"):
        ok, _ = nonempty(repo, fn, expr.value, at, depth)
        return 1 if ok else 0
    if isinstance(expr, ast.NamedExpr):
        return _source_bound(repo, fn, expr.value, at, depth)
    if isinstance(expr, ast.BinOp) and isinstance(expr.op, ast.Add):
        a = lower_bound(repo, fn, expr.left, at, depth)
        b = lower_bound(repo, fn, expr.right, at, depth)
        return a + b if a is not None and b is not None else None
    if isinstance(expr, ast.Name):
        if comprehension_binding(fn, expr.id, expr):
            return None
        defs = defs_reaching(fn, expr.id, at)
        bs = []
        for d in defs:
            if d.kind in ("assign", "walrus") and d.value is not None and isinstance(d.target, (ast.Name, type(None))):
                site = d.node.ast if d.node is not None else at
                if isinstance(d.value, ast.Name) and d.value.id == expr.id:
                    return None
                bs.append(_def_bound(repo, fn, d.value, site, depth - 1, expr.id))
            else:
                return None
        if bs and all(b is not None for b in bs):
            return min(bs)
    return None


def _def_bound(repo, fn, value, site, depth, name):
    # n = min(len(self), n): the inner n refers to the previous binding
    return lower_bound(repo, fn, value, site, depth)


_len_cache = {}


def _built_per_element(fn, name, ret):
    """Parameter P when the local list ``name`` returned at ``ret`` receives exactly one element per element of P:
    bound once to an unfiltered comprehension over P, or bound once to an empty list and appended to at one site,
    unconditionally, in a single un-nested ``for ... in P`` loop that is never left early; no other use of the list."""
    from .forms import contributions, _enclosing_loops
    binds = [n for n in body_nodes(fn.node) if isinstance(n, (ast.Assign, ast.AugAssign, ast.AnnAssign, ast.For, ast.With, ast.NamedExpr))
             and any(isinstance(t, ast.Name) and t.id == name and isinstance(t.ctx, ast.Store) for t in ast.walk(n)
                     if not isinstance(n, ast.For) or t in list(ast.walk(n.target)))]
    binds = [n for n in binds if not isinstance(n, ast.For) or any(isinstance(t, ast.Name) and t.id == name for t in ast.walk(n.target))]
    if len(binds) != 1 or not isinstance(binds[0], ast.Assign) or len(binds[0].targets) != 1 or not isinstance(binds[0].targets[0], ast.Name):
        return None
    if binds[0] not in fn.node.body:
        return None
    loads = [n for n in body_nodes(fn.node) if isinstance(n, ast.Name) and n.id == name and isinstance(n.ctx, ast.Load)]
    v = binds[0].value
    if isinstance(v, ast.ListComp):
        if len(v.generators) == 1 and not v.generators[0].ifs and isinstance(v.generators[0].iter, ast.Name) \
                and v.generators[0].iter.id in fn.all_params and all(fn.module.parent.get(n) is ret for n in loads):
            return v.generators[0].iter.id
        return None
    empty = (isinstance(v, ast.List) and not v.elts) or (isinstance(v, ast.Call) and isinstance(v.func, ast.Name) and v.func.id == "list"
                                                         and not v.args and not v.keywords)
    if not empty:
        return None
    cs = contributions(fn, name)
    if len(cs) != 1:
        return None
    c = cs[0]
    call = c["node"]
    if not (isinstance(call, ast.Call) and isinstance(call.func, ast.Attribute) and call.func.attr == "append" and len(call.args) == 1):
        return None
    loops = _enclosing_loops(fn, call)
    if len(loops) != 1 or not isinstance(loops[0], ast.For) or loops[0].orelse or loops[0] not in fn.node.body:
        return None
    loop = loops[0]
    if not (isinstance(loop.iter, ast.Name) and loop.iter.id in fn.all_params):
        return None
    # the append is a direct statement of the loop body (runs once per iteration) and nothing leaves the iteration early
    if not any(isinstance(s_, ast.Expr) and s_.value is call for s_ in loop.body):
        return None
    if any(isinstance(n, (ast.Break, ast.Continue, ast.Return, ast.Raise, ast.Yield, ast.YieldFrom)) for n in ast.walk(loop)):
        return None
    if any(isinstance(n, ast.Name) and n.id == loop.iter.id and isinstance(n.ctx, ast.Store) for n in ast.walk(loop)):
        return None
    for n in loads:
        par = fn.module.parent.get(n)
        if par is ret or (isinstance(par, ast.Attribute) and par is call.func):
            continue
        return None
    return loop.iter.id


def returns_length_of(repo, fn):
    """Name of the parameter whose length every returned list has (each return
    is an unfiltered comprehension over that parameter), else None."""
    if fn.qualname in _len_cache and _len_cache[fn.qualname][0] is fn.node:
        return _len_cache[fn.qualname][1]
    params = set()
    rets = [n for n in body_nodes(fn.node) if isinstance(n, ast.Return)]
    ok = bool(rets)
    for r in rets:
        v = r.value
        if isinstance(v, (ast.ListComp, ast.GeneratorExp)) and len(v.generators) == 1 and not v.generators[0].ifs \
                and isinstance(v.generators[0].iter, ast.Name) and v.generators[0].iter.id in fn.all_params:
            params.add(v.generators[0].iter.id)
        elif isinstance(v, ast.Name) and v.id not in fn.all_params and _built_per_element(fn, v.id, r) is not None:
            params.add(_built_per_element(fn, v.id, r))
        else:
            ok = False
    res = params.pop() if ok and len(params) == 1 else None
    _len_cache[fn.qualname] = (fn.node, res)
    return res


# --------------------------------------------------------------------- sites
REDUCTIONS_EXT = {"numpy.nanmin", "numpy.nanmax", "numpy.amin", "numpy.amax", "numpy.argmax", "numpy.argmin",
                  "numpy.min", "numpy.max", "statistics.mode"}
REDUCTION_METHODS = {"max", "min", "argmax", "argmin"}


class Site:
    def __init__(self, fn, node, operand, kind):
        self.fn, self.node, self.operand, self.kind = fn, node, operand, kind

    @property
    def text(self):
        return norm(self.node)


def partial_sites(repo, fn, include_nested=True):
    """Identity-less reductions in ``fn``: (call node, operand expression, kind)."""
    out = []
    for f, c in calls_in(fn, include_nested):
        func = c.func
        d = repo.dotted(f, func)
        if d in REDUCTIONS_EXT and c.args:
            out.append(Site(f, c, c.args[0], d))
            continue
        if d in ("builtins.max", "builtins.min") and len(c.args) == 1 and not any(k.arg == "default" for k in c.keywords):
            out.append(Site(f, c, c.args[0], d))
            continue
        if isinstance(func, ast.Attribute) and func.attr in REDUCTION_METHODS and not c.args and d is None \
                and not any(k.arg in ("initial", "default") for k in c.keywords):
            out.append(Site(f, c, func.value, f".{func.attr}()"))
            continue
        # np.vectorize(f)(a) without otypes
        vec = None
        if isinstance(func, ast.Call) and repo.dotted(f, func.func) == "numpy.vectorize":
            vec = func
        elif isinstance(func, ast.Name) and not comprehension_binding(f, func.id, func):
            for df in defs_reaching(f, func.id, c):
                if df.kind == "assign" and isinstance(df.value, ast.Call) and repo.dotted(f, df.value.func) == "numpy.vectorize":
                    vec = df.value
        if vec is not None and c.args and not any(k.arg == "otypes" for k in vec.keywords):
            out.append(Site(f, c, c.args[0], "numpy.vectorize(f)(a)"))
            continue
        # V = np.array(list) without dtype, V then used as an index: an EMPTY list gives a float64 array, which is not a
        # valid index (IndexError: arrays used as indices must be of integer (or boolean) type)
        if d in ("numpy.array", "numpy.asarray") and len(c.args) == 1 and not any(k.arg == "dtype" for k in c.keywords):
            par = f.module.parent.get(c)
            if isinstance(par, ast.Assign) and len(par.targets) == 1 and isinstance(par.targets[0], ast.Name):
                v = par.targets[0].id
                used_as_index = any(isinstance(n, ast.Subscript) and isinstance(n.slice, ast.Name) and n.slice.id == v
                                    for n in body_nodes(f.node))
                if used_as_index:
                    out.append(Site(f, c, c.args[0], "index = numpy.array(list) without dtype"))
                    continue
        # json.dumps(x, allow_nan=False) -- directly or through **kwargs prepared with setdefault("allow_nan", False)
        if d in ("json.dumps", "json.dump") and c.args:
            strict = any(k.arg == "allow_nan" and isinstance(k.value, ast.Constant) and k.value.value is False for k in c.keywords)
            for k in c.keywords:
                if k.arg is None and isinstance(k.value, ast.Name):
                    for n in body_nodes(f.node):
                        if isinstance(n, ast.Call) and isinstance(n.func, ast.Attribute) and n.func.attr in ("setdefault", "__setitem__") \
                                and isinstance(n.func.value, ast.Name) and n.func.value.id == k.value.id and len(n.args) == 2 \
                                and isinstance(n.args[0], ast.Constant) and n.args[0].value == "allow_nan" \
                                and isinstance(n.args[1], ast.Constant) and n.args[1].value is False:
                            strict = True
                        if isinstance(n, ast.Assign) and isinstance(n.targets[0], ast.Subscript) and isinstance(n.targets[0].value, ast.Name) \
                                and n.targets[0].value.id == k.value.id and isinstance(n.targets[0].slice, ast.Constant) \
                                and n.targets[0].slice.value == "allow_nan" and isinstance(n.value, ast.Constant) and n.value.value is False:
                            strict = True
            if strict:
                out.append(Site(f, c, c.args[0], "json.dumps(allow_nan=False)"))
                continue
        # Counter(a).most_common(1)[0]
        if isinstance(func, ast.Attribute) and func.attr == "most_common" and isinstance(func.value, ast.Call) \
                and repo.dotted(f, func.value.func) == "collections.Counter" and func.value.args:
            par = f.module.parent.get(c)
            if isinstance(par, ast.Subscript):
                out.append(Site(f, c, func.value.args[0], "Counter(a).most_common(1)[0]"))
    return out


def call_sites_of(repo, target, scope=None):
    """Call nodes anywhere in the package (or in ``scope`` functions) whose
    callee may be ``target`` -- directly, through self/cls dispatch, or through
    a local alias bound to a choice of functions (pad = util.upad if pad else identity)."""
    out = []
    fns = scope if scope is not None else [f for f in repo.functions.values()]
    for fn in fns:
        for n in body_nodes(fn.node):
            if not isinstance(n, ast.Call):
                continue
            r = repo.resolve_call(fn, n)
            if r[0] == "pkg" and target in r[1]:
                out.append((fn, n))
            elif r[0] == "method" and r[1] == target.name and target.cls is not None:
                out.append((fn, n))
            elif r[0] == "local" and not comprehension_binding(fn, r[1], n.func):
                for d in defs_reaching(fn, r[1], n):
                    if d.kind in ("assign",) and d.value is not None:
                        for sub in ast.walk(d.value):
                            if isinstance(sub, (ast.Name, ast.Attribute)) and repo.dotted(fn, sub) == target.qualname:
                                out.append((fn, n))
                                break
    # dedupe
    seen, res = set(), []
    for fn, n in out:
        if id(n) not in seen:
            seen.add(id(n))
            res.append((fn, n))
    return res


def actual_for(target, call, pname):
    """Expression passed for parameter ``pname`` of ``target`` at ``call``
    ('self' -> the receiver expression)."""
    params = list(target.params)
    is_method = target.cls is not None and target.parent is None
    if is_method and params and pname == params[0]:
        if isinstance(call.func, ast.Attribute):
            return call.func.value
        return None
    if is_method:
        params = params[1:]
        # explicit Class.method(self, ...) form
        if isinstance(call.func, ast.Attribute) and isinstance(call.func.value, ast.Name) \
                and call.func.value.id[:1].isupper():
            params = list(target.params)
    for k in call.keywords:
        if k.arg == pname:
            return k.value
    if pname in params:
        i = params.index(pname)
        if i < len(call.args) and not isinstance(call.args[i], ast.Starred):
            return call.args[i]
    return None


def discharge_reduction(repo, site, entry_public=True, depth=2):
    """Decide a partial-operation site.  Returns (ok, why, chain)."""
    if site.kind.startswith("json.dumps(allow_nan=False)"):
        return False, ("json.dumps with allow_nan=False raises ValueError for NaN and +/-inf, which are ordinary cell values "
                       "(float columns use NaN as their missing value)"), []
    ok, why = nonempty(repo, site.fn, site.operand, site.node)
    if ok:
        return True, f"operand {norm(site.operand)} is non-empty: {why}", []
    if why.startswith("PARAM:") and depth > 0:
        pname = why[6:]
        owner = site.fn
        top = outermost(owner)
        if owner is not top and pname not in owner.all_params:
            owner = top
        callers = call_sites_of(repo, owner)
        # a public method's receiver / argument can be anything, including empty
        chain = []
        if not callers:
            return False, f"operand is parameter {pname!r} of {owner.qualname}, which has no internal caller: any caller may pass an empty sequence", chain
        for cf, call in callers:
            actual = actual_for(owner, call, pname)
            if actual is None:
                chain.append(f"{cf.qualname}:{call.lineno}: cannot identify the argument for {pname}")
                return False, f"call site {cf.qualname}:{call.lineno} passes {pname} in an unrecognised way", chain
            sub = Site(cf, call, actual, site.kind)
            ok2, why2, ch2 = discharge_reduction(repo, sub, depth=depth - 1)
            chain.append(f"{cf.qualname}:{call.lineno}: {norm(actual)} -> {'non-empty' if ok2 else 'MAY BE EMPTY'} ({why2})")
            if not ok2:
                return False, (f"operand is parameter {pname!r} of {owner.qualname}; the call at "
                               f"{cf.module.path}:{call.lineno} ({cf.qualname}) passes {norm(actual)}, which may be empty"), chain
        if owner.is_public() and owner.cls is not None and pname == owner.params[0] and owner.parent is None:
            return False, f"operand is the receiver of public method {owner.qualname}: it may be empty", chain
        return True, f"every call site of {owner.qualname} passes a non-empty {pname}", chain
    return False, f"operand {norm(site.operand)} may be empty: {why}", []
