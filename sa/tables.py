"""Trusted tables: the operation table of the ownership/effect interpreter (E3),
the external summary table for path routing (E7) and the spec tables copied from
the property statements.  Every row is part of the trusted base and is listed
in the evidence of the checks that use it.
"""

# --------------------------------------------------------------------------
# External functions (resolved dotted name) -> behaviour of the result.
#   fresh      a new array sharing no memory with the arguments
#   alias0     may share memory with positional argument 0
#   scalar     a Python / NumPy scalar or other immutable value
#   tuple_fresh   tuple/list of fresh arrays
#   views0     list of views of argument 0
#   box        a fresh container whose elements are the (elements of the) arguments
#   opaque     unknown object not aliasing array memory of the arguments
EXT_FUNCS = {
    # NumPy: documented to return new arrays (numpy.org reference, "Returns: out : ndarray (a copy)")
    "numpy.array": "fresh",            # copy=True by default
    "numpy.take": "fresh", "numpy.delete": "fresh", "numpy.concatenate": "fresh",
    "numpy.where": "where", "numpy.repeat": "fresh", "numpy.sort": "fresh",
    "numpy.full_like": "fresh", "numpy.zeros_like": "fresh", "numpy.ones_like": "fresh",
    "numpy.empty_like": "fresh", "numpy.full": "fresh", "numpy.zeros": "fresh", "numpy.ones": "fresh",
    "numpy.unique": "fresh_or_tuple", "numpy.lexsort": "fresh", "numpy.argsort": "fresh",
    "numpy.arange": "fresh", "numpy.fromiter": "fresh", "numpy.cumsum": "fresh",
    "numpy.bincount": "fresh", "numpy.flatnonzero": "fresh", "numpy.nonzero": "tuple_fresh",
    "numpy.isnan": "fresh", "numpy.isnat": "fresh", "numpy.isfinite": "fresh", "numpy.isinf": "fresh", "numpy.signbit": "fresh", "numpy.ceil": "fresh", "numpy.floor": "fresh",
    "numpy.minimum": "fresh", "numpy.maximum": "fresh", "numpy.logical_not": "fresh",
    "numpy.logical_and": "fresh", "numpy.logical_or": "fresh", "numpy.isin": "fresh",
    "numpy.copy": "fresh", "numpy.nan_to_num": "fresh", "numpy.diff": "fresh", "numpy.column_stack": "fresh", "numpy.append": "fresh", "numpy.insert": "fresh", "numpy.tile": "fresh",
    "numpy.hstack": "fresh", "numpy.stack": "fresh", "numpy.vstack": "fresh", "numpy.roll": "fresh",
    "numpy.flip": "alias0", "numpy.choose": "fresh", "numpy.select": "fresh", "numpy.abs": "fresh",
    "numpy.random.choice": "fresh", "numpy.random.permutation": "fresh",
    "numpy.vectorize": "func_fresh",   # the vectorised callable returns a new array
    # NumPy: documented to return views / the input itself when possible
    "numpy.asarray": "alias0", "numpy.asanyarray": "alias0", "numpy.ascontiguousarray": "alias0",
    "numpy.ravel": "alias0", "numpy.reshape": "alias0", "numpy.squeeze": "alias0",
    "numpy.atleast_1d": "alias0", "numpy.transpose": "alias0", "numpy.broadcast_to": "alias0",
    "numpy.split": "views0", "numpy.array_split": "views0",
    "numpy.frombuffer": "alias0", "numpy.lib.stride_tricks.as_strided": "alias0",
    # scalars / reductions / predicates
    "numpy.nanmin": "scalar", "numpy.nanmax": "scalar", "numpy.amin": "scalar", "numpy.amax": "scalar",
    "numpy.all": "scalar", "numpy.any": "scalar", "numpy.sum": "scalar", "numpy.mean": "scalar",
    "numpy.median": "scalar", "numpy.std": "scalar", "numpy.var": "scalar", "numpy.quantile": "scalar",
    "numpy.issubdtype": "scalar", "numpy.dtype": "scalar", "numpy.isscalar": "scalar",
    "numpy.datetime64": "scalar", "numpy.timedelta64": "scalar", "numpy.argmax": "scalar",
    "numpy.argmin": "scalar", "numpy.format_float_positional": "scalar",
    "numpy.format_float_scientific": "scalar", "numpy.shares_memory": "scalar",
    "numpy.array_equal": "scalar", "numpy.nan": "scalar",
    "builtins.len": "scalar", "builtins.isinstance": "scalar", "builtins.callable": "scalar",
    "builtins.hasattr": "scalar", "builtins.getattr": "getattr", "builtins.str": "scalar",
    "builtins.int": "scalar", "builtins.float": "scalar", "builtins.bool": "scalar",
    "builtins.repr": "scalar", "builtins.round": "scalar", "builtins.abs": "scalar",
    "builtins.sum": "scalar", "builtins.max": "elem", "builtins.min": "elem", "builtins.any": "scalar",
    "builtins.all": "scalar", "builtins.next": "elem", "builtins.print": "scalar", "builtins.type": "scalar",
    "builtins.range": "box_scalar", "builtins.id": "scalar", "builtins.hash": "scalar",
    "builtins.ValueError": "scalar", "builtins.TypeError": "scalar", "builtins.AttributeError": "scalar",
    "builtins.NotImplementedError": "scalar", "builtins.Exception": "scalar", "builtins.KeyError": "scalar",
    "builtins.IndexError": "scalar", "builtins.open": "opaque", "builtins.bytes": "scalar",
    "builtins.locals": "opaque", "builtins.globals": "opaque", "builtins.dir": "box_scalar",
    "builtins.iter": "box", "builtins.vars": "opaque", "builtins.super": "opaque",
    "builtins.setattr": "setattr", "builtins.delattr": "setattr", "builtins.object": "opaque",
    "builtins.slice": "scalar", "builtins.format": "scalar", "builtins.ord": "scalar", "builtins.chr": "scalar",
    "math.isinf": "scalar", "math.isnan": "scalar", "math.inf": "scalar",
    "json.dumps": "scalar", "json.loads": "opaque", "json.load": "opaque", "json.JSONEncoder": "opaque",
    "pickle.load": "opaque", "pickle.dump": "scalar", "pickle.dumps": "scalar", "pickle.loads": "opaque",
    "codecs.lookup": "scalar", "operator.itemgetter": "itemgetter", "itertools.count": "opaque",
    "statistics.mode": "elem", "collections.Counter": "opaque", "sys.getsizeof": "scalar",
    "functools.partial": "partial", "functools.wraps": "opaque", "random.sample": "box",
    "shutil.get_terminal_size": "opaque", "wcwidth.wcswidth": "scalar",
    "datetime.datetime.strptime": "scalar", "datetime.datetime.now": "scalar", "datetime.date.today": "scalar",
    "re.findall": "opaque", "re.fullmatch": "opaque", "re.match": "opaque", "re.search": "opaque",
    "re.split": "opaque", "re.sub": "scalar", "re.subn": "opaque",
    "copy.deepcopy": "deepcopy", "copy.copy": "shallowcopy",
    # fresh containers holding the argument's elements (references handed on)
    "builtins.list": "box", "builtins.tuple": "box", "builtins.set": "box", "builtins.frozenset": "box",
    "builtins.sorted": "box", "builtins.reversed": "box", "builtins.filter": "box1",
    "builtins.enumerate": "enumerate", "builtins.zip": "zip", "builtins.map": "map",
    "builtins.dict": "dictctor", "builtins.dict.fromkeys": "dictfromkeys",
    "itertools.chain": "chain", "itertools.islice": "box", "itertools.chain.from_iterable": "chainfrom",
    "attd.AttributeDict": "attrdict", "attd.AttributeDict.copy": "shallowcopy", "attd.AttributeDict.__copy__": "shallowcopy",
    # explicit base-class storage primitives  (dict.update(x, ...), dict.copy(x))
    "builtins.dict.update": "dict_update", "builtins.dict.copy": "dict_copy",
    "builtins.dict.__setitem__": "dict_setitem", "builtins.dict.pop": "dict_pop",
    "builtins.dict.__getitem__": "dict_getitem", "builtins.dict.__delitem__": "dict_delitem",
    "builtins.dict.setdefault": "dict_setitem", "builtins.dict.clear": "dict_clear",
    # foreign libraries: results are foreign objects; they copy what they are given
    "pyarrow.array": "opaque", "pyarrow.table": "opaque", "pandas.DataFrame": "opaque",
    "pyarrow.csv.read_csv": "opaque", "pyarrow.csv.write_csv": "scalar", "pyarrow.csv.ReadOptions": "opaque",
    "pyarrow.csv.ParseOptions": "opaque", "pyarrow.csv.ConvertOptions": "opaque",
    "pyarrow.csv.WriteOptions": "opaque", "pyarrow.parquet.read_table": "opaque",
    "pyarrow.parquet.write_table": "scalar", "numpy.load": "opaque", "numpy.savez": "scalar",
    "numpy.savez_compressed": "scalar", "csv.reader": "opaque", "csv.DictWriter": "opaque",
    "pathlib.Path": "opaque", "bz2.open": "opaque", "gzip.open": "opaque", "lzma.open": "opaque",
    "numpy.dtypes.StringDType": "scalar",
}

# External functions writing through an argument (position of the written array).
EXT_WRITES = {
    "numpy.put": 0, "numpy.place": 0, "numpy.putmask": 0, "numpy.copyto": 0,
    "numpy.put_along_axis": 0, "numpy.fill_diagonal": 0, "numpy.random.shuffle": 0,
    "random.shuffle": 0,
}

# ndarray / generic methods by name (receiver of kind col or unknown).
ARRAY_METHODS = {
    # new array
    "copy": "fresh", "astype": "fresh", "repeat": "fresh", "take": "fresh", "compress": "fresh",
    "cumsum": "fresh", "cumprod": "fresh", "argsort": "fresh", "nonzero": "tuple_fresh",
    "flatten": "fresh", "round": "fresh", "clip": "fresh", "conj": "fresh", "searchsorted": "fresh",
    "byteswap": "fresh", "__neg__": "fresh", "__invert__": "fresh", "choose": "fresh",
    # views
    "view": "alias", "reshape": "alias", "ravel": "alias", "squeeze": "alias", "transpose": "alias",
    "swapaxes": "alias", "diagonal": "alias", "__array__": "alias", "newbyteorder": "alias",
    # scalars
    "all": "scalar", "any": "scalar", "sum": "scalar", "max": "scalar", "min": "scalar",
    "mean": "scalar", "item": "scalar", "std": "scalar", "var": "scalar", "argmax": "scalar",
    "argmin": "scalar", "prod": "scalar", "ptp": "scalar", "tobytes": "scalar", "dot": "scalar",
    "tolist": "box_scalar", "__len__": "scalar", "tostring": "scalar",
}
ARRAY_INPLACE = {"fill", "put", "resize", "itemset", "partition", "setfield", "setflags",
                 "byteswap_inplace", "__setitem__", "__iadd__", "__isub__", "__imul__"}
# ndarray.sort is in place, but Vector.sort overrides it (resolved through the class, E1).

DICT_METHODS = {"items", "values", "keys", "get", "pop", "popitem", "setdefault", "update", "clear", "copy",
                "__getitem__", "__setitem__", "__delitem__", "__contains__", "fromkeys"}
DICT_WRITES = {"pop", "popitem", "setdefault", "update", "clear", "__setitem__", "__delitem__"}
LIST_WRITES = {"append", "extend", "insert", "pop", "remove", "clear", "sort", "reverse", "__setitem__",
               "__delitem__", "add", "discard", "update"}

ARRAY_ATTRS_SCALAR = {"dtype", "size", "ndim", "shape", "nbytes", "itemsize", "flags", "strides", "base"}
ARRAY_ATTRS_ALIAS = {"T", "real", "imag", "flat"}

# --------------------------------------------------------------------------
# Spec table copied from the statement of C07 (documented default / minimum
# group size per helper).  The property statements are fixed for this task.
C07_SPEC = {
    "all": ("True", 0), "any": ("False", 0), "count": ("0", 0), "sum": ("0", 0),
    "count_unique": ("0", 0),
    "min": ("NA", 1), "max": ("NA", 1), "mode": ("NA", 1), "nth": ("NA", 1),
    "mean": ("nan", 1), "median": ("nan", 1), "quantile": ("nan", 1),
    "std": ("nan", 2), "var": ("nan", 2),
}

# C17: the statement's lists.
C17_EDITORS = ["modify", "modify_if", "rename", "select", "unselect", "fill_missing_keys",
               "inner_join", "left_join"]
C17_NONMODIFYING = ["filter", "sort", "unique", "head", "tail", "__getitem__", "copy", "reverse",
                    "sample", "semi_join", "anti_join", "filter_out", "drop_na", "__copy__"]

# --------------------------------------------------------------------------
# External summary table for path routing (E7): API given a ``str`` path.
#   addresses: 'same' | 'plus_npz'       compression by suffix on that side
ROUTES = {
    "pyarrow.csv.read_csv": {"role": "read", "addresses": "same", "decompress": {".gz", ".bz2"}},
    "pyarrow.csv.write_csv": {"role": "write", "addresses": "same", "compress": set()},
    "pyarrow.parquet.read_table": {"role": "read", "addresses": "same", "decompress": set()},
    "pyarrow.parquet.write_table": {"role": "write", "addresses": "same", "compress": set()},
    "numpy.load": {"role": "read", "addresses": "same", "decompress": set()},
    "numpy.savez": {"role": "write", "addresses": "plus_npz", "compress": set()},
    "numpy.savez_compressed": {"role": "write", "addresses": "plus_npz", "compress": set()},
    "builtins.open": {"role": "both", "addresses": "same", "compress": set(), "decompress": set()},
}
SUFFIXES = ["", ".gz", ".bz2", ".xz"]
