"""Static analysis of otsaloma/dataiter against the 20 given properties.

Nothing under /repo is imported or executed by this package: every check parses
the current working tree with ``ast`` and decides structural obligations.
"""
