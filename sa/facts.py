"""Branch facts: which expressions are known truthy / falsy at a program point.

A fact is ('T', text) or ('F', text) where text is the normalised source of an
expression.  Facts come from (a) dominating branch edges of the CFG (forward
must-analysis, killed when a mentioned name is rebound or a mentioned attribute
is stored) and (b) the expression context of the site (enclosing conditional
expression, earlier operands of and/or, comprehension conditions).
Interpretation of the facts (non-emptiness, bounds, not-None) is in guards.py.
"""
import ast
from .cfg import cfg_of, defs_of_node, _names_in_text
from .model import src


def norm(node):
    return " ".join(src(node).split())


def test_facts(test, truth, base=frozenset()):
    out = set()
    if isinstance(test, (ast.For, ast.AsyncFor)):
        # loop header: body edge means the iterable produced an element
        out.add(("T" if truth else "ITER-END", "iter:" + norm(test.iter)))
        return out
    if isinstance(test, ast.BoolOp):
        if isinstance(test.op, ast.And) and truth:
            for v in test.values:
                out |= test_facts(v, True)
            return out
        if isinstance(test.op, ast.Or) and not truth:
            for v in test.values:
                out |= test_facts(v, False)
            return out
    if isinstance(test, ast.UnaryOp) and isinstance(test.op, ast.Not):
        return test_facts(test.operand, not truth)
    if isinstance(test, ast.NamedExpr):
        out |= test_facts(test.value, truth)
        out.add(("T" if truth else "F", test.target.id))
        return out
    if isinstance(test, ast.Compare) and len(test.ops) == 1:
        # record both the comparison and its mirror image for interpretation
        out.add(("T" if truth else "F", norm(test)))
        return out
    out.add(("T" if truth else "F", norm(test)))
    return out


def _killed_texts(n):
    out = list(defs_of_node(n))
    a = n.ast
    targets = []
    if isinstance(a, ast.Assign):
        targets = a.targets
    elif isinstance(a, (ast.AugAssign, ast.AnnAssign)):
        targets = [a.target]
    elif isinstance(a, ast.Delete):
        targets = a.targets
    for t in targets:
        for sub in ast.walk(t):
            if isinstance(sub, ast.Attribute) and isinstance(sub.ctx, (ast.Store, ast.Del)):
                out.append(norm(sub))
            if isinstance(sub, ast.Subscript) and isinstance(sub.ctx, (ast.Store, ast.Del)):
                out.append(norm(sub.value))
    # in-place list mutation kills facts about that list
    if isinstance(a, ast.Expr) and isinstance(a.value, ast.Call) and isinstance(a.value.func, ast.Attribute) \
            and a.value.func.attr in ("append", "extend", "insert", "pop", "remove", "clear", "sort", "reverse",
                                      "update", "setdefault", "popitem", "add", "discard"):
        out.append(norm(a.value.func.value))
    return out


def _fact_killed(fact, killed):
    text = fact[1]
    names = _names_in_text(text.split(":", 1)[1] if text.startswith("iter:") else text)
    for k in killed:
        if k.isidentifier():
            if k in names:
                return True
        elif k in text:
            return True
    return False


_facts_cache = {}


def cfg_facts(fn):
    key = id(fn.node)
    hit = _facts_cache.get(key)
    if hit is not None and hit[0] is fn.node:
        return hit[1]
    cfg = cfg_of(fn)
    # must_facts kills by name; we need attribute-aware killing, so wrap facts
    IN = _must(cfg)
    _facts_cache[key] = (fn.node, IN)
    return IN


def _must(cfg):
    TOP = None
    IN = {n.id: TOP for n in cfg.nodes}
    IN[cfg.entry.id] = frozenset()
    work = [cfg.entry]
    while work:
        n = work.pop()
        cur = IN[n.id]
        if cur is TOP:
            continue
        killed = _killed_texts(n)
        base = frozenset(f for f in cur if not _fact_killed(f, killed)) if killed else cur
        for s, label in n.succ:
            out = base
            if n.kind == "test" and label in ("T", "F"):
                out = out | frozenset(test_facts(n.ast, label == "T"))
            elif n.kind == "for" and label in ("T", "F"):
                out = out | frozenset(test_facts(n.ast, label == "T"))
            old = IN[s.id]
            new = out if old is TOP else (old & out)
            if new != old:
                IN[s.id] = new
                work.append(s)
    return {k: (v if v is not None else frozenset()) for k, v in IN.items()}


def context_facts(fn, node):
    """Facts implied by the position of ``node`` inside its own statement."""
    parent = fn.module.parent
    out = set()
    cur = node
    p = parent.get(cur)
    while p is not None and not isinstance(p, ast.stmt):
        if isinstance(p, ast.IfExp):
            if cur is p.body:
                out |= test_facts(p.test, True)
            elif cur is p.orelse:
                out |= test_facts(p.test, False)
        elif isinstance(p, ast.BoolOp):
            i = next((k for k, v in enumerate(p.values) if v is cur), None)
            if i:
                for v in p.values[:i]:
                    out |= test_facts(v, isinstance(p.op, ast.And))
        elif isinstance(p, (ast.ListComp, ast.SetComp, ast.GeneratorExp, ast.DictComp)):
            inside_elt = cur is getattr(p, "elt", None) or cur is getattr(p, "key", None) or cur is getattr(p, "value", None)
            if inside_elt:
                for g in p.generators:
                    for c in g.ifs:
                        out |= test_facts(c, True)
        elif isinstance(p, ast.comprehension):
            # condition k of a comprehension sees the earlier conditions as true
            if cur in p.ifs:
                for c in p.ifs[:p.ifs.index(cur)]:
                    out |= test_facts(c, True)
        elif isinstance(p, ast.Lambda):
            break
        cur = p
        p = parent.get(cur)
    return out


def stmt_of(fn, node):
    parent = fn.module.parent
    cur = node
    while cur is not None and not isinstance(cur, ast.stmt):
        cur = parent.get(cur)
    return cur


def cfg_node_of(fn, node):
    """The CFG node executing ``node`` (a sub-expression or a statement)."""
    cfg = cfg_of(fn)
    parent = fn.module.parent
    cur = node
    while cur is not None:
        for n in cfg.nodes:
            if n.ast is cur and n.kind != "for":
                return n
            if n.kind == "for" and n.ast is cur and node is cur:
                return n
        if isinstance(cur, (ast.For, ast.AsyncFor)):
            # inside the header of a for statement: iter expression
            for n in cfg.nodes:
                if n.kind == "iter" and n.ast is cur.iter:
                    return n
        if cur is fn.node:
            return None
        cur = parent.get(cur)
    return None


def facts_at(fn, node):
    """All facts known to hold when ``node`` is evaluated."""
    n = cfg_node_of(fn, node)
    out = set()
    if n is not None:
        out |= cfg_facts(fn)[n.id]
    out |= context_facts(fn, node)
    return out
