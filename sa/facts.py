"""Branch facts: which expressions are known truthy / falsy at a program point.

A fact is ('T', text) or ('F', text) where text is the normalised source of an
expression.  Facts come from (a) dominating branch edges of the CFG (forward
must-analysis, killed when a mentioned name is rebound or a mentioned attribute
is stored) and (b) the expression context of the site (enclosing conditional
expression, earlier operands of and/or, comprehension conditions).
Interpretation of the facts (non-emptiness, bounds, not-None) is in guards.py.
"""
import ast
from .cfg import cfg_of, defs_of_node, _names_in_text
from .model import src


def norm(node):
    return " ".join(src(node).split())


def test_facts(test, truth, base=frozenset()):
    out = set()
    if isinstance(test, (ast.For, ast.AsyncFor)):
        # loop header: body edge means the iterable produced an element
        out.add(("T" if truth else "ITER-END", "iter:" + norm(test.iter)))
        return out
    if isinstance(test, ast.BoolOp):
        if isinstance(test.op, ast.And) and truth:
            for v in test.values:
                out |= test_facts(v, True)
            return out
        if isinstance(test.op, ast.Or) and not truth:
            for v in test.values:
                out |= test_facts(v, False)
            return out
    if isinstance(test, ast.UnaryOp) and isinstance(test.op, ast.Not):
        return test_facts(test.operand, not truth)
    if isinstance(test, ast.NamedExpr):
        out |= test_facts(test.value, truth)
        out.add(("T" if truth else "F", test.target.id))
        return out
    if isinstance(test, ast.Compare):
        # chained comparison a < b < c: pairwise facts when true; walrus operands
        # are also recorded under the bound name
        operands = [test.left] + list(test.comparators)
        for o in operands:
            if isinstance(o, ast.NamedExpr):
                pass
        if len(test.ops) == 1 or truth:
            for i, op in enumerate(test.ops):
                l, r = operands[i], operands[i + 1]
                for lv in _variants(l):
                    for rv in _variants(r):
                        c = ast.Compare(left=lv, ops=[op], comparators=[rv])
                        out.add(("T" if truth else "F", norm(c)))
            return out
        out.add(("F", norm(test)))
        return out
    out.add(("T" if truth else "F", norm(test)))
    return out


def _variants(e):
    if isinstance(e, ast.NamedExpr):
        return [ast.Name(id=e.target.id, ctx=ast.Load()), e.value]
    return [e]


LENGTH_PRESERVING_METHODS = {"copy", "astype", "view", "_optimize_for_argsort", "as_boolean", "as_bytes", "as_date",
                             "as_datetime", "as_float", "as_integer", "as_object", "as_string", "replace_na",
                             "rank", "is_na", "tolist"}


def length_preserving(value, name):
    """Is ``value`` an expression whose length equals the length of the
    current binding of ``name``?"""
    if isinstance(value, ast.Name):
        return value.id == name
    if isinstance(value, ast.Call):
        f = value.func
        if isinstance(f, ast.Attribute):
            if f.attr in LENGTH_PRESERVING_METHODS and length_preserving(f.value, name):
                return True
            if f.attr in ("fast",) or (isinstance(f.value, ast.Name) and f.value.id in ("Vector", "DataFrameColumn")):
                return bool(value.args) and length_preserving(value.args[0], name)
            if f.attr in ("repeat", "full") and isinstance(f.value, ast.Name) and f.value.id == "np" and len(value.args) >= 2:
                a = value.args[1]
                t = norm(a)
                return t in (f"{name}.length", f"len({name})", f"{name}.nrow", f"{name}.size")
            if f.attr in ("zeros_like", "full_like", "ones_like", "empty_like", "asarray", "array") \
                    and isinstance(f.value, ast.Name) and f.value.id == "np":
                return bool(value.args) and length_preserving(value.args[0], name)
        if isinstance(f, ast.Name) and f.id in ("Vector", "DataFrameColumn", "list", "tuple", "sorted", "reversed"):
            return bool(value.args) and length_preserving(value.args[0], name)
    return False


def _killed_texts(n):
    out = list(defs_of_node(n))
    a = n.ast
    targets = []
    if isinstance(a, ast.Assign):
        targets = a.targets
    elif isinstance(a, (ast.AugAssign, ast.AnnAssign)):
        targets = [a.target]
    elif isinstance(a, ast.Delete):
        targets = a.targets
    for t in targets:
        for sub in ast.walk(t):
            if isinstance(sub, ast.Attribute) and isinstance(sub.ctx, (ast.Store, ast.Del)):
                out.append(norm(sub))
            if isinstance(sub, ast.Subscript) and isinstance(sub.ctx, (ast.Store, ast.Del)):
                out.append(norm(sub.value))
    # in-place list mutation kills facts about that list
    if isinstance(a, ast.Expr) and isinstance(a.value, ast.Call) and isinstance(a.value.func, ast.Attribute) \
            and a.value.func.attr in ("append", "extend", "insert", "pop", "remove", "clear", "sort", "reverse",
                                      "update", "setdefault", "popitem", "add", "discard"):
        out.append(norm(a.value.func.value))
    return out


def _is_length_fact(fact, name):
    t = fact[1]
    return (f"len({name})" in t or f"{name}.length" in t or f"{name}.nrow" in t or t.strip() in (name, f"not {name}")) \
        and name not in _names_in_text(t.replace(f"len({name})", "L").replace(f"{name}.length", "L").replace(f"{name}.nrow", "L"))


def _fact_killed(fact, killed):
    text = fact[1]
    names = _names_in_text(text.split(":", 1)[1] if text.startswith("iter:") else text)
    for k in killed:
        if k.isidentifier():
            if k in names:
                return True
        elif k in text:
            return True
    return False


_facts_cache = {}


def cfg_facts(fn):
    key = id(fn.node)
    hit = _facts_cache.get(key)
    if hit is not None and hit[0] is fn.node:
        return hit[1]
    cfg = cfg_of(fn)
    # must_facts kills by name; we need attribute-aware killing, so wrap facts
    IN = _must(cfg)
    _facts_cache[key] = (fn.node, IN)
    return IN


def _must(cfg):
    TOP = None
    IN = {n.id: TOP for n in cfg.nodes}
    IN[cfg.entry.id] = frozenset()
    work = [cfg.entry]
    while work:
        n = work.pop()
        cur = IN[n.id]
        if cur is TOP:
            continue
        killed = _killed_texts(n)
        keep = None
        a = n.ast
        if isinstance(a, ast.Assign) and len(a.targets) == 1 and isinstance(a.targets[0], ast.Name) \
                and length_preserving(a.value, a.targets[0].id):
            keep = a.targets[0].id
        base = frozenset(f for f in cur if not _fact_killed(f, killed)
                         or (keep is not None and _is_length_fact(f, keep))) if killed else cur
        for s, label in n.succ:
            out = base
            if n.kind == "test" and label in ("T", "F"):
                out = out | frozenset(test_facts(n.ast, label == "T"))
            elif n.kind == "for" and label in ("T", "F"):
                out = out | frozenset(test_facts(n.ast, label == "T"))
            old = IN[s.id]
            new = out if old is TOP else (old & out)
            if new != old:
                IN[s.id] = new
                work.append(s)
    return {k: (v if v is not None else frozenset()) for k, v in IN.items()}


def context_facts(fn, node):
    """Facts implied by the position of ``node`` inside its own statement."""
    parent = fn.module.parent
    out = set()
    cur = node
    p = parent.get(cur)
    while p is not None and not isinstance(p, ast.stmt):
        if isinstance(p, ast.IfExp):
            if cur is p.body:
                out |= test_facts(p.test, True)
            elif cur is p.orelse:
                out |= test_facts(p.test, False)
        elif isinstance(p, ast.BoolOp):
            i = next((k for k, v in enumerate(p.values) if v is cur), None)
            if i:
                for v in p.values[:i]:
                    out |= test_facts(v, isinstance(p.op, ast.And))
        elif isinstance(p, (ast.ListComp, ast.SetComp, ast.GeneratorExp, ast.DictComp)):
            inside_elt = cur is getattr(p, "elt", None) or cur is getattr(p, "key", None) or cur is getattr(p, "value", None)
            if inside_elt:
                for g in p.generators:
                    for c in g.ifs:
                        out |= test_facts(c, True)
        elif isinstance(p, ast.comprehension):
            # condition k of a comprehension sees the earlier conditions as true
            if cur in p.ifs:
                for c in p.ifs[:p.ifs.index(cur)]:
                    out |= test_facts(c, True)
        elif isinstance(p, ast.Lambda):
            break
        cur = p
        p = parent.get(cur)
    return out


def stmt_of(fn, node):
    parent = fn.module.parent
    cur = node
    while cur is not None and not isinstance(cur, ast.stmt):
        cur = parent.get(cur)
    return cur


def cfg_node_of(fn, node):
    """The CFG node executing ``node`` (a sub-expression or a statement)."""
    cfg = cfg_of(fn)
    parent = fn.module.parent
    cur = node
    while cur is not None:
        for n in cfg.nodes:
            if n.ast is cur and n.kind != "for":
                return n
            if n.kind == "for" and n.ast is cur and node is cur:
                return n
        if isinstance(cur, (ast.For, ast.AsyncFor)):
            # inside the header of a for statement: iter expression
            for n in cfg.nodes:
                if n.kind == "iter" and n.ast is cur.iter:
                    return n
        if cur is fn.node:
            return None
        cur = parent.get(cur)
    return None


_NEG = {ast.In: ast.NotIn, ast.NotIn: ast.In, ast.Eq: ast.NotEq, ast.NotEq: ast.Eq, ast.Lt: ast.GtE, ast.GtE: ast.Lt,
        ast.Gt: ast.LtE, ast.LtE: ast.Gt, ast.Is: ast.IsNot, ast.IsNot: ast.Is}
_closure_cache = {}


def close_under_negation(facts):
    """Add the positive form of every falsified single comparison: F:`a not in b` gives T:`a in b`,
    F:`a == b` gives T:`a != b`, F:`a < b` gives T:`a >= b`, ... (and the other way round)."""
    out = set(facts)
    for k, t in list(facts):
        if k not in ("T", "F") or t.startswith("iter:"):
            continue
        key = (k, t)
        hit = _closure_cache.get(key)
        if hit is None:
            hit = ()
            try:
                e = ast.parse(t, mode="eval").body
            except SyntaxError:
                e = None
            if isinstance(e, ast.Compare) and len(e.ops) == 1 and type(e.ops[0]) in _NEG:
                neg = ast.Compare(left=e.left, ops=[_NEG[type(e.ops[0])]()], comparators=e.comparators)
                hit = (("T" if k == "F" else "F", norm(neg)),)
            elif isinstance(e, ast.UnaryOp) and isinstance(e.op, ast.Not):
                hit = (("T" if k == "F" else "F", norm(e.operand)),)
            _closure_cache[key] = hit
        out.update(hit)
    return out


def facts_at(fn, node):
    """All facts known to hold when ``node`` is evaluated (closed under negation of single comparisons)."""
    n = cfg_node_of(fn, node)
    out = set()
    if n is not None:
        out |= cfg_facts(fn)[n.id]
    out |= context_facts(fn, node)
    return close_under_negation(out)


def facts_at_resolved(fn, node):
    """facts_at plus, for every fact whose text is a bare local name (a flag such as ``ascending = dir > 0``) with a
    single pure definition, the same fact about the defining expression."""
    from .dataflow import defs_reaching
    out = set(facts_at(fn, node))
    extra = set()
    for k, t in out:
        name, neg = t, False
        if t.startswith("not "):
            name, neg = t[4:], True
        if not name.isidentifier():
            continue
        ds = defs_reaching(fn, name, node)
        if len(ds) == 1 and ds[0].kind == "assign" and ds[0].value is not None and isinstance(ds[0].target, ast.Name):
            v = ds[0].value
            if all(isinstance(x, (ast.Name, ast.Constant, ast.Compare, ast.BoolOp, ast.UnaryOp, ast.Load, ast.cmpop, ast.boolop,
                                  ast.unaryop, ast.Attribute, ast.BinOp, ast.operator)) for x in ast.walk(v)):
                truth = (k == "T") != neg
                extra |= set(test_facts(v, truth))
    return close_under_negation(out | extra)
