"""E2 -- statement-level CFG, dominators, reaching definitions, must-facts.

Hand-built for the statement kinds the repository uses.  Loops may run zero
times; an exception edge leaves every statement of a ``try`` body.
"""
import ast
from .model import assigned_names, AnalysisError


class Node:
    __slots__ = ("id", "kind", "ast", "succ", "pred", "label")

    def __init__(self, id, kind, astnode=None, label=""):
        self.id = id
        self.kind = kind          # entry exit raise stmt test iter for with
        self.ast = astnode
        self.succ = []            # (Node, edge_label)  edge_label in None/'T'/'F'/'exc'
        self.pred = []
        self.label = label

    def __repr__(self):
        t = ""
        if self.ast is not None:
            try:
                t = ast.unparse(self.ast).split("\n")[0][:60]
            except Exception:
                t = "?"
        return f"<{self.id}:{self.kind} {t}>"


class CFG:
    def __init__(self, fnode):
        self.fnode = fnode
        self.nodes = []
        self.entry = self._new("entry")
        self.exit = self._new("exit")
        self.raise_exit = self._new("raise")
        self.of_stmt = {}           # ast stmt -> first Node created for it
        self._loops = []            # (continue_target, break_target)
        self._handlers = []         # stack of lists of handler entry nodes
        ends = self._block(fnode.body, [(self.entry, None)])
        self._connect(ends, self.exit)
        self._dom = None

    # --------------------------------------------------------------- helpers
    def _new(self, kind, astnode=None, label=""):
        n = Node(len(self.nodes), kind, astnode, label)
        self.nodes.append(n)
        return n

    @staticmethod
    def _edge(a, b, label=None):
        if (b, label) not in a.succ:
            a.succ.append((b, label))
            b.pred.append((a, label))

    def _connect(self, ends, node):
        for a, label in ends:
            self._edge(a, node, label)

    def _exc_edges(self, node):
        if self._handlers:
            for h in self._handlers[-1]:
                self._edge(node, h, "exc")

    # ---------------------------------------------------------------- blocks
    def _block(self, stmts, ends):
        for s in stmts:
            ends = self._stmt(s, ends)
        return ends

    def _stmt(self, s, ends):
        if isinstance(s, ast.If):
            t = self._new("test", s.test)
            self.of_stmt[s] = t
            self._connect(ends, t)
            self._exc_edges(t)
            a = self._block(s.body, [(t, "T")])
            b = self._block(s.orelse, [(t, "F")])
            return a + b
        if isinstance(s, ast.While):
            t = self._new("test", s.test)
            self.of_stmt[s] = t
            self._connect(ends, t)
            after = []
            self._loops.append((t, after))
            body_ends = self._block(s.body, [(t, "T")])
            self._loops.pop()
            self._connect(body_ends, t)
            is_true = isinstance(s.test, ast.Constant) and bool(s.test.value)
            out = [] if is_true else self._block(s.orelse, [(t, "F")])
            return out + after
        if isinstance(s, (ast.For, ast.AsyncFor)):
            it = self._new("iter", s.iter)
            self.of_stmt[s] = it
            self._connect(ends, it)
            self._exc_edges(it)
            h = self._new("for", s)
            self._edge(it, h)
            after = []
            self._loops.append((h, after))
            body_ends = self._block(s.body, [(h, "T")])
            self._loops.pop()
            self._connect(body_ends, h)
            out = self._block(s.orelse, [(h, "F")])
            return out + after
        if isinstance(s, ast.Try):
            handler_entries = []
            for h in s.handlers:
                hn = self._new("handler", h)
                handler_entries.append(hn)
            self._handlers.append(handler_entries)
            body_ends = self._block(s.body, ends)
            self._handlers.pop()
            else_ends = self._block(s.orelse, body_ends)
            outs = list(else_ends)
            for h, hn in zip(s.handlers, handler_entries):
                outs += self._block(h.body, [(hn, None)])
            if s.finalbody:
                outs = self._block(s.finalbody, outs)
            return outs
        if isinstance(s, (ast.With, ast.AsyncWith)):
            w = self._new("with", s)
            self.of_stmt[s] = w
            self._connect(ends, w)
            self._exc_edges(w)
            return self._block(s.body, [(w, None)])
        if isinstance(s, ast.Return):
            n = self._new("stmt", s)
            self.of_stmt[s] = n
            self._connect(ends, n)
            self._exc_edges(n)
            self._edge(n, self.exit)
            return []
        if isinstance(s, ast.Raise):
            n = self._new("stmt", s)
            self.of_stmt[s] = n
            self._connect(ends, n)
            if self._handlers:
                self._exc_edges(n)
            else:
                self._edge(n, self.raise_exit)
            return []
        if isinstance(s, ast.Assert):
            t = self._new("test", s.test)
            self.of_stmt[s] = t
            self._connect(ends, t)
            self._edge(t, self.raise_exit, "F")
            return [(t, "T")]
        if isinstance(s, ast.Continue):
            n = self._new("stmt", s)
            self.of_stmt[s] = n
            self._connect(ends, n)
            if not self._loops:
                raise AnalysisError("continue outside loop")
            self._edge(n, self._loops[-1][0])
            return []
        if isinstance(s, ast.Break):
            n = self._new("stmt", s)
            self.of_stmt[s] = n
            self._connect(ends, n)
            self._loops[-1][1].append((n, None))
            return []
        if isinstance(s, (ast.Match,)):
            # subject evaluated once; every case body is an alternative; no case may match
            t = self._new("iter", s.subject)
            self.of_stmt[s] = t
            self._connect(ends, t)
            self._exc_edges(t)
            outs = [(t, None)]
            for case in s.cases:
                outs += self._block(case.body, [(t, None)])
            return outs
        # simple statement
        n = self._new("stmt", s)
        self.of_stmt[s] = n
        self._connect(ends, n)
        self._exc_edges(n)
        return [(n, None)]

    # ------------------------------------------------------------ dominators
    def dominators(self):
        if self._dom is not None:
            return self._dom
        allids = set(n.id for n in self.nodes)
        dom = {n.id: set(allids) for n in self.nodes}
        dom[self.entry.id] = {self.entry.id}
        changed = True
        order = self.nodes
        while changed:
            changed = False
            for n in order:
                if n is self.entry:
                    continue
                preds = [p for p, _ in n.pred]
                if not preds:
                    new = {n.id}
                else:
                    new = set.intersection(*(dom[p.id] for p in preds)) | {n.id}
                if new != dom[n.id]:
                    dom[n.id] = new
                    changed = True
        self._dom = dom
        return dom

    def dominates(self, a, b):
        return a.id in self.dominators()[b.id]

    def postdominators(self):
        """Post-dominators w.r.t. the normal exit: pdom[n] = nodes every path
        n -> exit passes through.  Nodes that cannot reach the normal exit
        (they only raise) get the full set."""
        if getattr(self, "_pdom", None) is not None:
            return self._pdom
        allids = set(n.id for n in self.nodes)
        pdom = {n.id: set(allids) for n in self.nodes}
        pdom[self.exit.id] = {self.exit.id}
        changed = True
        while changed:
            changed = False
            for n in reversed(self.nodes):
                if n is self.exit:
                    continue
                succs = [s for s, _ in n.succ if s is not self.raise_exit]
                succs = [s for s in succs]
                if not succs:
                    new = set(allids) if n is not self.raise_exit else {n.id}
                    if n.succ and all(s is self.raise_exit for s, _ in n.succ):
                        new = set(allids)
                else:
                    new = set.intersection(*(pdom[s.id] for s in succs)) | {n.id}
                if new != pdom[n.id]:
                    pdom[n.id] = new
                    changed = True
        self._pdom = pdom
        return pdom

    def postdominates(self, a, b):
        """Every path from b to the normal exit passes through a."""
        return a.id in self.postdominators()[b.id]

    def all_paths_pass(self, pred):
        """True when every entry->exit path contains a node satisfying pred."""
        seen = set()
        stack = [self.entry]
        while stack:
            n = stack.pop()
            if n.id in seen:
                continue
            seen.add(n.id)
            if n is self.exit:
                return False
            if n is not self.entry and pred(n):
                continue
            for s, _ in n.succ:
                stack.append(s)
        return True

    def path_avoiding(self, pred, start=None):
        """A list of nodes entry->exit that avoids every node satisfying pred,
        or None."""
        start = start or self.entry
        prev = {start.id: None}
        stack = [start]
        while stack:
            n = stack.pop()
            if n is self.exit:
                out = []
                cur = n
                while cur is not None:
                    out.append(cur)
                    cur = prev[cur.id]
                return list(reversed(out))
            for s, _ in n.succ:
                if s.id in prev:
                    continue
                if s is not self.exit and pred(s):
                    continue
                prev[s.id] = n
                stack.append(s)
        return None

    def reachable(self):
        seen = {self.entry.id}
        stack = [self.entry]
        while stack:
            n = stack.pop()
            for s, _ in n.succ:
                if s.id not in seen:
                    seen.add(s.id)
                    stack.append(s)
        return seen

    # -------------------------------------------------------- node of an ast
    def node_of(self, astnode, parent_map):
        """CFG node whose statement/test contains ``astnode``."""
        cur = astnode
        while cur is not None:
            if cur in self.of_stmt:
                n = self.of_stmt[cur]
                # For compound statements the recorded node is the test/iter
                # node; an inner node of the *body* will have hit its own stmt
                # first, so reaching here means we are in the header.
                return n
            for n in self.nodes:
                if n.ast is cur:
                    return n
            cur = parent_map.get(cur)
        return None

    # ----------------------------------------------------- must-fact dataflow
    def must_facts(self, test_facts, stmt_facts=None, kills=None):
        """Forward must-analysis.

        test_facts(test_ast, truth) -> iterable of facts holding on that edge
        stmt_facts(node)            -> facts generated by executing the node
        kills(node)                 -> names (re)bound by the node; a fact
                                       mentioning one of them is removed
        A fact is a tuple whose remaining items are strings (names/texts);
        fact_names(fact) gives the variable names it depends on.
        Returns dict node.id -> frozenset(facts) holding *before* the node.
        """
        TOP = None
        IN = {n.id: TOP for n in self.nodes}
        IN[self.entry.id] = frozenset()
        work = [self.entry]
        while work:
            n = work.pop()
            cur = IN[n.id]
            if cur is TOP:
                continue
            killed = set(kills(n)) if kills else set(defs_of_node(n))
            base = frozenset(f for f in cur if not (fact_names(f) & killed))
            if stmt_facts:
                base = base | frozenset(stmt_facts(n, base))
            for s, label in n.succ:
                out = base
                if n.kind == "test" and label in ("T", "F"):
                    out = out | frozenset(test_facts(n.ast, label == "T", base))
                if n.kind == "for" and label == "T":
                    out = out | frozenset(test_facts(n.ast, True, base))
                if n.kind == "for" and label == "F":
                    out = out | frozenset(test_facts(n.ast, False, base))
                old = IN[s.id]
                new = out if old is TOP else (old & out)
                if new != old:
                    IN[s.id] = new
                    work.append(s)
        return {k: (v if v is not None else frozenset()) for k, v in IN.items()}

    # --------------------------------------------------- reaching definitions
    def reaching_defs(self, params=()):
        """May-analysis.  Returns dict node.id -> {var: frozenset(def node ids)}
        holding before the node.  Definition id -1 denotes the parameter /
        free-variable binding at entry."""
        IN = {n.id: None for n in self.nodes}
        IN[self.entry.id] = {}
        work = [self.entry]
        while work:
            n = work.pop()
            cur = IN[n.id]
            out = dict(cur)
            for v in defs_of_node(n):
                out[v] = frozenset([n.id])
            for s, _ in n.succ:
                old = IN[s.id]
                if old is None:
                    IN[s.id] = dict(out)
                    work.append(s)
                else:
                    changed = False
                    for v, ds in out.items():
                        o = old.get(v)
                        if o is None:
                            # variable undefined on the other path: entry binding
                            old[v] = ds | frozenset([-1])
                            changed = True
                        elif not ds <= o:
                            old[v] = o | ds
                            changed = True
                    for v in list(old):
                        if v not in out and -1 not in old[v]:
                            old[v] = old[v] | frozenset([-1])
                            changed = True
                    if changed:
                        work.append(s)
        return {k: (v or {}) for k, v in IN.items()}


def fact_names(fact):
    out = set()
    for item in fact[1:]:
        if isinstance(item, str):
            out.update(_names_in_text(item))
        elif isinstance(item, (tuple, frozenset)):
            for x in item:
                if isinstance(x, str):
                    out.update(_names_in_text(x))
    return out


_name_cache = {}


def _names_in_text(text):
    r = _name_cache.get(text)
    if r is None:
        try:
            tree = ast.parse(text, mode="eval")
            r = frozenset(n.id for n in ast.walk(tree) if isinstance(n, ast.Name))
        except SyntaxError:
            r = frozenset([text])
        _name_cache[text] = r
    return r


def walrus_targets(expr):
    if expr is None:
        return
    for n in ast.walk(expr):
        if isinstance(n, ast.NamedExpr):
            yield n.target.id


def defs_of_node(n):
    """Names (re)bound by executing CFG node ``n``."""
    a = n.ast
    out = []
    if a is None:
        return out
    if n.kind == "for":
        out += list(assigned_names(a.target))
        return out
    if n.kind == "with":
        for item in a.items:
            if item.optional_vars is not None:
                out += list(assigned_names(item.optional_vars))
            out += list(walrus_targets(item.context_expr))
        return out
    if n.kind == "handler":
        if a.name:
            out.append(a.name)
        return out
    if n.kind in ("test", "iter"):
        return list(walrus_targets(a))
    if isinstance(a, ast.Assign):
        for t in a.targets:
            out += list(assigned_names(t))
        out += list(walrus_targets(a.value))
    elif isinstance(a, ast.AugAssign):
        out += list(assigned_names(a.target))
    elif isinstance(a, ast.AnnAssign) and a.value is not None:
        out += list(assigned_names(a.target))
    elif isinstance(a, (ast.FunctionDef, ast.ClassDef)):
        out.append(a.name)
    elif isinstance(a, (ast.Import, ast.ImportFrom)):
        for al in a.names:
            out.append((al.asname or al.name).split(".")[0])
    elif isinstance(a, ast.Delete):
        for t in a.targets:
            out += list(assigned_names(t))
    elif isinstance(a, (ast.Expr, ast.Return)):
        out += list(walrus_targets(a.value))
    return out


_cfg_cache = {}


def cfg_of(fn):
    key = id(fn.node)
    c = _cfg_cache.get(key)
    if c is None or c.fnode is not fn.node:
        c = CFG(fn.node)
        _cfg_cache[key] = c
    return c
