"""E5 -- signatures, forwarding, option liveness, override compatibility."""
import ast
from .model import body_nodes, src, FunctionInfo
from .cfg import cfg_of


def sig(fn, drop_first=False):
    """Comparable signature record: (positional names, kw-only names, vararg, kwarg, defaults as text)."""
    params = list(fn.params)
    if drop_first and params:
        params = params[1:]
    return {
        "params": params,
        "kwonly": list(fn.kwonly),
        "vararg": fn.vararg,
        "kwarg": fn.kwarg,
        "defaults": {k: " ".join(src(v).split()) for k, v in fn.defaults.items()},
    }


def name_uses(fn, name, include_nested=True):
    """Load occurrences of local ``name`` in fn (nested defs that do not
    rebind it included)."""
    out = []
    for n in body_nodes(fn.node):
        if isinstance(n, ast.Name) and n.id == name and isinstance(n.ctx, ast.Load):
            out.append(n)
    if include_nested:
        for sub in fn.nested.values():
            if name not in sub.all_params:
                out += name_uses(sub, name, True)
    return out


def forwarded(call, pname, position=None):
    """How parameter ``pname`` reaches ``call``: 'kw' (name=pname), 'pos',
    'star' (*pname / **pname), or None."""
    for k in call.keywords:
        if k.arg == pname and isinstance(k.value, ast.Name) and k.value.id == pname:
            return "kw"
        if k.arg is None and isinstance(k.value, ast.Name) and k.value.id == pname:
            return "star"
    for i, a in enumerate(call.args):
        if isinstance(a, ast.Name) and a.id == pname and (position is None or i == position):
            return "pos"
        if isinstance(a, ast.Starred) and isinstance(a.value, ast.Name) and a.value.id == pname:
            return "star"
    return None


def keyword_value(call, pname):
    for k in call.keywords:
        if k.arg == pname:
            return k.value
    return None


def accepts_keyword(fn, name):
    return name in fn.params or name in fn.kwonly or fn.kwarg is not None


def param_is_live(repo, fn, pname):
    """A parameter is live when some load of it exists that is not merely a
    rebinding of itself to a constant (a dropped option is dropped for every
    value).  Returns (live, uses)."""
    uses = name_uses(fn, pname)
    return bool(uses), uses
