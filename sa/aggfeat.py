"""Feature extraction for the aggregation helpers (used by C07, C08, C04)."""
import ast
from .model import AnalysisError, body_nodes, src
from .common import calls_in, norm, kw
from .facts import facts_at

AGG = "dataiter.aggregate"
HELPERS = ["all", "any", "count", "count_unique", "max", "mean", "median", "min", "mode", "nth", "quantile",
           "std", "sum", "var"]
DELEGATING = {"first": 0, "last": -1}


def norm_default(e):
    if e is None:
        return None
    t = norm(e)
    if t in ("np.nan", "float('nan')", "math.nan", "nan"):
        return "nan"
    if t.endswith(".na_value"):
        return "NA"
    if t in ("True", "False", "0", "None", "0.0"):
        return t
    return t


def threshold_of(expr):
    """For `A if len(v) >= k else D` return (A, v, k, D); for a plain expression (expr, None, 0, None)."""
    if isinstance(expr, ast.IfExp) and isinstance(expr.test, ast.Compare) and len(expr.test.ops) == 1:
        t = expr.test
        l, op, r = t.left, t.ops[0], t.comparators[0]
        if isinstance(l, ast.Call) and isinstance(l.func, ast.Name) and l.func.id == "len" and isinstance(r, ast.Constant):
            v = norm(l.args[0])
            k = r.value
            if isinstance(op, ast.GtE):
                return expr.body, v, k, expr.orelse
            if isinstance(op, ast.Gt):
                return expr.body, v, k + 1, expr.orelse
            if isinstance(op, ast.Lt):
                return expr.orelse, v, k, expr.body
            if isinstance(op, ast.LtE):
                return expr.orelse, v, k + 1, expr.body
    return expr, None, 0, None


def _len_threshold(fact):
    """(var, k) when the fact says len(var) >= k, else None."""
    k, t = fact
    if k != "T":
        return None
    try:
        e = ast.parse(t, mode="eval").body
    except SyntaxError:
        return None
    if isinstance(e, ast.Compare) and len(e.ops) == 1 and isinstance(e.left, ast.Call) and isinstance(e.left.func, ast.Name) \
            and e.left.func.id == "len" and e.left.args:
        cmpv = e.comparators[0]
        v, op = norm(e.left.args[0]), e.ops[0]
        if isinstance(cmpv, ast.Constant) and isinstance(cmpv.value, int):
            c = cmpv.value
            if isinstance(op, ast.GtE):
                return v, c
            if isinstance(op, ast.Gt):
                return v, c + 1
        elif isinstance(cmpv, ast.Name) and isinstance(op, ast.GtE):
            return v, cmpv.id
    return None


def _len_below(fact):
    k, t = fact
    if k != "T":
        return None
    try:
        e = ast.parse(t, mode="eval").body
    except SyntaxError:
        return None
    if isinstance(e, ast.Compare) and len(e.ops) == 1 and isinstance(e.left, ast.Call) and isinstance(e.left.func, ast.Name) \
            and e.left.func.id == "len" and e.left.args:
        cmpv = e.comparators[0]
        v, op = norm(e.left.args[0]), e.ops[0]
        if isinstance(cmpv, ast.Constant) and isinstance(cmpv.value, int):
            c = cmpv.value
            if isinstance(op, ast.Lt):
                return v, c
            if isinstance(op, ast.LtE):
                return v, c + 1
        elif isinstance(cmpv, ast.Name) and isinstance(op, ast.Lt):
            return v, cmpv.id
    return None


def threshold_cases(cases):
    """cases: [(leaf_expr, facts)].  Returns (stat_leaf, var, k, default_leaf) like threshold_of, whatever the
    syntactic form (conditional expression, if/else, guard clause)."""
    def best(xs):
        ints = [x[1] for x in xs if isinstance(x[1], int)]
        syms = [x[1] for x in xs if not isinstance(x[1], int)]
        return syms[0] if syms else (max(ints) if ints else 0)
    if len(cases) == 1:
        leaf, f = cases[0]
        th = [x for x in map(_len_threshold, f) if x]
        return leaf, (th[0][0] if th else None), best(th), None
    if len(cases) != 2:
        return None
    stat, dflt, var, k, kb = None, None, None, 0, None
    rest = []
    for leaf, f in cases:
        th = [x for x in map(_len_threshold, f) if x and (not isinstance(x[1], int) or x[1] >= 1)]
        be = [x for x in map(_len_below, f) if x]
        if th and not be:
            stat, var, k = leaf, th[0][0], best(th)
        elif be:
            dflt, kb, var = leaf, best(be), (var or be[0][0])
        else:
            rest.append(leaf)
    if dflt is not None and stat is None and len(rest) == 1:
        # guard clause `if len(x) < k: return default` followed by the statistic (facts about x may have been
        # killed by a rebinding of x in between)
        stat, k = rest[0], kb
    if stat is None or dflt is None:
        return None
    return stat, var, k, dflt


def _is_conversion_helper(repo, fn, call):
    """f(v) where the package function f is `return v.item() if isinstance(v, np.generic) else v` (or `return v.item()`)."""
    r = repo.resolve_call(fn, call)
    if r[0] != "pkg" or len(r[1]) != 1:
        return False
    h = r[1][0]
    body = [s_ for s_ in h.node.body if not (isinstance(s_, ast.Expr) and isinstance(s_.value, ast.Constant))]
    if len(h.params) != 1 or len(body) != 1 or not isinstance(body[0], ast.Return) or body[0].value is None:
        return False
    v, p = body[0].value, h.params[0]
    if isinstance(v, ast.Call) and isinstance(v.func, ast.Attribute) and v.func.attr == "item" and norm(v.func.value) == p:
        return True
    return isinstance(v, ast.IfExp) and norm(v.orelse) == p and isinstance(v.body, ast.Call) and isinstance(v.body.func, ast.Attribute) \
        and v.body.func.attr == "item" and norm(v.body.func.value) == p and ("isinstance(" in norm(v.test) or "hasattr(" in norm(v.test))


def stat_name(repo, fn, expr):
    """Identify the statistic computed by an expression: dotted numpy name, 'len', 'len(set)', 'mode1', 'index'."""
    e = expr
    # strip conversions of the result that do not change which statistic it is: E.item(), and the guarded form
    # `V.item() if isinstance(V, np.generic) else V` (elements of string / object vectors have no .item())
    for _ in range(4):
        if isinstance(e, ast.Call) and isinstance(e.func, ast.Attribute) and e.func.attr == "item" and not e.args:
            e = e.func.value
        elif isinstance(e, ast.IfExp) and isinstance(e.body, ast.Call) and isinstance(e.body.func, ast.Attribute) and e.body.func.attr == "item" \
                and norm(e.body.func.value) == norm(e.orelse) and norm(e.orelse) in norm(e.test) and ("isinstance(" in norm(e.test) or "hasattr(" in norm(e.test)):
            e = e.orelse
        elif isinstance(e, ast.Call) and len(e.args) == 1 and not e.keywords and fn is not None and _is_conversion_helper(repo, fn, e):
            e = e.args[0]          # item(np.amax(x)): a package helper that only converts its argument
        elif isinstance(e, ast.Name) and fn is not None:
            from .forms import expand as _expand_sn
            r = _expand_sn(fn, e, e)
            if isinstance(r, ast.Name):
                break
            e = r
        else:
            break
    if isinstance(e, ast.Call):
        d = repo.dotted(fn, e.func)
        if d == "builtins.len" and e.args:
            a = e.args[0]
            if isinstance(a, ast.Call) and repo.dotted(fn, a.func) in ("builtins.set", "numpy.unique"):
                return "count_unique", {}
            return "len", {}
        if d:
            kws = {k.arg: norm(k.value) for k in e.keywords if k.arg}
            extra = [norm(a) for a in e.args[1:]]
            return d.replace("dataiter.aggregate.", ""), dict(kws, _pos=extra) if (kws or extra) else {}
    if isinstance(e, ast.Subscript):
        return "index", {"_idx": norm(e.slice)}
    return norm(e), {}


class HelperRecord:
    pass


def vector_form(repo, fn):
    """Record of the vector calling form (the part of the helper after the `if isinstance(x, str)` block)."""
    rec = {"handle_na": None, "k": None, "d": None, "stat": None, "len_after_na": True, "why": []}
    x = fn.params[0]
    top = []
    for s in fn.node.body:
        if isinstance(s, ast.Expr) and isinstance(s.value, ast.Constant):
            continue
        if isinstance(s, ast.If) and norm(s.test) == f"isinstance({x}, str)":
            top += list(s.orelse)
            continue
        if isinstance(s, ast.If) and norm(s.test) == f"not isinstance({x}, str)":
            # the inverted layout: the vector form is the guarded block, the group-aware closure follows it
            top += list(s.body)
            from .canon import _always_returns
            if _always_returns(s.body):
                break
            continue
        if isinstance(s, ast.If) and "isinstance(x, str)" in norm(s.test):
            continue
        top.append(s)
    na_line = None
    for s in top:
        for n in ast.walk(s):
            if isinstance(n, ast.Call) and norm(n.func) == "handle_na":
                rec["handle_na"] = [norm(a) for a in n.args]
                par = fn.module.parent.get(n)
                rec["handle_na_assigned"] = isinstance(par, ast.Assign) and norm(par.targets[0]) == x
                na_line = n.lineno
    rets = []
    for s in top:
        for n in ast.walk(s):
            if isinstance(n, ast.Return):
                rets.append(n)
    # every len(x) test at top level must come after handle_na
    for s in top:
        for n in ast.walk(s):
            if isinstance(n, ast.Call) and isinstance(n.func, ast.Name) and n.func.id == "len" and n.args and norm(n.args[0]) == x:
                if na_line is not None and n.lineno < na_line:
                    rec["len_after_na"] = False
    tries = [s for s in top if isinstance(s, ast.Try)]
    if tries:
        t = tries[0]
        body_ret = [n for n in t.body if isinstance(n, ast.Return)]
        h = t.handlers[0] if t.handlers else None
        h_ret = [n for n in (h.body if h else []) if isinstance(n, ast.Return)]
        if body_ret and h_ret and h is not None and norm(h.type) == "IndexError":
            rec["stat"] = stat_name(repo, fn, body_ret[0].value)
            rec["k"] = 1
            rec["d"] = norm_default(h_ret[0].value)
            return rec
    if not rets:
        raise AnalysisError(f"{fn.qualname}: no return in the vector form")
    from .forms import value_cases
    x0 = fn.params[0]
    cases = [(leaf, f) for node, leaf, f in value_cases(fn, "return")
             if not any(k == "T" and t == f"isinstance({x0}, str)" for k, t in f) and any(node is r for r in rets)]
    # several implementations of the SAME statistic chosen by a test that says nothing about the length (a vectorised
    # shortcut for some dtypes next to the general form) are one case
    free = [c for c in cases if not any(_len_threshold(f_) or _len_below(f_) for f_ in c[1])]
    if len(free) >= 2 and len({stat_name(repo, fn, leaf)[0] for leaf, _ in free}) == 1:
        cases = [c for c in cases if c not in free[:-1]]
    tc = threshold_cases(cases)
    if tc is None:
        raise AnalysisError(f"{fn.qualname}: cannot read threshold/default of the vector form from its {len(cases)} return case(s)")
    body, v, k, d = tc
    rec["stat"] = stat_name(repo, fn, body)
    rec["k"] = k
    rec["d"] = norm_default(d)
    rec["thr_var"] = v
    return rec


def python_kernel_record(repo, fn):
    """Threshold/default/statistic of a python apply-kernel (generator with one yield per group)."""
    ys = [n for n in body_nodes(fn.node) if isinstance(n, ast.Yield)]
    rec = {"k": 0, "d": None, "stat": None, "groups": None, "params": list(fn.params)}
    loops = [n for n in body_nodes(fn.node) if isinstance(n, ast.For)]
    for l in loops:
        if isinstance(l.iter, ast.Call) and norm(l.iter.func).startswith("yield_groups"):
            rec["groups"] = (norm(l.iter.func), [norm(a) for a in l.iter.args])
    tries = [n for n in body_nodes(fn.node) if isinstance(n, ast.Try)]
    if tries and tries[0].handlers and norm(tries[0].handlers[0].type) == "IndexError":
        by = [n for n in ast.walk(tries[0]) if isinstance(n, ast.Yield)]
        rec["stat"] = stat_name(repo, fn, by[0].value)
        rec["k"] = 1
        rec["d"] = norm_default(by[-1].value)
        return rec
    from .forms import value_cases, split_ifexp
    if not ys:
        # the kernel returns a generator expression over the groups instead of yielding in a loop
        from .forms import expand as _expand_k
        gens = []
        for n in body_nodes(fn.node):
            if isinstance(n, ast.Return) and isinstance(n.value, ast.GeneratorExp) and len(n.value.generators) == 1 \
                    and not n.value.generators[0].ifs:
                it = _expand_k(fn, n.value.generators[0].iter, n)
                if isinstance(it, ast.Call) and norm(it.func).startswith("yield_groups"):
                    gens.append((n.value, it))
        if len(gens) != 1:
            raise AnalysisError(f"{fn.qualname}: python kernel without yield")
        g, it = gens[0]
        rec["groups"] = (norm(it.func), [norm(a) for a in it.args])
        from .facts import close_under_negation as _closed
        cases = [(leaf, frozenset(_closed(f))) for leaf, f in split_ifexp(g.elt)]
    else:
        cases = [(leaf, f) for node, leaf, f in value_cases(fn, "yield")]
    # a positional kernel written without try/except IndexError: one yield whose value selects an element of the group
    # by the index parameter.  Decided exactly by interpreting the (temporaries-expanded) expression on lists of every
    # small length for every ordering of the index (sa/intpred.py).
    if len(ys) == 1 and "index" in fn.all_params and rec["groups"] is not None:
        from .forms import expand
        from .intpred import selects_like_indexing
        loopvar = None
        for l in loops:
            if isinstance(l.iter, ast.Call) and norm(l.iter.func).startswith("yield_groups") and isinstance(l.target, ast.Name):
                loopvar = l.target.id
        if loopvar is not None and ys[0].value is not None:
            e = expand(fn, ys[0].value, ys[0], keep=(loopvar, "index"))
            if any(isinstance(n, ast.Name) and n.id == "index" for n in ast.walk(e)):
                verdict, wit = selects_like_indexing(e, "index", loopvar)
                if verdict is not None:
                    rec["stat"] = ("index", {"_idx": "index"})
                    rec["k"] = 1
                    rec["d"] = "None"
                    rec["positional"] = (verdict, wit, norm(e))
                    return rec
    tc = threshold_cases(cases)
    if tc is None:
        raise AnalysisError(f"{fn.qualname}: cannot read threshold/default of the python kernel from its {len(cases)} yield case(s)")
    body, v, k, d = tc
    rec["stat"] = stat_name(repo, fn, body)
    rec["k"] = k
    rec["d"] = norm_default(d)
    return rec


def numba_kernel_record(repo, fn):
    """Same for the numba twin (out.append(...) per group)."""
    rec = {"k": 0, "d": None, "stat": None, "groups": None, "params": list(fn.params)}
    loops = [n for n in body_nodes(fn.node) if isinstance(n, ast.For)]
    main = None
    for l in loops:
        if isinstance(l.iter, ast.Call) and norm(l.iter.func).startswith("yield_groups"):
            rec["groups"] = (norm(l.iter.func), [norm(a) for a in l.iter.args])
            main = l
    if main is None:
        raise AnalysisError(f"{fn.qualname}: numba kernel does not iterate yield_groups_numba")
    rets = [n for n in body_nodes(fn.node) if isinstance(n, ast.Return) and isinstance(n.value, ast.Name)]
    acc = rets[-1].value.id if rets else "out"
    apps = [n for n in ast.walk(main) if isinstance(n, ast.Call) and isinstance(n.func, ast.Attribute) and n.func.attr == "append"
            and norm(n.func.value) == acc]
    from .forms import split_ifexp
    from .facts import facts_at
    cases = []
    for ap in apps:
        base = frozenset(facts_at(fn, ap))
        from .facts import close_under_negation
        for leaf, f in split_ifexp(ap.args[0]):
            cases.append((leaf, frozenset(close_under_negation(base | f))))
    tc = threshold_cases(cases)
    if tc is not None:
        body, v, k, d = tc
        rec["stat"] = stat_name(repo, fn, body)
        rec["k"], rec["d"] = k, norm_default(d)
        return rec
    if len(cases) == 2:
        # explicit bounds test (nth): in range -> value, else -> default
        vals = [c for c in cases if not (isinstance(c[0], ast.Constant) and c[0].value is None)]
        dfl = [c for c in cases if isinstance(c[0], ast.Constant) and c[0].value is None]
        if len(vals) == 1 and len(dfl) == 1:
            rec["k"] = 1
            rec["d"] = norm_default(dfl[0][0])
            rec["stat"] = stat_name(repo, fn, vals[0][0])
            rec["test"] = sorted(t for k_, t in vals[0][1] if k_ == "T" and "index" in t)
            return rec
    raise AnalysisError(f"{fn.qualname}: cannot recognise the per-group result of the numba kernel")


LIB_DEFAULTS = {"numpy.std": {"ddof": 0}, "numpy.var": {"ddof": 0}}     # NumPy: ddof=0 is the default of std/var


def group_form(repo, fn):
    """Record of the group-wise closure of helper ``fn``."""
    clo = fn.nested.get("aggregate")
    if clo is None:
        raise AnalysisError(f"{fn.qualname}: no group-wise closure 'aggregate'")
    rec = {"closure": clo, "default_attr": None, "kernel": None, "k": None, "d": None, "stat": None,
           "drop_na": None, "pairs": [], "data_arg": None, "group_arg": None}
    for n in body_nodes(clo.node):
        if isinstance(n, ast.Assign) and norm(n.targets[0]) == "aggregate.default":
            rec["default_attr"] = norm_default(n.value)
            rec["default_node"] = n
        if isinstance(n, ast.Assign) and isinstance(n.value, ast.Tuple) and len(n.value.elts) == 2 \
                and isinstance(n.targets[0], ast.Name) and all(isinstance(e, ast.Name) for e in n.value.elts):
            rec["pairs"].append((norm(n.value.elts[0]), norm(n.value.elts[1]), n))
    rets = [n for n in body_nodes(clo.node) if isinstance(n, ast.Return)]
    if len(rets) != 1 or not isinstance(rets[0].value, ast.Call):
        raise AnalysisError(f"{clo.qualname}: expected a single `return f(...)`")
    call = rets[0].value
    rec["call"] = call
    from .forms import expand as _expand_af
    _x = lambda e: norm(_expand_af(clo, e, call))
    rec["data_arg"] = _x(call.args[0]) if call.args else None
    rec["group_arg"] = _x(call.args[1]) if len(call.args) > 1 else None
    rec["extra_args"] = [_x(a) for a in call.args[2:]]
    dn = kw(call, "drop_na")
    rec["drop_na"] = _x(dn) if dn is not None else None
    # which function is bound in generic(...)?
    bound = []
    from .facts import facts_at as _facts_at

    def implied(stat, kws, node):
        """An extra parameter of the helper that is not passed on is still honoured where the branch is taken only
        for the library's own default of that parameter (std/var: `if ddof == 0` -> np.std(x) is np.std(x, ddof=0))."""
        out = dict(kws)
        for p_, dflt in LIB_DEFAULTS.get(stat, {}).items():
            if p_ in out or p_ not in (fn.kwonly + fn.params):
                continue
            if any(k == "T" and t in (f"{p_} == {dflt}", f"{dflt} == {p_}") for k, t in _facts_at(clo, node)) or \
                    any(k == "F" and t in (f"{p_} != {dflt}", f"{dflt} != {p_}") for k, t in _facts_at(clo, node)):
                out[p_] = p_
        return out
    for n in body_nodes(clo.node):
        if isinstance(n, ast.Call) and isinstance(n.func, ast.Call) and norm(n.func.func) == "select" and n.args:
            st = repo.dotted(clo, n.args[0]) or norm(n.args[0])
            bound.append((st, implied(st, {}, n)))
        if isinstance(n, ast.Call) and norm(n.func) in ("generic", "generic_numba") and n.args:
            st = repo.dotted(clo, n.args[0]) or norm(n.args[0])
            bound.append((st, implied(st, {k.arg: norm(k.value) for k in n.keywords}, n)))
    if bound:
        rec["kernel"] = "generic"
        rec["stat"] = bound
        d = kw(call, "default")
        nr = kw(call, "nrequired")
        rec["kernel_default"] = norm_default(d)
        rec["k"] = nr.value if isinstance(nr, ast.Constant) else None
    else:
        if not rec["pairs"]:
            raise AnalysisError(f"{clo.qualname}: neither generic nor a (python, numba) kernel pair")
        pair = rec["pairs"][0]
        pyname = pair[0] if not pair[0].endswith("_numba") else pair[1]
        py = repo.functions.get(f"{AGG}.{pyname}")
        if py is None:
            raise AnalysisError(f"{clo.qualname}: kernel {pyname} not found")
        kr = python_kernel_record(repo, py)
        rec["kernel"] = py.name
        rec["stat"] = [(kr["stat"][0], kr["stat"][1])]
        rec["k"] = kr["k"]
        rec["kernel_default"] = kr["d"]
        rec["positional"] = kr.get("positional")
    kd = rec["kernel_default"]
    rec["d"] = rec["default_attr"] if kd in (None, "None") else kd
    return rec
