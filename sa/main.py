"""Entry point: ./vcheck <ID> [--tier quick|thorough] [--repo DIR] [--replay FILE]"""
import argparse
import importlib
import json
import os
import sys
import time
import traceback

from .model import Repo, AnalysisError
from . import report


def run_property(pid, repo_root, tier, overlay=None, write=True, quiet=False):
    mod = importlib.import_module(f"sa.props.{pid}")
    repo = Repo(repo_root, overlay=overlay)
    ctx = report.Context(pid, repo, tier)
    report.run_check(mod, ctx)
    return ctx, mod


def main(argv=None):
    ap = argparse.ArgumentParser(prog="vcheck")
    ap.add_argument("prop")
    ap.add_argument("--tier", default=os.environ.get("VERIF_TIER", "quick"), choices=["quick", "thorough"])
    ap.add_argument("--repo", default="/repo")
    ap.add_argument("--replay")
    ap.add_argument("--no-write", action="store_true")
    args = ap.parse_args(argv)
    seed = int(os.environ.get("VERIF_SEED", "0") or 0)
    t0 = time.time()
    pid = args.prop
    try:
        if pid == "selftest":
            from . import variants
            return variants.selftest(args.repo)
        ctx, mod = run_property(pid, args.repo, args.tier)
        if args.replay:
            with open(args.replay) as f:
                want = json.load(f)
            hits = [o for o in ctx.obligations if o.key == want["key"]]
            if not hits:
                print(f"replay: obligation {want['key']} no longer exists on this tree "
                      f"(construct changed); current verdicts for the function:")
                for o in ctx.obligations:
                    if o.function == want["function"] and o.rule == want["rule"]:
                        print(f"  {o.verdict}: {o.construct}")
                return 0
            bad = [o for o in hits if o.verdict == report.VIOLATED]
            for o in hits:
                print(f"replay: {o.loc}: {o.rule}: {o.function}: {o.construct}: {o.verdict}\n    {o.why}")
            if bad:
                print(f"VIOLATION property={pid} replay={args.replay}")
                return 1
            return 0
        variants_info = None
        if args.tier == "thorough":
            from . import variants
            variants_info = variants.sweep(pid, args.repo, ctx, seed)
        code = report.finalize(ctx, t0, seed, mod.EXPLANATION, mod.ASSUMPTIONS,
                               write=not args.no_write, variants=variants_info)
        n = len([o for o in ctx.obligations if o.verdict != report.NOTE])
        d = len([o for o in ctx.obligations if o.verdict == report.DISCHARGED])
        print(f"{pid}: {d}/{n} obligations discharged over {len(ctx.analysed_functions)} functions "
              f"({', '.join(f'{k}={c}' for k, (c, m) in ctx.counts.items())})"
              + (f"; variants {variants_info['reported']}/{variants_info['generated']} reported"
                 if variants_info else ""))
        return code
    except AnalysisError as e:
        print(f"ANALYSIS-ERROR property={pid}: {e}")
        return 2
    except Exception:
        traceback.print_exc()
        print(f"ANALYSIS-ERROR property={pid}: internal exception (see traceback)")
        return 2


if __name__ == "__main__":
    sys.exit(main())
