"""Dtype-class dataflow: which element-type classes a Vector-valued local may have at each point.

A forward may-analysis over the statement CFG for ONE tracked variable.  The abstract value is the
set of dtype classes the variable may belong to; branch edges refine it through the repository's own
``is_*`` predicates (their meaning is checked against the dtype table by C10/SPEC), assignments apply
a transfer table.  Rules then judge value-transforming operations (unary minus, bitwise complement,
lossy conversions) by the classes that can reach them: an operation is an order embedding (or an
order reversal) only on some classes.

Classes
  B bool   I signed integer   U unsigned integer   F float   C complex   SF fixed-width string
  SV variable-width string   BY bytes   DT datetime64   TD timedelta64   O object
  R  a rank() result: int64 in [1, n]  (negation cannot overflow, conversion to float is exact)
"""
import ast
from .cfg import cfg_of
from .facts import norm

ALL = frozenset("B I U F C SF SV BY DT TD O".split())
TOP = ALL | {"R"}

PRED = {
    "is_boolean": {"B"}, "is_bytes": {"BY"}, "is_datetime": {"DT"}, "is_float": {"F"},
    # NumPy's scalar hierarchy: timedelta64 is a subclass of signedinteger, so issubdtype(timedelta64, np.integer)
    # and issubdtype(timedelta64, np.number) are True (datetime64 and bool_ are not numbers)
    "is_integer": {"I", "U", "R", "TD"}, "is_number": {"I", "U", "F", "C", "R", "TD"}, "is_object": {"O"},
    "is_string": {"SF", "SV"}, "is_timedelta": {"TD"}, "_is_string_fixed": {"SF"},
    "_is_string_variable": {"SV"},
}

# operations on the tracked value -> classes on which the operation keeps the order information
# (strictly monotone, increasing or decreasing, and total: no wrap-around, overflow or rounding)
SAFE = {
    "neg": {"F", "C", "TD", "R"},          # -x: wraps on U, overflows at the minimum of I, TypeError elsewhere
    "invert": {"I", "U", "R", "B"},        # ~x: exact order reversal on every integer width and on bool
    "as_float": {"B", "F", "R"},           # rounding above 2**53 merges distinct integers
    "as_integer": {"B", "I", "R"},           # uint64 values >= 2**63 wrap to negative numbers
    "as_boolean": {"B"},
    "as_string": {"SF", "SV"},
    "as_object": TOP,
    # np.diff(x) >= 0 as a sortedness test: the difference wraps around on unsigned integers (and on signed ones at the
    # extremes), is a logical xor on booleans, and overflows likewise on the int64-backed datetime/timedelta types
    "diff": {"F", "R"},
}


KIND_CLASSES = {"b": {"B"}, "i": {"I", "R"}, "u": {"U"}, "f": {"F"}, "c": {"C"}, "M": {"DT"}, "m": {"TD"}, "U": {"SF"}, "T": {"SV"},
                "S": {"BY"}, "O": {"O"}}
# np.issubdtype(x.dtype, T): NumPy's scalar hierarchy (timedelta64 is a signedinteger; bool_ and datetime64 are not numbers)
SUBDTYPE_CLASSES = {"integer": {"I", "U", "TD", "R"}, "signedinteger": {"I", "TD", "R"}, "unsignedinteger": {"U"},
                    "floating": {"F"}, "complexfloating": {"C"}, "inexact": {"F", "C"}, "number": {"I", "U", "F", "C", "TD", "R"},
                    "bool_": {"B"}, "datetime64": {"DT"}, "timedelta64": {"TD"}, "str_": {"SF"}, "bytes_": {"BY"}, "object_": {"O"},
                    "int64": {"I", "R"}, "float64": {"F"}, "uint64": {"U"}}


def _pred_of(test, var):
    """(classes, True) when ``test`` is var.is_X()."""
    # var.dtype.kind in "biu" / == "f"
    if isinstance(test, ast.Compare) and len(test.ops) == 1 and norm(test.left) == f"{var}.dtype.kind" \
            and isinstance(test.ops[0], (ast.In, ast.Eq)):
        rhs = test.comparators[0]
        codes = None
        if isinstance(rhs, ast.Constant) and isinstance(rhs.value, str):
            codes = list(rhs.value) if isinstance(test.ops[0], ast.In) else [rhs.value]
        elif isinstance(rhs, (ast.Tuple, ast.List, ast.Set)) and all(isinstance(e, ast.Constant) and isinstance(e.value, str) for e in rhs.elts):
            codes = [e.value for e in rhs.elts]
        if codes is not None and all(c in KIND_CLASSES for c in codes):
            out = set()
            for c in codes:
                out |= KIND_CLASSES[c]
            return frozenset(out)
    # np.issubdtype(var.dtype, np.integer)
    if isinstance(test, ast.Call) and norm(test.func) in ("np.issubdtype", "numpy.issubdtype") and len(test.args) == 2 \
            and norm(test.args[0]) == f"{var}.dtype" and isinstance(test.args[1], ast.Attribute) and test.args[1].attr in SUBDTYPE_CLASSES:
        return frozenset(SUBDTYPE_CLASSES[test.args[1].attr])
    if isinstance(test, ast.Call) and isinstance(test.func, ast.Attribute) and isinstance(test.func.value, (ast.Name, ast.Subscript)) \
            and norm(test.func.value) == var and not test.args and test.func.attr in PRED:
        return frozenset(PRED[test.func.attr])
    return None


_RESOLVER = [None]     # set by analyse()/operations(): maps a Name node used as a test to the pure expression it stands for
_ASSUME_TRUE = [()]    # set by analyse(assume_true=...): expression texts taken to hold for as long as ``var`` is not rebound


def refine(state, test, truth, var):
    """State of ``var`` on the edge where ``test`` evaluates to ``truth``."""
    if isinstance(test, ast.Name) and _RESOLVER[0] is not None:
        e = _RESOLVER[0](test)
        if e is not None:
            return refine(state, e, truth, var)
    if isinstance(test, ast.UnaryOp) and isinstance(test.op, ast.Not):
        return refine(state, test.operand, not truth, var)
    if _ASSUME_TRUE[0] and norm(test) in _ASSUME_TRUE[0]:
        return state if truth else frozenset()
    if isinstance(test, ast.BoolOp):
        conj = isinstance(test.op, ast.And)
        if conj == truth:
            # and/True, or/False: every operand has that truth value
            for v in test.values:
                state = refine(state, v, truth, var)
            return state
        # and/False, or/True: at least one operand -- union of the refinements
        out = frozenset()
        for v in test.values:
            out |= refine(state, v, truth, var)
        return out
    if isinstance(test, ast.Call) and isinstance(test.func, ast.Name) and test.func.id in ("any", "all") and len(test.args) == 1 \
            and isinstance(test.args[0], (ast.Tuple, ast.List)):
        op = ast.Or() if test.func.id == "any" else ast.And()
        return refine(state, ast.BoolOp(op=op, values=list(test.args[0].elts)), truth, var)
    p = _pred_of(test, var)
    if p is not None:
        return state & p if truth else state - p
    return state


def transfer(state, value, var):
    """Classes of ``value`` (an expression that may mention var) given var's state; None when var-independent/unknown."""
    v = value
    if isinstance(v, (ast.Name, ast.Subscript)) and norm(v) == var:
        return state
    if isinstance(v, ast.IfExp):
        a = transfer(refine(state, v.test, True, var), v.body, var)
        b = transfer(refine(state, v.test, False, var), v.orelse, var)
        if a is None or b is None:
            return None
        return a | b
    if isinstance(v, ast.UnaryOp) and isinstance(v.op, (ast.USub, ast.Invert)):
        return transfer(state, v.operand, var)
    if isinstance(v, ast.Call) and isinstance(v.func, ast.Attribute):
        base = transfer(state, v.func.value, var)
        if base is None:
            return None
        a = v.func.attr
        if a in ("copy", "view", "__copy__"):
            return base
        if a == "_optimize_for_argsort":
            return base | ({"SF"} if "SV" in base else set())
        if a == "rank":
            return frozenset({"R"})
        if a == "as_float":
            return frozenset({"F"})
        if a == "as_integer":
            return frozenset({"I"})
        if a == "as_boolean":
            return frozenset({"B"})
        if a == "as_string":
            return frozenset({"SV"})
        if a == "as_object":
            return frozenset({"O"})
        return frozenset(TOP)
    return None


def _make_resolver(fn, var):
    """A boolean local with one pure definition (flag = x.is_integer() and not x.is_timedelta()) stands for that
    expression where it is tested, provided ``var`` has not been rebound in between."""
    from .dataflow import defs_reaching
    from .forms import is_pure_call_free

    def resolver(name_node):
        ds = defs_reaching(fn, name_node.id, name_node)
        if len(ds) != 1 or ds[0].kind != "assign" or ds[0].value is None or not isinstance(ds[0].target, ast.Name):
            return None
        e = ds[0].value
        if not any(isinstance(n, ast.Name) and n.id == var for n in ast.walk(e)):
            return None
        if not is_pure_call_free(e, var):
            return None
        at_def = {id(d.node) for d in defs_reaching(fn, var, ds[0].node.ast)}
        at_use = {id(d.node) for d in defs_reaching(fn, var, name_node)}
        return e if at_def == at_use else None
    return resolver


def analyse(fn, var, init=ALL, assume_true=()):
    """dict cfg-node id -> classes ``var`` may have BEFORE the node (None = unreachable / undefined).
    ``assume_true``: texts of tests about the VALUE var holds (e.g. "column.is_na().any()") explored under the hypothesis
    that they hold -- a conditional world: the edges on which they are false are not taken."""
    cfg = cfg_of(fn)
    _ASSUME_TRUE[0] = tuple(assume_true)
    _RESOLVER[0] = _make_resolver(fn, var) if var.isidentifier() else None
    import re as _re
    root = _re.match(r"[A-Za-z_]\w*", var).group(0)
    IN = {n.id: None for n in cfg.nodes}
    is_param = var.isidentifier() and var in getattr(fn, "all_params", [])
    IN[cfg.entry.id] = frozenset() if (var.isidentifier() and not is_param) else frozenset(init)
    work = [cfg.entry]
    while work:
        n = work.pop()
        cur = IN[n.id]
        if cur is None:
            continue
        out = cur
        a = n.ast
        if n.kind == "stmt" and isinstance(a, ast.Assign) and len(a.targets) == 1 and isinstance(a.targets[0], ast.Name) \
                and a.targets[0].id == var:
            t = transfer(cur, a.value, var)
            out = frozenset(t) if t is not None else frozenset(init)
        elif n.kind == "stmt" and isinstance(a, (ast.AugAssign, ast.AnnAssign)) and isinstance(a.target, ast.Name) and a.target.id == var:
            out = frozenset(TOP)
        elif n.kind == "stmt" and not var.isidentifier() and a is not None and (
                any(isinstance(x, ast.Name) and isinstance(x.ctx, (ast.Store, ast.Del)) and x.id == root for x in ast.walk(a))
                or (isinstance(a, ast.Assign) and any(isinstance(t, ast.Subscript) and norm(t.value) == root for t in a.targets))):
            # the tracked expression (e.g. columns[0]) is rebuilt: nothing is known about it any more
            out = frozenset(init)
        for s, label in n.succ:
            o = out
            if n.kind == "test" and label in ("T", "F"):
                o = refine(out, n.ast, label == "T", var)
            old = IN[s.id]
            new = o if old is None else (old | o)
            if new != old:
                IN[s.id] = new
                work.append(s)
    return cfg, IN


def operations(fn, var, init=ALL):
    """[(ast node, op name, classes reaching the operand)] for every judged operation applied to ``var``."""
    from .model import body_nodes
    from .facts import cfg_node_of
    cfg, IN = analyse(fn, var, init)
    out = []

    def walk(e, state):
        if isinstance(e, ast.IfExp):
            walk(e.test, state)
            walk(e.body, refine(state, e.test, True, var))
            walk(e.orelse, refine(state, e.test, False, var))
            return
        if isinstance(e, ast.BoolOp):
            st = state
            for v in e.values:
                walk(v, st)
                st = refine(st, v, isinstance(e.op, ast.And), var)
            return
        if isinstance(e, ast.UnaryOp) and isinstance(e.op, (ast.USub, ast.Invert)):
            t = transfer(state, e.operand, var)
            if t is not None:
                out.append((e, "neg" if isinstance(e.op, ast.USub) else "invert", frozenset(t)))
        if isinstance(e, ast.BinOp) and isinstance(e.op, (ast.Mult, ast.Sub)):
            # x * -1, -1 * x, 0 - x are negations as well
            l, r = e.left, e.right
            neg1 = lambda z: isinstance(z, ast.UnaryOp) and isinstance(z.op, ast.USub) and isinstance(z.operand, ast.Constant) and z.operand.value == 1
            zero = lambda z: isinstance(z, ast.Constant) and z.value == 0 and not isinstance(z.value, bool)
            target = None
            if isinstance(e.op, ast.Mult) and neg1(r):
                target = l
            elif isinstance(e.op, ast.Mult) and neg1(l):
                target = r
            elif isinstance(e.op, ast.Sub) and zero(l):
                target = r
            if target is not None:
                t = transfer(state, target, var)
                if t is not None:
                    out.append((e, "neg", frozenset(t)))
        if isinstance(e, ast.Call) and norm(e.func) in ("np.diff", "numpy.diff", "np.ediff1d", "numpy.ediff1d") and e.args:
            t = transfer(state, e.args[0], var)
            if t is not None:
                out.append((e, "diff", frozenset(t)))
        if isinstance(e, ast.Call) and isinstance(e.func, ast.Attribute) and e.func.attr in SAFE and e.func.attr.startswith("as_"):
            t = transfer(state, e.func.value, var)
            if t is not None:
                out.append((e, e.func.attr, frozenset(t)))
        if isinstance(e, ast.Call) and isinstance(e.func, ast.Attribute) and e.func.attr == "astype" and e.args:
            t = transfer(state, e.func.value, var)
            if t is not None:
                tgt = norm(e.args[0])
                op = {"float": "as_float", "np.float64": "as_float", "int": "as_integer", "np.int64": "as_integer",
                      "bool": "as_boolean", "object": "as_object", "str": "as_string"}.get(tgt)
                if op:
                    out.append((e, op, frozenset(t)))
        for c in ast.iter_child_nodes(e):
            if isinstance(c, (ast.expr,)) and not isinstance(c, (ast.Lambda,)):
                walk(c, state)

    for n in cfg.nodes:
        st = IN.get(n.id)
        if st is None or n.ast is None:
            continue
        a = n.ast
        if n.kind == "test":
            walk(a, st)
        elif n.kind == "stmt":
            if isinstance(a, (ast.Assign, ast.AugAssign, ast.AnnAssign, ast.Return, ast.Expr)):
                if getattr(a, "value", None) is not None:
                    walk(a.value, st)
    return out
