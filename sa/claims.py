"""What each check claims (source of MANIFEST.json, see tools/gen_manifest.py)."""

TRUST = ("Trusted base: CPython ast; the repository resolver (sa/model.py, coverage printed in the evidence); the operation "
         "table and external summary table in sa/tables.py (NumPy / PyArrow / stdlib behaviour taken from their documentation); "
         "user callbacks are assumed to have no effect on library objects.")

CLAIMS = {
    "C06": {
        "text": "Static ownership/alias/effect analysis over every public DataFrame, DataFrameColumn and Vector method, for all "
                "inputs: each returned or yielded array/frame is fresh w.r.t. receiver and arguments (24 yield sites + delegating "
                "returns), no store / in-place call / structural store reaches an object aliasing receiver or arguments through any "
                "callee, and grouping is only assigned by group_by. Decides the aliasing and mutation discipline itself (a sound "
                "may-alias analysis modulo the operation table), not value equality. Right level: the property is an ownership "
                "discipline whose truth is in the code's shape on every path. Added later: the per-group frames cut by _view_rows are copies (an index that may be a slice object is tracked). Round 7: keyword-sensitive operation table (astype(copy=False), np.array(copy=False), overwrite_input=True). Round 8: in-place bitwise operators on a caller's array are writes. Round 9: language-trap lints (one-shot iterators consumed twice, closures over loop variables, mutable defaults, fromkeys with a mutable value, starred itemgetter results used as sequences) over the property's anchor files.",
        "note": TRUST,
        "technique": "abstract interpretation (may-alias origins + write effects) with computed callee summaries over the ast; exemption table from the statement",
    },
    "C17": {
        "text": "Effect system + flag typestate checked on every ListOfDicts method (the induction step over all derivation "
                "histories): item dicts of the receiver are written only by deco.obsoletes methods, items of another list never; "
                "the decorated set equals the statement's editors; _obsolete is set only by _mark_obsolete, on every path, with "
                "recursion into the predecessor; the wrapper marks the receiver on every normal path; the warning is printed "
                "only under _obsolete and not _obsolete_warned and every printing path sets the flag; every list sharing items is "
                "built by self._new, the sole writer of _predecessor; deepcopy yields fresh items and no predecessor. Decides the "
                "discipline that makes the behaviour hold for all histories; not the caller-side timing of the warning. Added later: ListOfDicts methods assign only the bookkeeping attributes (no item-derived caches); the predecessor link is tested by identity/instance, never truthiness; the name guard of __getattribute__ is evaluated as a string predicate on every attribute name the class looks up on itself. Round 7: attribute stores on an argument list (caches on the other list of a join) are judged like those on the receiver. Round 8: copy() of an item of unknown kind is shallow for the deepcopy rule. Round 9: language-trap lints (one-shot iterators consumed twice, closures over loop variables, mutable defaults, fromkeys with a mutable value, starred itemgetter results used as sequences) over the property's anchor files. Round 10: deepcopy does not share a memo between the items. Round 11: the marking method itself is exempt from the warning guard (its lookup on a predecessor is not the user's next use); the iterative form of the marking walk is read in one exact shape.",
        "note": TRUST,
        "technique": "abstract interpretation of write effects on item-dict origins + CFG dominator/post-dominator typestate rules on the flags",
    },
    "C14": {
        "text": "Alias clause decided exactly for all argument combinations: each io.py function declared an alias (via "
                "format_alias_doc) has the target's signature and forwards every parameter under its own name in a single call "
                "on every path. Restriction clause decided structurally: liveness and by-name use of columns/keys/dtypes/types in "
                "all readers and order provenance at positional labelling sites. Not decided: cast-after-read == cast-while-read. Added later: membership filters on the restriction parameter keep the elements IN it; each (name, type) pair of a type map reaches a conversion; parsed Python lists are cast through the converting constructor; liveness counts only effective uses (a self-reassignment is not a use). Round 7: no argument of a foreign parsing call depends on the dtype map; field order inside rows is tracked through itemgetter(*indices). Round 8: `if columns:` tests the restriction argument as given. Round 9: language-trap lints (one-shot iterators consumed twice, closures over loop variables, mutable defaults, fromkeys with a mutable value, starred itemgetter results used as sequences) over the property's anchor files. Round 10: names.index(x) in a reader (first of a duplicated header name). Round 11: a raise that depends on the restriction parameter validates against the complete column set (RESTR-raise); the itemgetter lint as in C12. Round 12: where the parsed columns are renamed (header=False), the restriction is applied to the renamed table, not handed to the parser (RESTR-names, D37). Round 13: a type map or restriction rebuilt by a comprehension keeps its names unchanged.",
        "note": TRUST,
        "technique": "signature comparison + keyword-forwarding analysis + order-provenance dataflow over reaching definitions",
    },
    "C20": {
        "text": "Totality and purity of rendering as far as code shape decides them: override/keyword compatibility at dynamically "
                "dispatched entry points, no write effect on the rendered object in the rendering call graph, every identity-less "
                "reduction reachable from an entry point guarded against empty operands (obligation moved to call sites for helper "
                "parameters, also through local function aliases), null-geometry accesses guarded, cell lists padded. Not decided: "
                "exact widths/wording. Added later: print_ and the renderers use every option they accept; util.upad measures display width only; strict-JSON dumps reachable from rendering are partial operations. Round 7: memo tables keyed by a lossy projection of the dtype in the rendering functions. Round 9: language-trap lints (one-shot iterators consumed twice, closures over loop variables, mutable defaults, fromkeys with a mutable value, starred itemgetter results used as sequences) over the property's anchor files. Round 10: the first line of a split cell is read only under a dominating test about the cell. Round 11: no tolist() export (missing -> None) on the way to util.upad (GRD-text). Round 12: TRAP-frozen / TRAP-kwmerge as in C12. Round 13: no limit option of a renderer passes through int() (inf is a legitimate limit).",
        "note": TRUST,
        "technique": "override-compatibility + effect analysis + guard-dominates-partial-operation (CFG must-facts) + nullable-source rule",
    },
    "C11": {
        "text": "Necessary conditions of Vector.sort/rank/unique for all inputs: stable sort kinds, missing-last assembly with the "
                "mask computed from the final vector on every exit, every rank branch fills both partitions and unknown methods "
                "raise, first-occurrence indices sorted, and totality on empty / entirely missing vectors (reductions guarded, "
                "fixed-width cast width >= 1 by interval analysis). Not decided: that the ranks are the right numbers. Added later: the rank of missing values is built on the number of non-missing elements (or the total length); every result of sort depends on dir. Round 9: language-trap lints (one-shot iterators consumed twice, closures over loop variables, mutable defaults, fromkeys with a mutable value, starred itemgetter results used as sequences) over the property's anchor files. De-duplication by hashing (NaN != NaN) in Vector.unique. Round 10: rank returns an empty result only for an empty vector. Round 11: the array-API spellings np.unique_all & co. (equal_nan=False) and equal_nan=False are reported; Vector.rank orders the values themselves.",
        "note": TRUST,
        "technique": "CFG must-facts + tiny interval domain for guards; def-use rules for stability and NA-last structure",
    },
    "C03": {
        "text": "Necessary conditions of DataFrame.sort for all inputs: a single lexsort permutation indexes all columns, keys "
                "reach lexsort in reversed user order, rank fallback is method='min', directions validated before use, key "
                "construction total on empty/all-missing columns and free of writes on the receiver. Not decided: the order itself. Added later: a dtype-class dataflow over sort_key judges each negation / complement / conversion of a key against the element types on which it keeps all order relations (NumPy fact: timedelta64 is an integer), the requested direction is applied by exactly one reversal, and fixed-width string keys get a maximal sentinel for their missing values. Round 7: _optimize_for_argsort casts only within the string family (is_na must still see ''). Round 9: language-trap lints (one-shot iterators consumed twice, closures over loop variables, mutable defaults, fromkeys with a mutable value, starred itemgetter results used as sequences) over the property's anchor files. Round 11: no string constant stands for the missing values of a string sort key, and -- dtype-class dataflow under the hypothesis that the key has missing values -- no string-class key reaches a return of sort_key unranked (D33); Vector.rank orders the values themselves, never their text.",
        "note": TRUST,
        "technique": "loop-invariant index rule, def-use on the lexsort argument, must-facts for direction validation, guard and effect engines",
    },
    "C02": {
        "text": "Necessary conditions of the nine row-subsetting methods for all inputs: one loop-invariant row index per method with "
                "the right keep/drop operator, filter/filter_out sibling agreement against the statement's semantics, drop_na "
                "any-column accumulation, clamping in head/tail/sample, order-preserving sample, NA mask as its own key "
                "component in unique (sentinel soundness under IEEE-754), totality on 0-row frames, mask length check. Not "
                "decided: which rows a given mask selects. Added later: no subsetting method reads the grouping state of an earlier group_by(); default counts replace only a count that was not given; column-position parsers mirror the row-position parsers; every element type whose missing value is not self-equal (NaN, NaT of dates and of timedeltas) is normalised in unique's key tuples. Round 7: np.diff of a key as a sortedness test is judged by the dtype-class dataflow (wraps on integers); key columns are never stacked into one array (common-dtype promotion). Round 9: language-trap lints (one-shot iterators consumed twice, closures over loop variables, mutable defaults, fromkeys with a mutable value, starred itemgetter results used as sequences) over the property's anchor files. The constant substituted for missing keys in unique is not itself missing. Round 10: the boolean-row parser states bool; drop_na iterates the names as given and raises nothing itself; masks built from lists state their dtype. Round 11: colname=value pairs of filter / filter_out are compared as given (no cast to the column's dtype); key columns of unique are not compared through an integer view (bit patterns).",
        "note": TRUST,
        "technique": "sibling feature records vs spec table, loop-invariant index rule, clamp-dominates-use, sentinel/mask dataflow, guard engine",
    },
    "C01": {
        "text": "Inductive invariant over all operation histories, each induction step decided from source: the constructor converts or "
                "rejects every value and always runs the uniformity check; DataFrameColumn broadcasts only length-1 input; assignment "
                "stores only reconciled columns; base-class storage primitives occur only in the six writer methods and unchecked row "
                "views never escape; generator methods return through the checked constructor; key/attribute bookkeeping is paired on "
                "add and remove under satisfiable guards; colnames assignment is two-phase; vectors check ndim. Decides that "
                "rectangularity and key/attribute coherence are preserved by every operation, not that stored values are right. Since the mutation sweep also: the removers delete the placeholder attribute under guards of the right polarity. Round 7: the name reaching dict.__setitem__ is the key argument itself. Round 9: language-trap lints (one-shot iterators consumed twice, closures over loop variables, mutable defaults, fromkeys with a mutable value, starred itemgetter results used as sequences) over the property's anchor files. Round 10: the attribute placeholder is registered only after the value passed reconciliation. Round 11: the broadcast guard of DataFrameColumn.__new__ is evaluated exactly on a (length, nrow) grid (only length 1 reaches the repeat); np.isscalar decides scalar-ness only next to an isinstance test over str (util.py is read too).",
        "note": TRUST,
        "technique": "must-pass-through and guard-dominates-site rules on per-function CFGs, who-may-call over resolved callees, store-separation reasoning, escape check via the E3 interpreter",
    },
    "C05": {
        "text": "Necessary conditions of the five DataFrame joins for all inputs: typestate of the right-hand frame (drop_na then unique "
                "on the right keys) at all four sites that build the key->row dict, agreement of the four joins, whole-row indexing "
                "with corresponding found/src pairs and complementary semi/anti operators, NA value/dtype taken from one column, no "
                "scalar broadcast to a possibly zero row count, by-tuple handling of renamed keys incl. the reverse join of full_join, "
                "totality of reachable reductions on empty operands. Not decided: which rows match. Added later: the typestate is interprocedural (required where the key->row dict is built), a join taking right-hand values by row number indexes the very frame the dict was built over, one-element literals are broadcast only to provably >= 1 rows, full_join skips its reverse part only when nothing is left over and hands on swapped by-pairs as sequences. Round 8: every return of _get_join_indices follows the key->row lookup unless a side has no rows. Round 9: language-trap lints (one-shot iterators consumed twice, closures over loop variables, mutable defaults, fromkeys with a mutable value, starred itemgetter results used as sequences) over the property's anchor files. Round 10: _get_join_indices raises nothing itself; masks built from lists state their dtype. Round 11: the match positions index a column only through the found mask (GRD-src); the key columns enter the lookup unconverted.",
        "note": TRUST,
        "technique": "typestate over def-use chains at call sites, sibling agreement, interval lower bounds for broadcast counts, guard engine",
    },
    "C12": {
        "text": "Routing/symmetry of every reader-writer pair decided for all paths and suffixes: where the user's path flows (only "
                "xopen, makedirs, delegated siblings, or APIs in the external summary table), which file is addressed, and whether "
                "data is (de)compressed for '', .gz, .bz2, .xz -- writer and reader must agree and honour their docstrings; xopen's "
                "suffix table; liveness of every option on both sides. Not decided: equality of values after the trip. Added later: every opener in xopen receives **kwargs; every xopen call names its text/binary class; the ListOfDicts CSV reader and writer agree on every parsing-relevant formatting parameter; the re-encoding pass of write_csv has the right polarity, re-opens with the requested encoding and writes back what it read. Round 8: rows returned by csv.reader are not filtered by their contents. Round 9: language-trap lints (one-shot iterators consumed twice, closures over loop variables, mutable defaults, fromkeys with a mutable value, starred itemgetter results used as sequences) over the property's anchor files. Round 10: content filters directly over csv.reader. Round 11: the itemgetter(*names) lint follows one level of local flow and knows writerow / extend / join as sequence consumers. Round 12: defaults never override the caller's keyword arguments (TRAP-kwmerge); no parameter default reads a package option at definition time (TRAP-frozen) -- both lints run in every check over its anchor files.",
        "note": TRUST,
        "technique": "taint-style path routing over resolved callees with an external summary table; option liveness; sibling agreement of csv dialect/delimiter",
    },
    "C04": {
        "text": "Necessary conditions of grouped operations for all inputs: one key tuple drives sort/unique/select (ascending), the only "
                "ordering primitive is the stable lexsort, index vectors are created on and applied to the frame they index with the "
                "attach/sort ordering that makes split return original positions, group-aware protocol on the DataFrame side "
                "(_group_ labels from the same indices, None -> default, helper columns removed), run scan of yield_groups, count on a "
                "copy, order restoration in grouped modify, per-column NA masks as key components in unique. Not decided: summary values. Added later: every (name, function) pair stores a column on every path of aggregate's loop, unmarked functions are not group-aware, the per-group frames exist before an arbitrary function is applied. Round 9: language-trap lints (one-shot iterators consumed twice, closures over loop variables, mutable defaults, fromkeys with a mutable value, starred itemgetter results used as sequences) over the property's anchor files. Round 11: Vector.rank orders the values themselves, never their text; unique's keys are not bit patterns. Round 12: an explicit `by` of split survives every rebinding (ARG-asgiven). The scanner rule reads the index loop only (another algorithm is an analysis error); np.split is reached only with a non-empty array where its pieces are groups (GRD-split). Round 13: the names given to group_by are stored in the caller's order (no set / sorted on the way; unwrapping a single element only under a type test of it).",
        "note": TRUST,
        "technique": "statement-order and def-use rules (index-space discipline), must-facts for the protocol, effect analysis for count, guard engine",
    },
    "C07": {
        "text": "Sibling agreement of the vector form and the group-wise form of all 14 helpers with each other and with a spec table "
                "copied from the statement: minimum group size, under-threshold default, statistic and extra arguments, NA wiring "
                "(handle_na before any length test; drop_na and is_na().any() of the aggregated column; all/any unfiltered), "
                "identity-less statistics never bound with nrequired=0, protocol attributes set on every path, first/last = nth(0/-1). "
                "Decides that the documented default/threshold/NA policy is wired identically in both forms, not the numbers. Added later: every extra statistic argument (ddof) reaches the statistic in every case of both forms (a case taken only for the library default counts as passing it); memoising decorators key on all arguments. Round 7: np.nan_to_num without posinf=/neginf= is not a missing-value substitution. Round 8: exits that skip missing-value handling under an element-type test (timedelta64 is an integer), np.bincount weights, np.unique tie-breaking in mode, explicit index-bounds shortcuts decided exactly (sa/intpred.py). Round 9: language-trap lints (one-shot iterators consumed twice, closures over loop variables, mutable defaults, fromkeys with a mutable value, starred itemgetter results used as sequences) over the property's anchor files. Positional kernels without try/except are decided exactly (position selection, sa/intpred.py). Round 10: an explicit validation of q rejects no value of [0, 1] (decided exactly); masks built from lists state their dtype. Round 11: np.sum(x).item() is guarded like the element-valued results (D34); np.unique without index/inverse/counts is not applied to a Vector (its sort() is not in place). Round 12: quantile's q survives every rebinding for q = 0 (ARG-asgiven).",
        "note": TRUST,
        "technique": "sibling feature-record extraction by ast dataflow + comparison against a spec table; CFG must-pass-through for protocol attributes",
    },
    "C08": {
        "text": "Dispatch wiring and twin-kernel structure (necessary conditions): (python, numba) pair order vs boolean indexing in "
                "select, identical parameter lists, same group slices, same threshold/default/statistic per twin, identical group "
                "scanners modulo yield/append, njit(cache=USE_NUMBA_CACHE) on every kernel; for every element kind use_numba() admits "
                "(evaluated through NumPy's scalar hierarchy: timedelta64 is an integer), the Numba-side NA test equals Vector.is_na's; "
                "purity of kernels w.r.t. the group slices; and one structural cause of the order-of-use clause: no compiled kernel "
                "returns a list mixing element values with None (list(Optional(T))), whose conversion depends on compile order with "
                "the Numba installed here -- violated at four sites of the pinned tree, recorded as known finding D25 with the failing "
                "histories. NOT decided: numerical equality of NumPy vs Numba re-implementations (e.g. the mode loops), rounding, the "
                "on-disk cache. Round 7: no call or keyword dict sets overwrite_input (the Python statistic would reorder the shared column, the compiled twin copies). Round 8: dtype conversions applied on the compiled path only are value-preserving for every class that reaches them. Round 9: language-trap lints (one-shot iterators consumed twice, closures over loop variables, mutable defaults, fromkeys with a mutable value, starred itemgetter results used as sequences) over the property's anchor files. Positional kernels without try/except are decided exactly (position selection, sa/intpred.py). Round 10: the compiled mode kernel counts an element for itself (NaN / NaT are not equal to themselves) -- D29, repaired. Round 11: UNIFY -- for every element kind use_numba() admits, the result of a generic_numba statistic unifies with the kernel default (timedelta did not: D35). Round 12: NA-prop -- a statistic that is NaN-blind under Numba (np.median) leaves the compiled path when missing values are kept (D36). The scanner twin rule compares the two index loops only; GRD-split as in C04.",
        "note": TRUST + " The history clause is decided only through the Optional-list condition, which was established by a probe "
                "(notes/numba_optional_lists.md); other compile-order effects, if any, are outside this technique.",
        "technique": "twin feature-record comparison over the ast, decorator/registry rules, dtype-kind evaluation of use_numba against "
                     "the Numba NA-test table, syntactic purity and result-list homogeneity rules for compiled kernels",
    },
    "C09": {
        "text": "Necessary conditions of rbind/select/unselect/rename/cbind/update/modify/colnames assignment for all inputs: two-phase "
                "rename, rbind over every input in argument order with an order-preserving union of names and NA parts built from one "
                "reference column at the lacking input's row count, name-value provenance in select/rename/unselect, first-wins / "
                "replace semantics of cbind/update/modify, untouched columns yielded whole. Not decided: NumPy promotion. Round 7: modify hands on every existing column unconditionally. Round 8: the colnames setter pops all columns; rename rejects no request because a name already exists. Round 9: language-trap lints (one-shot iterators consumed twice, closures over loop variables, mutable defaults, fromkeys with a mutable value, starred itemgetter results used as sequences) over the property's anchor files. Round 11: the union-of-names idiom of rbind is read in its chain.from_iterable / comprehension spellings too. Round 12: an empty request of select / unselect survives every rebinding (ARG-asgiven). Round 13: select / unselect never unwrap a single name into its characters and never re-order the requested names.",
        "note": TRUST,
        "technique": "def-use and loop-structure rules per method (name/value provenance), sibling NA-pair rule, loop-carried hazard rule",
    },
    "C10": {
        "text": "Consistency of the missing-value tables for every dtype kind: is_na, na_dtype and na_value are parsed into decision "
                "lists and evaluated over nine kinds with a trusted predicate table encoding NumPy's scalar hierarchy (timedelta64 is an "
                "integer subtype); value, holding dtype and detector must match each other and the statement; the NA substitution "
                "predicate equals the inference-ignore predicate and is unconditional; consumers use is_na only. Not decided: which "
                "dtype NumPy infers for a mixed list; equivalence laws of equal; round trips. Added later: where the substituted missing value comes from (na_value of the known dtype, else guessed from util.unique_types over the WHOLE sequence), _np_array decides the dtype only when none was requested, equal compares only equal lengths, dates are inferred only from a non-empty type set, and/not in the decision lists. Round 7: memo tables keyed by a lossy projection of the dtype (type/num/kind/char); nan_to_num; every return of unique_types passes the None/NaN filter. Round 8: NA-blind exits of Vector methods; the None/NaN substitution is unguarded. Round 9: language-trap lints (one-shot iterators consumed twice, closures over loop variables, mutable defaults, fromkeys with a mutable value, starred itemgetter results used as sequences) over the property's anchor files. Round 10: replace_na / drop_na / is_na raise nothing themselves; masks built from lists state their dtype. Round 12: with an explicit dtype the substituted missing value is that dtype's na_value in every truthiness scenario (NA-dtype).",
        "note": TRUST + " Predicate/kind table in sa/props/C10.py.",
        "technique": "abstract evaluation of ordered decision lists over a finite kind lattice; predicate-equality of two comprehensions",
    },
    "C13": {
        "text": "Boundary wiring of the converters: every exporter hands columns out only as Vector.tolist() output in colnames order; "
                "importer twins from_arrow/from_pandas agree on mask source, object fallback, guarded upcast and masked NA store; NA "
                "value/dtype pairing; None defaults when ListOfDicts/JSON records lack keys; and the contradicted-belief rule that a "
                "dtype decision must not depend on one fixed element (reports the element-0 string sniffing in Vector._np_array as a "
                "known finding). Not decided: the values and dtypes that come back. Round 7: no value becomes None/NaN under an isfinite()/isinf() test; dtype sniffing also when the fixed element is read in the assigned value. Round 8: no integer dtype under a bare isinstance(x, int). Round 9: language-trap lints (one-shot iterators consumed twice, closures over loop variables, mutable defaults, fromkeys with a mutable value, starred itemgetter results used as sequences) over the property's anchor files. Round 10: no exporter sets allow_nan=False on its own; _to_columns takes keys whatever their values.",
        "note": TRUST,
        "technique": "must-sanitise (tolist) taint rule, sibling feature records with branch facts, fixed-element-dependence rule",
    },
    "C15": {
        "text": "Necessary conditions of the ListOfDicts list operations for all arguments: filter/filter_out complementary tests over one "
                "pass, clamping and no possibly-zero negated slice bound in head/tail/sample, insert delivers its item on every CFG path, "
                "caller-supplied dicts are coerced before reaching the as-is constructor, sort is multi-pass stable with reversed key "
                "order / reverse=dir<0 / None-flag keys / validated directions, unique yields under a not-seen guard that records the key. "
                "Not decided: full sequence equality with list operations. Added later: the constructor converts every item unless the caller passes as_is; unique records the key values themselves (no lossy reduction); guard-clause forms accepted. Round 7: every returning path of a decorator wrapper calls the wrapped function; fill_missing_keys yields only after the fill loop or under a nothing-missing test. Round 8: per-call memos keyed by an order-blind summary; the index of insert reaches list.insert unadjusted. Round 9: language-trap lints (one-shot iterators consumed twice, closures over loop variables, mutable defaults, fromkeys with a mutable value, starred itemgetter results used as sequences) over the property's anchor files. Round 10: an explicit validation of insert's index rejects no integer (decided exactly). Round 11: the component of the sort key after the None flag is the value itself. Round 13: filter / filter_out compare the item's extracted value as stored (no wrapping of the item side).",
        "note": TRUST,
        "technique": "CFG path rule (must-yield), interval lower bounds for slice bounds, branch-fact sibling comparison, coercion-idiom typestate",
    },
    "C16": {
        "text": "Necessary conditions of ListOfDicts joins/aggregate for all inputs: first-match lookup built over reversed(other), "
                "inner/left twins strip right-hand key names and update only the left item with a fresh dict (no write effect on the "
                "right operand), semi/anti complementary tests on one id set, full_join's reverse join gets role-swapped by-tuples and "
                "unused right items are found by synthetic id, aggregate groups/buckets/sort use one key extraction. Not decided: which items match. Added later: full_join skips its reverse part only when no right item is left over, renames differently named keys in the reverse part and hands on swapped by-pairs as sequences. Round 8: every exit of semi_join / anti_join follows the id set. Round 9: language-trap lints (one-shot iterators consumed twice, closures over loop variables, mutable defaults, fromkeys with a mutable value, starred itemgetter results used as sequences) over the property's anchor files. Round 10: group_by raises nothing itself. Round 11: the ListOfDicts.sort rule (ORD-sort) is part of this check, since aggregate orders its groups with it. Round 12: dict(zip(keys, items)) is read as a forward-filled, last-wins lookup. Round 13: the keys given to ListOfDicts.group_by are stored in the caller's order.",
        "note": TRUST,
        "technique": "def-use rules on lookup construction, sibling comparison, effect analysis (E3) for the right operand, operand-role rule for full_join",
    },
    "C18": {
        "text": "Hand-assembled GeoJSON writer and reader: every dynamic text fragment written is json.dumps output, an indent or a "
                "literal choice (injection-style taint rule); writer/reader member-name agreement incl. FEATURE_KEYS/FEATURE_TYPES and "
                "'features'; all metadata members written, only 'features' removed on read; property columns = union of keys filled "
                "with .get(key, None) from one feature sequence in file order; option liveness. Not decided: value fidelity. Round 8: every return of read() follows the metadata assignment. Round 9: language-trap lints (one-shot iterators consumed twice, closures over loop variables, mutable defaults, fromkeys with a mutable value, starred itemgetter results used as sequences) over the property's anchor files. The separator between features is chosen by position. Round 11: column building delegated to ListOfDicts._to_columns is judged by where that helper takes its keys from.",
        "note": TRUST,
        "technique": "taint classification of f-string fragments over reaching definitions; writer/reader sibling agreement on literal member names",
    },
    "C19": {
        "text": "Wiring of dt/regex: proxy registries bind each attribute to the module function of the same name with the vector at the "
                "right parameter and are complete; each regex function calls re.<own name> identically in scalar and vector branch "
                "over the non-missing positions; each dt extractor reads the datetime member of its own name (kind from the stdlib); "
                "the _pull_* helpers share one skeleton; np.vectorize applications are dominated by the all-missing early return; early "
                "returns convert like the final return. Not decided: calendar arithmetic, strftime/regex semantics. Added later: from_string narrows to dates only when every time-of-day extractor (hour, minute, second, microsecond) is zero for all parsed values. Round 7: every return of a regex function's vector branch hands back the default-filled (or NA-masked) array. Round 8: every result of dt.to_string is produced by strftime. Round 9: language-trap lints (one-shot iterators consumed twice, closures over loop variables, mutable defaults, fromkeys with a mutable value, starred itemgetter results used as sequences) over the property's anchor files. Vector arguments of dt.replace are read at the row's own position. Round 10: the .dt / .re / .str properties raise nothing themselves. Round 11: the date-narrowing test of from_string looks at the parsed values, never at the format text alone; stored results lead back to x[~na] through every definition. Round 12: no component value of dt.replace is used as a truth value (ARG-given). Round 13: the arguments of a regex function other than the string reach re.<name> without rebinding.",
        "note": TRUST,
        "technique": "registry/forwarding rules, sibling skeleton comparison, guard-dominates-partial-operation, must-convert-on-every-return rule",
    },
}

PENDING = "check under construction in this session (static rule designed in DESIGN.md section 5, not yet implemented)"
NOT_APPLICABLE = {f"C{i:02d}": PENDING for i in range(1, 21)}
