"""What each check claims (source of MANIFEST.json, see tools/gen_manifest.py)."""

TRUST = ("Trusted base: CPython ast; the repository resolver (sa/model.py, coverage printed in the evidence); the operation "
         "table and external summary table in sa/tables.py (NumPy / PyArrow / stdlib behaviour taken from their documentation); "
         "user callbacks are assumed to have no effect on library objects.")

CLAIMS = {
    "C06": {
        "text": "Static ownership/alias/effect analysis over every public DataFrame, DataFrameColumn and Vector method, for all "
                "inputs: each returned or yielded array/frame is fresh w.r.t. receiver and arguments (24 yield sites + delegating "
                "returns), no store / in-place call / structural store reaches an object aliasing receiver or arguments through any "
                "callee, and grouping is only assigned by group_by. Decides the aliasing and mutation discipline itself (a sound "
                "may-alias analysis modulo the operation table), not value equality. Right level: the property is an ownership "
                "discipline whose truth is in the code's shape on every path.",
        "note": TRUST,
        "technique": "abstract interpretation (may-alias origins + write effects) with computed callee summaries over the ast; exemption table from the statement",
    },
}

PENDING = "check under construction in this session (static rule designed in DESIGN.md section 5, not yet implemented)"
NOT_APPLICABLE = {f"C{i:02d}": PENDING for i in range(1, 21)}
