"""Thorough tier: variant sweep (checker sensitivity, still static).

For every property a table of in-memory source variants is applied to an
overlay of the current tree (nothing under /repo is touched; seeded patches are
applied to a throw-away copy of the package directory under a mkdtemp outside
/repo and /verif, removed in a finally) and the property's rules are re-run:

  expect = 'violation'  the variant breaks one obligation instance and must be
                        reported (optionally by the named rule);
  expect = 'silent'     the variant preserves behaviour (refactoring, a dropped
                        .copy() after an advanced index, renamed locals) and
                        must NOT be reported.

A variant whose verdict differs from the expectation is an ANALYSIS-ERROR: the
obligation is vacuous or the rule is brittle.  Variants whose `old` text no
longer occurs exactly once are counted as stale (the source moved on) and
reported in the evidence; if more than half are stale the sweep fails closed.
"""
import ast
import re
import glob
import importlib
import json
import os
import shutil
import subprocess
import tempfile
from concurrent.futures import ProcessPoolExecutor

from .model import Repo, AnalysisError
from . import report

DF = "dataiter/data_frame.py"
VE = "dataiter/vector.py"
LO = "dataiter/list_of_dicts.py"
AG = "dataiter/aggregate.py"
UT = "dataiter/util.py"
GE = "dataiter/geojson.py"
IO = "dataiter/io.py"
DT = "dataiter/dt.py"
RE = "dataiter/regex.py"
DE = "dataiter/deco.py"

V = "violation"
S = "silent"
NV = "no-violation"     # whole-method rewrites: silent, or an honest ANALYSIS-ERROR -- never a VIOLATION

# (name, file, old, new, expect, rule-or-None)
TABLE = {
    "C01": [
        ("init-no-check", DF, "        # Check that we have a uniform table.\n        self._check_dimensions()", "        # Check that we have a uniform table.", V, "MPT-1"),
        ("broadcast-any-length", DF, "            if column.length != 1 or nrow < 1:", "            if nrow < 1:", V, "GRD-len"),
        ("reconcile-no-length-test", DF, "            if column.nrow == self.nrow:\n                return column", "            return column", V, "STO-2"),
        ("setitem-no-reconcile", DF, "        value = self._reconcile_column(value)\n        if not self.__hasattr(key)", "        if not self.__hasattr(key)", V, "STO-2"),
        ("storage-primitive-in-count", DF, "        return self.copy().group_by(*colnames).aggregate(n=dataiter.count())",
         "        data = self.copy(); dict.update(data, {\"_n_\": 1}); return data.group_by(*colnames).aggregate(n=dataiter.count())", V, "STO-3"),
        ("view-rows-escapes", DF, "        return stat.unselect(\"_index_\", \"_group_\")", "        return slices[0] if slices else stat.unselect(\"_index_\", \"_group_\")", V, "STO-3"),
        ("pop-keeps-attribute", DF, "        value = super().pop(key, *args, **kwargs)\n        if hasattr(self, key):\n            if not self.__is_builtin_attr(key):\n                super().__delattr__(key)\n        return value",
         "        value = super().pop(key, *args, **kwargs)\n        return value", V, "STO-5"),
        ("from_json-plain-dict", DF, "        return cls(**data)\n\n    @classmethod\n    @deco.new_from_generator\n    def from_pandas", "        return data\n\n    @classmethod\n    @deco.new_from_generator\n    def from_pandas", V, "STO-4"),
        ("reconcile-zero-rows-unchecked", DF, "        nrow = self.nrow if self else None", "        nrow = self.nrow or None", V, "STO-2"),
        ("nrow-unchecked-length", DF, "        return self.length\n\nclass DataFrame(dict):", "        return len(self)\n\nclass DataFrame(dict):", V, "MPT-2"),
        ("rename-local-silent", DF, "        nrow = max(map(util.length, self.values()), default=0)\n        for key, value in self.items():\n            if (isinstance(value, DataFrameColumn) and\n                value.nrow == nrow): continue\n            column = DataFrameColumn(value, nrow=nrow)\n            super().__setitem__(key, column)",
         "        nrow = max(map(util.length, self.values()), default=0)\n        for key, value in self.items():\n            if (isinstance(value, DataFrameColumn) and\n                value.nrow == nrow): continue\n            converted = DataFrameColumn(value, nrow=nrow)\n            super().__setitem__(key, converted)", S, None),
    ],
    "C02": [
        ("unique-sorted-fast-path-by-comparison-silent", DF, "        columns = [self[x] for x in colnames]\n        for i, column in enumerate(list(columns)):",
         "        columns = [self[x] for x in colnames]\n        if len(columns) == 1 and columns[0].is_integer() and not columns[0].is_timedelta() and self.nrow > 1 and bool(np.all(columns[0][:-1] < columns[0][1:])):\n            for colname, column in self.items():\n                yield colname, column.copy()\n            return\n        for i, column in enumerate(list(columns)):", S, None),
        ("unique-sorted-fast-path-by-diff", DF, "        columns = [self[x] for x in colnames]\n        for i, column in enumerate(list(columns)):",
         "        columns = [self[x] for x in colnames]\n        if len(columns) == 1 and columns[0].is_integer() and self.nrow > 1 and bool(np.all(np.diff(columns[0]) > 0)):\n            for colname, column in self.items():\n                yield colname, column.copy()\n            return\n        for i, column in enumerate(list(columns)):", V, "ORD-diff"),
        ("unique-sorted-fast-path-by-diff-floats-silent", DF, "        columns = [self[x] for x in colnames]\n        for i, column in enumerate(list(columns)):",
         "        columns = [self[x] for x in colnames]\n        if len(columns) == 1 and columns[0].is_float() and self.nrow > 1 and bool(np.all(np.diff(columns[0]) > 0)):\n            for colname, column in self.items():\n                yield colname, column.copy()\n            return\n        for i, column in enumerate(list(columns)):", S, None),
        ("drop_na-and", DF, "            drop = drop | self[colname].is_na()", "            drop = drop & self[colname].is_na()", V, "SIB-2"),
        ("head-no-clamp", DF, "        n = min(self.nrow, n)\n        return self.slice(np.arange(n))", "        return self.slice(np.arange(n))", V, "SIB-3"),
        ("sample-unsorted", DF, "        return self.slice(np.sort(rows))", "        return self.slice(rows)", V, "SIB-3"),
        ("filter_out-or", DF, "                rows = rows & (self[colname] == value)\n        rows = self._parse_rows_from_boolean(rows)\n        for colname, column in self.items():\n            yield colname, np.delete(column, rows)",
         "                rows = rows | (self[colname] == value)\n        rows = self._parse_rows_from_boolean(rows)\n        for colname, column in self.items():\n            yield colname, np.delete(column, rows)", V, "SIB-1"),
        ("anti_join-take", DF, "            yield colname, np.delete(column, found)", "            yield colname, np.take(column, found)", V, "IDX-1"),
        ("mask-length-unchecked", DF, "        if len(rows) != self.nrow:\n            raise ValueError(\"Bad length for boolean rows\")", "        pass", V, "LEN"),
        ("unique-no-mask-component", DF, "                columns.append(na)", "                pass", V, "GRD-sentinel"),
        ("head-one-too-many", DF, "        return self.slice(np.arange(n))", "        return self.slice(np.arange(n + 1))", V, "SIB-3"),
        ("tail-wrong-start", DF, "        return self.slice(np.arange(self.nrow - n, self.nrow))", "        return self.slice(np.arange(self.nrow - n - 1, self.nrow))", V, "SIB-3"),
        ("integer-rows-deduplicated", DF, "    def _parse_rows_from_integer(self, rows):\n        return Vector.fast(rows, int)", "    def _parse_rows_from_integer(self, rows):\n        return Vector.fast(np.unique(rows), int)", V, "LEN"),
        ("seen-hash", DF, "            if rows[i] not in seen:\n                seen.add(rows[i])", "            if hash(rows[i]) not in seen:\n                seen.add(hash(rows[i]))", V, "SIB-seen"),
        ("filter-index-instead-of-take-silent", DF, "            yield colname, np.take(column, rows)", "            yield colname, column[rows].copy()", S, None),
    ],
    "C03": [
        ("string-sentinel-for-missing (D33 reverted)", DF, "            if column._is_string_fixed() and column.is_na().any():\n                # No string constant sorts after all others:\n                # rank puts missing values last regardless.\n                column = column.rank(method=\"min\")\n", "            if column._is_string_fixed():\n                column = column.copy()\n                column[column.is_na()] = \"\\uffff\"\n", V, "ORD-key"),
        ("max-codepoint-sentinel (still an ordinary string)", DF, "            if column._is_string_fixed() and column.is_na().any():\n                # No string constant sorts after all others:\n                # rank puts missing values last regardless.\n                column = column.rank(method=\"min\")\n", "            if column._is_string_fixed():\n                column = column.copy()\n                column[column.is_na()] = \"\\U0010ffff\"\n", V, "ORD-key"),
        ("fixed-strings-with-missing-not-ranked", DF, "            if column._is_string_fixed() and column.is_na().any():\n                # No string constant sorts after all others:\n                # rank puts missing values last regardless.\n                column = column.rank(method=\"min\")\n", "", V, "ORD-key"),
        ("fixed-strings-always-ranked", DF, "            if column._is_string_fixed() and column.is_na().any():\n", "            if column._is_string_fixed():\n", S, None),
        ("negate-integer-keys (D22 reverted)", DF, "            if column.is_integer() and not column.is_timedelta():\n", "            if False:\n", V, "ORD-key"),
        ("complement-timedelta-keys (timedelta64 is an integer to NumPy)", DF, "            if column.is_integer() and not column.is_timedelta():\n", "            if column.is_integer():\n", V, "ORD-key"),
        ("float-before-negation", DF, "            if dir > 0:\n                return column\n", "            if dir < 0 and column.is_integer():\n                column = column.as_float()\n            if dir > 0:\n                return column\n", V, "ORD-key"),
        ("negation-spelled-differently (still float only)", DF, "            return -column\n", "            return column * -1\n", S, None),
        ("lexsort-keys-not-reversed", DF, "sort_key(*x) for x in reversed(colname_dir_pairs.items())))", "sort_key(*x) for x in colname_dir_pairs.items()))", V, "ORD-1"),
        ("rank-ordinal", DF, "            if not column.is_number():\n                column = column.rank(method=\"min\")", "            if not column.is_number():\n                column = column.rank(method=\"ordinal\")", V, "ORD-1"),
        ("rank-ordinal-for-fixed-strings", DF, "                # rank puts missing values last regardless.\n                column = column.rank(method=\"min\")", "                # rank puts missing values last regardless.\n                column = column.rank(method=\"ordinal\")", V, "ORD-1"),
        ("dir-not-validated", DF, "            if dir not in [1, -1]:\n                raise ValueError(\"dir should be 1 or -1\")\n            column = self[colname]", "            column = self[colname]", V, "DIR"),
        ("per-column-permutation", DF, "            yield colname, column[indices].copy()", "            yield colname, column[np.lexsort((column,))].copy()", V, "IDX-1"),
        ("argsort-guard-dropped", VE, "        if (self.is_string() and self.length > 0 and\n            0 < (n :=", "        if (self.is_string() and\n            0 < (n :=", V, "GRD-empty"),
        ("drop-copy-after-advanced-index-silent", DF, "            yield colname, column[indices].copy()", "            yield colname, column[indices]", S, None),
    ],
    "C04": [
        ('groupby-names-sorted-set', 'dataiter/data_frame.py', '        self._group_colnames = tuple(colnames)', '        self._group_colnames = tuple(sorted(set(colnames)))', V, 'ARG-names'),
        ('groupby-accepts-list-guarded', 'dataiter/data_frame.py', '        self._group_colnames = tuple(colnames)', '        if len(colnames) == 1 and not isinstance(colnames[0], str):\n            colnames = colnames[0]\n        self._group_colnames = tuple(colnames)', S, 'ARG-names'),
        ("aggregate-index-before-sort", DF, "        data = self.sort(**dict.fromkeys(group_colnames, 1))\n        data._index_ = np.arange(data.nrow)",
         "        data = self.copy()\n        data._index_ = np.arange(data.nrow)\n        data = data.sort(**dict.fromkeys(group_colnames, 1))", V, "IDX-3"),
        ("split-index-after-sort", DF, "        data._index_ = np.arange(data.nrow)\n        data = data.sort(**dict.fromkeys(by, 1))\n        data._sorted_index_ = np.arange(data.nrow)",
         "        data = data.sort(**dict.fromkeys(by, 1))\n        data._index_ = np.arange(data.nrow)\n        data._sorted_index_ = np.arange(data.nrow)", V, "IDX-3"),
        ("count-groups-receiver", DF, "        return self.copy().group_by(*colnames).aggregate(n=dataiter.count())", "        return self.group_by(*colnames).aggregate(n=dataiter.count())", V, "OWN-3"),
        ("modify-no-restore", DF, "                yield colname, np.concatenate(column)[restore_indices]", "                yield colname, np.concatenate(column)", V, "OWN-3"),
        ("unique-other-keys", DF, "        stat = data.unique(*group_colnames).select(\"_index_\", *group_colnames)", "        stat = data.unique(group_colnames[0]).select(\"_index_\", *group_colnames)", V, "IDX-2"),
    ],
    "C05": [
        ("join-ids-zip-consumed-once-silent", DF, "        self_ids = zip(*[self[x] for x in by1])\n        src = map(lambda x: other_by_id.get(x, -1), self_ids)",
         "        self_ids = zip(*(self[x] for x in by1))\n        src = (other_by_id.get(x, -1) for x in self_ids)", S, None),
        ("join-ids-zip-consumed-twice", DF, "        self_ids = zip(*[self[x] for x in by1])\n        src = map(lambda x: other_by_id.get(x, -1), self_ids)",
         "        self_ids = zip(*[self[x] for x in by1])\n        nself = sum(1 for _ in self_ids)\n        src = map(lambda x: other_by_id.get(x, -1), self_ids)", V, "TRAP-iter"),
        ("full_join-by-not-reversed", DF, "        ba = b.left_join(a, *by_reverse)", "        ba = b.left_join(a, *by)", V, "SIB-6"),
        ("inner-right-rows-by-found", DF, "            yield colname, column[src[found]].copy()", "            yield colname, column[found].copy()", V, "IDX"),
        ("na-dtype-from-plain-dtype", DF, "            value = column.na_value\n            dtype = column.na_dtype\n            new = Vector", "            value = column.na_value\n            dtype = column.dtype\n            new = Vector", V, "SIB-5"),
        ("semi-no-drop_na", DF, "        >>> listings.semi_join(reviews, \"id\")\n        \"\"\"\n        by1, by2 = self._split_join_by(*by)\n        other = other.drop_na(*by2).unique(*by2)",
         "        >>> listings.semi_join(reviews, \"id\")\n        \"\"\"\n        by1, by2 = self._split_join_by(*by)\n        other = other.unique(*by2)", V, "TS-other"),
        ("left-scalar-broadcast", DF, "            new = Vector.fast([value], dtype).repeat(self.nrow)", "            new = DataFrameColumn(value, dtype, self.nrow)", V, "GRD-bcast"),
        ("unique-before-drop_na-silent", DF, "        other = other.drop_na(*by2).unique(*by2)\n        found, src = self._get_join_indices(other, by1, by2)\n        for colname, column in self.items():\n            yield colname, np.delete(column, found)",
         "        other = other.unique(*by2).drop_na(*by2)\n        found, src = self._get_join_indices(other, by1, by2)\n        for colname, column in self.items():\n            yield colname, np.delete(column, found)", S, None),
    ],
    "C06": [
        ("replace_na-in-place", VE, "        vector = self.copy()\n        vector[vector.is_na()] = value", "        vector = self\n        vector[vector.is_na()] = value", V, "OWN-2"),
        ("select-no-copy", DF, "        for colname in colnames:\n            yield colname, self[colname].copy()", "        for colname in colnames:\n            yield colname, self[colname]", V, "OWN-1"),
        ("deepcopy-shallow", DF, "        return self.__class__({k: v.copy() for k, v in self.items()})", "        return self.__class__({k: v for k, v in self.items()})", V, "OWN-1"),
        ("cbind-yields-reconciled", DF, "                yield colname, column.copy()\n\n    def _check_dimensions", "                yield colname, column\n\n    def _check_dimensions", V, "OWN-1"),
        ("count-groups-receiver", DF, "        return self.copy().group_by(*colnames).aggregate(n=dataiter.count())", "        return self.group_by(*colnames).aggregate(n=dataiter.count())", V, "OWN-3"),
        ("drop_na-view", VE, "        return self[~self.is_na()].copy()", "        return self[:]", V, "OWN-1"),
        ("asarray-alias", DF, "            yield colname, column[found].copy()\n        for colname, column in other.items():", "            yield colname, np.asarray(column)\n        for colname, column in other.items():", V, "OWN-1"),
        ("drop-copy-after-advanced-index-silent", DF, "            yield colname, column[keep].copy()", "            yield colname, column[keep]", S, None),
        ("take-instead-of-index-silent", DF, "            yield colname, column[keep].copy()", "            yield colname, np.take(column, keep)", S, None),
    ],
    "C07": [
        ("sum-vector-form-bare-item (D34 reverted)", AG, "    return item(np.sum(x))", "    return np.sum(x).item()", V, "GRD-item"),
        ("nth-vector-form-bare-item", AG, "        return item(x[index])", "        return x[index].item()", V, "GRD-item"),
        ("max-vector-form-bare-item", AG, "    return item(np.amax(x)) if len(x) >= 1 else x.na_value", "    return np.amax(x).item() if len(x) >= 1 else x.na_value", V, "GRD-item"),
        ("vector-std-drops-ddof", AG, "    return np.std(x, ddof=ddof).item() if len(x) >= 2 else np.nan", "    return np.std(x).item() if len(x) >= 2 else np.nan", V, "SIB-7"),
        ("numba-std-for-nonzero-ddof", AG, "            if ddof == 0:\n                # Numba doesn't support the ddof argument,\n                # so can only handle the default ddof=0.\n                f = (generic, generic_numba)\n                f = select(f, data, x)(np.std)", "            if ddof != 0:\n                # Numba doesn't support the ddof argument,\n                # so can only handle the default ddof=0.\n                f = (generic, generic_numba)\n                f = select(f, data, x)(np.std)", V, "SIB-7"),
        ("std-nrequired-1", AG, "                     default=np.nan,\n                     nrequired=2)\n\n        aggregate.group_aware = True\n        return aggregate\n    x = handle_na(x, drop_na)\n    return np.std(",
         "                     default=np.nan,\n                     nrequired=1)\n\n        aggregate.group_aware = True\n        return aggregate\n    x = handle_na(x, drop_na)\n    return np.std(", V, "SIB-7"),
        ("mean-default-zero", AG, "    return np.mean(x).item() if len(x) >= 1 else np.nan", "    return np.mean(x).item() if len(x) >= 1 else 0", V, "SIB-7"),
        ("last-drop_na-not-forwarded", AG, "    return nth(x, -1, drop_na=drop_na)", "    return nth(x, -1)", V, "FWD"),
        ("median-other-function", AG, "    return np.median(x).item() if len(x) >= 1 else np.nan", "    return np.mean(x).item() if len(x) >= 1 else np.nan", V, "SIB-7"),
        ("max-nrequired-0", AG, "            f = select(f, data, x)(np.amax)\n            aggregate.default = data[x].na_value\n            return f(data[x],\n                     data._group_,\n                     drop_na=(\n                         drop_na and\n                         data[x].is_na().any()),\n                     default=None,\n                     nrequired=1)",
         "            f = select(f, data, x)(np.amax)\n            aggregate.default = data[x].na_value\n            return f(data[x],\n                     data._group_,\n                     drop_na=(\n                         drop_na and\n                         data[x].is_na().any()),\n                     default=None,\n                     nrequired=0)", V, None),
        ("sum-drop_na-of-other-column", AG, "            f = select(f, data, x)(np.sum)\n            aggregate.default = 0\n            return f(data[x],\n                     data._group_,\n                     drop_na=(\n                         drop_na and\n                         data[x].is_na().any()),",
         "            f = select(f, data, x)(np.sum)\n            aggregate.default = 0\n            return f(data[x],\n                     data._group_,\n                     drop_na=(\n                         data[x].is_na().any()),", V, "SIB-7"),
    ],
    "C08": [
        ("median-stays-compiled-with-kept-na (D36 reverted)", AG, "            if not drop_na and data[x].is_na().any():\n                # Numba's np.median doesn't propagate missing values.\n                f = generic(np.median)\n", "", V, "NA-prop"),
        ("median-python-path-whenever-na-kept", AG, "            if not drop_na and data[x].is_na().any():\n                # Numba's np.median", "            if not drop_na:\n                # Numba's np.median", S, None),
        ("timedelta-readmitted-to-numba (D35 reverted)", AG, "        np.issubdtype(x.dtype, np.datetime64) or\n", "        np.issubdtype(x.dtype, np.datetime64) or\n        np.issubdtype(x.dtype, np.timedelta64) or\n", V, "UNIFY"),
        ("nth-python-kernel-exact-bounds-silent", AG, "        try:\n            yield xg[index]\n        except IndexError:\n            yield None",
         "        yield xg[index] if -len(xg) <= index < len(xg) else None", S, None),
        ("nth-python-kernel-abs-bounds", AG, "        try:\n            yield xg[index]\n        except IndexError:\n            yield None",
         "        yield xg[index] if abs(index) < len(xg) else None", V, "SIB-8"),
        ("nth-python-kernel-slice", AG, "        try:\n            yield xg[index]\n        except IndexError:\n            yield None",
         "        yield next(iter(xg[index:]), None)", V, "SIB-8"),
        ("numba-na-test-without-timedelta (timedelta is no longer admitted: D35)", AG, "    if isinstance(x, (types.NPDatetime, types.NPTimedelta)):", "    if isinstance(x, types.NPDatetime):", S, None),
        ("third-optional-list-kernel", AG, "            out.append(function(xg) if len(xg) >= nrequired else default)", "            out.append(function(xg) if len(xg) >= nrequired else None)", V, "NJIT-optional"),
        ("typed-default-for-max (one finding less, none new)", AG, "                     default=None,\n                     nrequired=1)\n\n        aggregate.group_aware = True\n        return aggregate\n    x = handle_na(x, drop_na)\n    return item(np.amax(x))", "                     default=np.nan,\n                     nrequired=1)\n\n        aggregate.group_aware = True\n        return aggregate\n    x = handle_na(x, drop_na)\n    return item(np.amax(x))", S, None),
        ("pair-swapped", AG, "            f = (nth_apply, nth_apply_numba)", "            f = (nth_apply_numba, nth_apply)", V, "SIB-8"),
        ("scanner-differs", AG, "        if j < n and group[j] == group[i]: continue\n        xij = x[i:j]\n        if drop_na:\n            xij = xij[~is_na_numba(xij)]",
         "        if j < n and group[j] == group[i]: continue\n        xij = x[i:j+0]\n        if drop_na:\n            xij = xij[~is_na_numba(xij)]", V, "SIB-8"),
        ("no-datetime-na", AG, "    if isinstance(x, (types.NPDatetime, types.NPTimedelta)):\n        return lambda x: np.isnat(x)", "    pass", V, "SIB-9"),
        ("mode-kernel-without-diagonal", AG, "                    if j == i or xg[j] == xg[i]:", "                    if xg[j] == xg[i]:", V, "SIB-8"),
        ("mode-kernel-counts-from-one-silent", AG, "            ng = np.full(len(xg), 0)\n            for i in range(len(xg)):\n                for j in range(len(xg)):\n                    # Count each element for itself too, like\n                    # statistics.mode does, even if NaN or NaT.\n                    if j == i or xg[j] == xg[i]:",
         "            ng = np.full(len(xg), 1)\n            for i in range(len(xg)):\n                for j in range(len(xg)):\n                    if j != i and xg[j] == xg[i]:", S, None),
        ("numba-admits-every-integer-width", AG, "        x.dtype == np.int64)", "        np.issubdtype(x.dtype, np.integer))", V, "SIB-8"),
        ("numba-admits-every-float-width", AG, "        x.dtype == np.float64 or", "        np.issubdtype(x.dtype, np.floating) or", V, "SIB-8"),
        ("numba-eligibility-as-dtype-set-silent", AG, "        x.dtype == np.float64 or\n        x.dtype == np.int64)", "        x.dtype in (np.float64, np.int64))", S, None),
        ("quantile-numba-threshold", AG, "        out.append(np.quantile(xg, q) if len(xg) >= 1 else np.nan)", "        out.append(np.quantile(xg, q) if len(xg) >= 2 else np.nan)", V, "SIB-8"),
        ("kernel-sorts-in-place", AG, "    for xg in yield_groups_numba(x, group, drop_na):\n        out.append(len(np.unique(xg)))", "    for xg in yield_groups_numba(x, group, drop_na):\n        xg.sort()\n        out.append(len(np.unique(xg)))", V, "PURE-kernel"),
        ("no-cache-flag", AG, "@njit(cache=dataiter.USE_NUMBA_CACHE)\ndef mode_apply_numba", "@njit(cache=True)\ndef mode_apply_numba", V, "SIB-8"),
    ],
    "C09": [
        ('unselect-unwraps-single-name', 'dataiter/data_frame.py', '        for colname in self.colnames:\n            if colname not in colnames:', '        if len(colnames) == 1:\n            colnames = colnames[0]\n        for colname in self.colnames:\n            if colname not in colnames:', V, 'ARG-names'),
        ('unselect-unwraps-guarded', 'dataiter/data_frame.py', '        for colname in self.colnames:\n            if colname not in colnames:', '        if len(colnames) == 1 and not isinstance(colnames[0], str):\n            colnames = tuple(colnames[0])\n        for colname in self.colnames:\n            if colname not in colnames:', S, 'ARG-names'),
        ("rbind-set-union", DF, "        colnames = util.unique_keys(itertools.chain(*data_frames))", "        colnames = list(set(itertools.chain(*data_frames)))", V, "ORD-2"),
        ("rbind-skip-empty", DF, "        data_frames = [self] + list(others)\n        colnames = util.unique_keys", "        data_frames = [x for x in [self] + list(others) if x.nrow > 0]\n        colnames = util.unique_keys", V, "ORD-2"),
        ("rename-by-target-name", DF, "            yield to, self[fm].copy()", "            yield to, self[to].copy() if to in self else self[fm].copy()", V, "NAME"),
        ("cbind-last-wins", DF, "                if colname in found_colnames: continue\n", "", V, "DUP"),
        ("colnames-sequential", DF, "        columns = [self.pop(x) for x in old]\n        for to, column in zip(new, columns):\n            self[to] = column", "        for fm, to in zip(old, new):\n            self[to] = self.pop(fm)", V, "STO-6"),
        ("select-head", DF, "        for colname in colnames:\n            yield colname, self[colname].copy()", "        for colname in colnames:\n            yield colname, self[colname][:10].copy()", V, "NAME"),
    ],
    "C10": [
        ("replace_na-nan_to_num-keeps-inf-silent", VE, "        vector = self.copy()\n        vector[vector.is_na()] = value\n        return vector",
         "        if self.is_float() and isinstance(value, float):\n            return np.nan_to_num(self, copy=True, nan=value, posinf=np.inf, neginf=-np.inf).view(self.__class__)\n        vector = self.copy()\n        vector[vector.is_na()] = value\n        return vector", S, None),
        ("replace_na-nan_to_num", VE, "        vector = self.copy()\n        vector[vector.is_na()] = value\n        return vector",
         "        if self.is_float() and isinstance(value, float):\n            return np.nan_to_num(self, copy=True, nan=value).view(self.__class__)\n        vector = self.copy()\n        vector[vector.is_na()] = value\n        return vector", V, "LOSSY-call"),
        ("unique_types-guarded-fast-path-silent", UT, "def unique_types(seq):\n", "def unique_types(seq):\n    if not any(isinstance(x, float) for x in seq):\n        return set(x.__class__ for x in seq if x is not None)\n", S, None),
        ("integer-before-timedelta", VE, "        if self.is_timedelta():\n            return self.dtype\n        if self.is_float():\n            return self.dtype\n        if self.is_integer():\n            return float",
         "        if self.is_integer():\n            return float\n        if self.is_timedelta():\n            return self.dtype\n        if self.is_float():\n            return self.dtype", V, "SIB-9"),
        ("string-na-none", VE, "        if self.is_string() or self._is_string_fixed():\n            return dtypes.string.na_object\n        # Note that using None", "        if self.is_string():\n            return dtypes.string.na_object\n        # Note that using None", V, "SIB-9"),
        ("substitute-none-only", VE, "        seq = [na if\n               x is None or\n               (isinstance(x, float) and np.isnan(x))\n               else x for x in seq]", "        seq = [na if\n               x is None\n               else x for x in seq]", V, "SIB-pred"),
        ("tolist-no-none", VE, "        return np.where(self.is_na(), None, self).tolist()", "        return np.asarray(self).tolist()", V, "NA-flow"),
        ("swap-float-datetime-branches-silent", VE, "        if self.is_datetime():\n            return np.datetime64(\"NaT\")\n        if self.is_timedelta():\n            return np.timedelta64(\"NaT\")\n        if self.is_float():\n            return np.nan",
         "        if self.is_float():\n            return np.nan\n        if self.is_datetime():\n            return np.datetime64(\"NaT\")\n        if self.is_timedelta():\n            return np.timedelta64(\"NaT\")", S, None),
    ],
    "C11": [
        ("ordinal-unstable", VE, "            indices = self[~na].argsort(kind=\"stable\")", "            indices = self[~na].argsort()", V, "ORD-3"),
        ("mask-before-reverse", VE, "        new = self[opt.argsort(kind=\"stable\")]\n        if dir < 0:\n            new = new[::-1]\n        na = new.is_na()", "        new = self[opt.argsort(kind=\"stable\")]\n        na = new.is_na()\n        if dir < 0:\n            new = new[::-1]", V, "SIB-na-last"),
        ("rank-max-no-na", VE, "            out[~na] = np.bincount(inv).cumsum()[inv]\n            out[na] = len(self)\n", "            out[~na] = np.bincount(inv).cumsum()[inv]\n", V, "MPT-rank"),
        ("unique-unsorted-indices", VE, "        return self[indices.sort()].copy()", "        return self[indices].copy()", V, "ORD-unique"),
        ("rank-min-max-of-empty", VE, "            out[na] = (~na).sum() + 1", "            out[na] = out[~na].max() + 1", V, "GRD-empty"),
        ("unknown-method-falls-through", VE, "        raise ValueError(f\"Unexpected method: {method!r}\")", "        pass", V, "MPT-rank"),
    ],
    "C12": [
        ("json-defaults-override-caller", LO, "        kwargs.setdefault(\"default\", str)\n        kwargs.setdefault(\"ensure_ascii\", False)\n        kwargs.setdefault(\"indent\", 2)\n        return json.dumps(self, **kwargs)", "        kwargs = dict(kwargs, default=str, ensure_ascii=False, indent=2)\n        return json.dumps(self, **kwargs)", V, "TRAP-kwmerge"),
        ("json-defaults-merged-under-caller-silent", LO, "        kwargs.setdefault(\"default\", str)\n        kwargs.setdefault(\"ensure_ascii\", False)\n        kwargs.setdefault(\"indent\", 2)\n        return json.dumps(self, **kwargs)", "        kwargs = dict(dict(default=str, ensure_ascii=False, indent=2), **kwargs)\n        return json.dumps(self, **kwargs)", S, None),
        ("xopen-no-xz", UT, "    if str(path).endswith(\".xz\"):\n        return lzma.open(path, mode, **kwargs)", "    pass", V, "SIB-10"),
        ("lod-read-csv-ignores-sep", LO, "            rows = list(csv.reader(f, dialect=\"unix\", delimiter=sep))", "            rows = list(csv.reader(f, dialect=\"unix\"))", V, "FWD-live"),
        ("read_pickle-plain-open", DF, "        with util.xopen(path, \"rb\") as f:\n            return cls(pickle.load(f))", "        with open(path, \"rb\") as f:\n            return cls(pickle.load(f))", V, "TNT-route"),
        ("write_csv-path-to-arrow", DF, "        with util.xopen(path, \"wb\") as f:\n            csv.write_csv(table, f,", "        if True:\n            csv.write_csv(table, path,", V, "TNT-route"),
        ("write_npz-str-path", DF, "        with open(path, \"wb\") as f:\n            savez(f, **self)", "        savez(path, **self)", V, "TNT-route"),
        ("npz-compress-ignored", DF, "        savez = np.savez_compressed if compress else np.savez", "        savez = np.savez", V, "FWD-live"),
    ],
    "C13": [
        ("to_pandas-raw-columns", DF, "        return pd.DataFrame({x: self[x].tolist() for x in self.colnames})", "        return pd.DataFrame({x: np.asarray(self[x]) for x in self.colnames})", V, "TNT-tolist"),
        ("from_pandas-no-upcast-guard", DF, "            na = data[name].isna().to_numpy(copy=True)\n            column = data[name].to_numpy(copy=True)\n            if np.issubdtype(column.dtype, np.object_):\n                if req_dtype is None or np.dtype(req_dtype) != np.dtype(object):\n                    # Likely to be strings, but not necessarily.\n                    # Force type-guessing in Vector.fast.\n                    column = column.tolist()\n            column = DataFrameColumn.fast(column, req_dtype)\n            if na.any():\n                if column.dtype != column.na_dtype:",
         "            na = data[name].isna().to_numpy(copy=True)\n            column = data[name].to_numpy(copy=True)\n            if np.issubdtype(column.dtype, np.object_):\n                if req_dtype is None or np.dtype(req_dtype) != np.dtype(object):\n                    # Likely to be strings, but not necessarily.\n                    # Force type-guessing in Vector.fast.\n                    column = column.tolist()\n            column = DataFrameColumn.fast(column, req_dtype)\n            if True:\n                if column.dtype != column.na_dtype:", V, "SIB-11"),
        ("from_arrow-nan-not-null", DF, "            na = column.is_null(nan_is_null=True).to_numpy()", "            na = column.is_null().to_numpy()", V, "SIB-11"),
        ("records-skip-none", DF, "            for i, value in enumerate(self[colname].tolist()):\n                data[i][colname] = value", "            for i, value in enumerate(self[colname].tolist()):\n                if value is None: continue\n                data[i][colname] = value", V, "TNT-tolist"),
    ],
    "C14": [
        ('from-arrow-dtypes-names-stripped', 'dataiter/data_frame.py', '        `dtypes` is an optional dict mapping column names to NumPy datatypes.\n        """\n        for name, column in zip(data.column_names, data.columns):', '        `dtypes` is an optional dict mapping column names to NumPy datatypes.\n        """\n        dtypes = {str(k).strip(): v for k, v in dict(dtypes).items()}\n        for name, column in zip(data.column_names, data.columns):', V, 'ARG-keys'),
        ('from-arrow-dtypes-rebuilt-as-is', 'dataiter/data_frame.py', '        `dtypes` is an optional dict mapping column names to NumPy datatypes.\n        """\n        for name, column in zip(data.column_names, data.columns):', '        `dtypes` is an optional dict mapping column names to NumPy datatypes.\n        """\n        dtypes = {k: v for k, v in dict(dtypes).items()}\n        for name, column in zip(data.column_names, data.columns):', S, 'ARG-keys'),
        ("alias-drops-dtypes", IO, "                              columns=columns,\n                              dtypes=dtypes)", "                              columns=columns)", V, "FWD-alias"),
        ("alias-constant-encoding", IO, "    return ListOfDicts.read_json(path,\n                                 encoding=encoding,", "    return ListOfDicts.read_json(path,\n                                 encoding=\"utf-8\",", V, "FWD-alias"),
        ("read_csv-request-order-names", LO, "                colnames = [x for x in colnames if x in keys]", "                colnames = keys", V, "TNT-order"),
        ("from_json-columns-ignored", DF, "        if columns:\n            keys = [x for x in keys if x in columns]\n", "", V, "FWD-live"),
        ("read_csv-restriction-handed-to-parser-before-rename (D37 reverted)", DF, "include_columns=columns if header else []))", "include_columns=columns))", V, "RESTR-names"),
        ("read_csv-no-select-after-rename", DF, "            if columns:\n                table = table.select(columns)\n        return cls.from_arrow(table, dtypes=dtypes)", "        return cls.from_arrow(table, dtypes=dtypes)", V, None),
        ("geojson-validates-before-geometry", GE, "        if columns:\n            data = {k: v for k, v in data.items() if k in columns}",
         "        if columns:\n            missing = [x for x in columns if x not in data]\n            if missing:\n                raise KeyError(missing)\n            data = {k: v for k, v in data.items() if k in columns}", V, "RESTR-raise"),
        ("geojson-validates-knowing-geometry", GE, "        if columns:\n            data = {k: v for k, v in data.items() if k in columns}",
         "        if columns:\n            missing = [x for x in columns if x not in data and x != \"geometry\"]\n            if missing:\n                raise KeyError(missing)\n            data = {k: v for k, v in data.items() if k in columns}", NV, None),
        ("alias-other-target", IO, "    return DataFrame.read_npz(path, allow_pickle=allow_pickle)", "    return DataFrame.read_npz(path, allow_pickle=True)", V, "FWD-alias"),
    ],
    "C15": [
        ('filter-wraps-item-value', 'dataiter/list_of_dicts.py', '                if extract(item) == values:', '                if tuple([extract(item)]) == values:', V, 'CMP-asis'),
        ("fill-shortcut-all-present-silent", LO, "        for item in self:\n            for key, value in key_value_pairs:\n                if key not in item:\n                    item[key] = value\n            yield item",
         "        for item in self:\n            if all(k in item for k, v in key_value_pairs):\n                yield item\n                continue\n            for key, value in key_value_pairs:\n                if key not in item:\n                    item[key] = value\n            yield item", S, None),
        ("fill-shortcut-by-length", LO, "        for item in self:\n            for key, value in key_value_pairs:\n                if key not in item:\n                    item[key] = value\n            yield item",
         "        for item in self:\n            if len(item) >= len(key_value_pairs):\n                yield item\n                continue\n            for key, value in key_value_pairs:\n                if key not in item:\n                    item[key] = value\n            yield item", V, "KEY-all"),
        ("wrapper-raises-early-silent", DE, "    def wrapper(self, *args, **kwargs):\n        value = function(self, *args, **kwargs)\n        return self._new(value)",
         "    def wrapper(self, *args, **kwargs):\n        if self is None:\n            raise TypeError(\"no receiver\")\n        value = function(self, *args, **kwargs)\n        return self._new(value)", S, None),
        ("add-other-first", LO, "        yield from itertools.chain(self, other)\n\n    def __copy__", "        yield from itertools.chain(other, self)\n\n    def __copy__", V, "SEQ"),
        ("mul-one-less", LO, "        for i in range(other):\n            yield from self", "        for i in range(other - 1):\n            yield from self", V, "SEQ"),
        ("fill-overwrites-none", LO, "                if key not in item:\n                    item[key] = value", "                if item.get(key) is None:\n                    item[key] = value", V, "KEY-guard"),
        ("append-no-coercion", LO, "        if not isinstance(item, AttributeDict):\n            item = AttributeDict(item)\n        yield from itertools.chain(self, [item])", "        yield from itertools.chain(self, [item])", V, "EFF-asis"),
        ("sort-keys-in-given-order", LO, "        for key, dir in list(key_dir_pairs.items())[::-1]:", "        for key, dir in list(key_dir_pairs.items()):", V, "ORD-sort"),
        ("filter_out-equal", LO, "                if extract(item) != values:", "                if extract(item) == values:", V, "SIB-12"),
        ("tail-negative-slice", LO, "        return self._new(self[len(self)-n:])", "        return self._new(self[-n:])", V, "GRD-negslice"),
        ("insert-loop", LO, "        items = list(self)\n        items.insert(index, item)\n        yield from items", "        for i in range(len(self)):\n            if i == index:\n                yield item\n            yield self[i]", V, "MPT-4"),
        ("sort-none-first", LO, "                return ((item[key] is None, item[key]) if dir > 0 else\n                        (item[key] is not None, item[key]))", "                return ((item[key] is not None, item[key]) if dir > 0 else\n                        (item[key] is None, item[key]))", V, "ORD-sort"),
    ],
    "C16": [
        ('lod-groupby-keys-sorted-set', 'dataiter/list_of_dicts.py', '        self._group_keys = tuple(keys)', '        self._group_keys = tuple(sorted(set(keys)))', V, 'ARG-names'),
        ('lod-groupby-accepts-list-guarded', 'dataiter/list_of_dicts.py', '        self._group_keys = tuple(keys)', '        if len(keys) == 1 and isinstance(keys[0], (list, tuple)):\n            keys = keys[0]\n        self._group_keys = tuple(keys)', S, 'ARG-names'),
        ("lookup-not-reversed", LO, "        other_by_id = {extract2(x): x for x in reversed(other)}\n        for item in self:\n            id = extract1(item)", "        other_by_id = {extract2(x): x for x in other}\n        for item in self:\n            id = extract1(item)", V, "ORD-4"),
        ("left_join-pops-right-item", LO, "            new = other_by_id.get(extract1(item), {})\n            new = {k: v for k, v in new.items() if k not in by2}", "            new = other_by_id.get(extract1(item), {})\n            for k in by2: new.pop(k, None)", V, None),
        ("anti-in", LO, "            if extract1(item) not in other_ids:", "            if extract1(item) in other_ids:", V, "SIB-14"),
        ("full_join-by-unswapped", LO, "        ba = b.left_join(a, *by_reverse)", "        ba = b.left_join(a, *by)", V, "SIB-15"),
        ("aggregate-unsorted", LO, "        for group in groups.sort(**dict.fromkeys(by, 1)):", "        for group in groups:", V, "AGG"),
    ],
    "C17": [
        ("head-bypasses-new", LO, "        return self._new(self[:n])", "        return self.__class__(list.__getitem__(self, slice(0, n)), as_is=True)", V, "EFF-3"),
        ("unselect-undecorated", LO, "    @deco.obsoletes\n    @deco.new_from_generator\n    def unselect", "    @deco.new_from_generator\n    def unselect", V, "EFF-1"),
        ("new-no-predecessor", LO, "        new._predecessor = self\n", "", V, "EFF-3"),
        ("inner_join-pops-right-item", LO, "                new = {k: v for k, v in new.items() if k not in by2}\n                item.update(new)\n                yield item", "                for k in by2: new.pop(k, None)\n                item.update(new)\n                yield item", V, "EFF-1"),
        ("mark-no-recursion", LO, "        if isinstance(self._predecessor, ListOfDicts):\n            self._predecessor._mark_obsolete()", "        pass", V, "EFF-2"),
        ("warn-flag-not-set", LO, "            print(\"Warning: A successor has modified the shared dicts\")\n            self._obsolete_warned = True", "            print(\"Warning: A successor has modified the shared dicts\")", V, "EFF-2"),
        ("wrapper-marks-conditionally", DE, "        value = function(self, *args, **kwargs)\n        self._mark_obsolete()\n        return value", "        value = function(self, *args, **kwargs)\n        if value: self._mark_obsolete()\n        return value", V, "EFF-2"),
        ("deepcopy-shallow", LO, "        new = self.__class__(map(copy.deepcopy, self), as_is=True)", "        new = self.__class__(map(copy.copy, self), as_is=True)", V, "EFF-3"),
        ("drop_na-writes", LO, "    @deco.new_from_generator\n    def drop_na(self, *keys):", "    @deco.new_from_generator\n    def drop_na(self, *keys):\n        for item in self: item.setdefault(\"_x\", 1)", V, "EFF-1"),
    ],
    "C18": [
        ("fill-skips-missing", GE, "                value = feature.properties.get(key, None)", "                if key not in feature.properties: continue\n                value = feature.properties[key]", V, "FILL"),
        ("features-kept-in-metadata", GE, "        del raw.features\n", "", V, "SIB-16"),
        ("raw-metadata-name", GE, "                name = json.dumps(key, ensure_ascii=kwargs[\"ensure_ascii\"])\n", "                name = '\"' + key + '\"'\n", V, "TNT-json"),
        ("writer-other-member", GE, "                blob = {\"type\": \"Feature\", \"properties\": item, \"geometry\": geometry}", "                blob = {\"type\": \"Feature\", \"props\": item, \"geometry\": geometry}", V, "SIB-16"),
        ("keys-from-first-feature", GE, "        for feature in raw.features:\n            for key in feature.properties:\n                data.setdefault(key, [])", "        for feature in raw.features[:1]:\n            for key in feature.properties:\n                data.setdefault(key, [])", V, "FILL"),
    ],
    "C19": [
        ('sub-repl-stringified', 'dataiter/regex.py', '    if util.is_scalar(string):\n        return re.sub(pattern, repl, string, count=count, flags=flags)', '    repl = repl if isinstance(repl, (str, bytes)) else str(repl)\n    if util.is_scalar(string):\n        return re.sub(pattern, repl, string, count=count, flags=flags)', V, 'ARG-pass'),
        ('sub-string-npstr-converted', 'dataiter/regex.py', '    if util.is_scalar(string):\n        return re.sub(pattern, repl, string, count=count, flags=flags)', '    if isinstance(string, np.str_):\n        string = str(string)\n    if util.is_scalar(string):\n        return re.sub(pattern, repl, string, count=count, flags=flags)', S, 'ARG-pass'),
        ("sub-vectorised-masked-silent", RE, "    out, na = _prep(string, dtypes.string, dtypes.string.na_object)\n    for i in np.flatnonzero(~na):\n        out[i] = re.sub(",
         "    out, na = _prep(string, dtypes.string, dtypes.string.na_object)\n    if isinstance(pattern, str) and pattern and re.escape(pattern) == pattern and isinstance(repl, str) and \"\\\\\" not in repl and flags == 0:\n        res = np.strings.replace(string, pattern, repl, count or -1)\n        res[na] = dtypes.string.na_object\n        return Vector.fast(res, str)\n    for i in np.flatnonzero(~na):\n        out[i] = re.sub(", S, None),
        ("proxy-other-function", VE, "        self.isoweekday = wrap(dt.isoweekday)", "        self.isoweekday = wrap(dt.weekday)", V, "FWD-registry"),
        ("vector-branch-other-re", RE, "        out[i] = re.match(pattern, string[i], flags=flags)", "        out[i] = re.search(pattern, string[i], flags=flags)", V, "SIB-17"),
        ("extractor-other-member", DT, "    return _pull_int(x, lambda y: y.isoweekday())", "    return _pull_int(x, lambda y: y.weekday())", V, "SIB-18"),
        ("scalar-branch-drops-maxsplit", RE, "        return re.split(pattern, string, maxsplit=maxsplit, flags=flags)", "        return re.split(pattern, string, flags=flags)", V, "SIB-17"),
        ("from_string-no-guard", DT, "    if na.all(): return out.as_datetime()\n", "", V, "GRD-empty"),
        ("pull_str-raw-early-return", DT, "    if na.all(): return out.as_string()", "    if na.all(): return out", V, "MPT-5"),
    ],
    "C20": [
        ('to-string-int-of-limit', 'dataiter/data_frame.py', '        max_rows = max_rows or dataiter.PRINT_MAX_ROWS', '        max_rows = int(max_rows or dataiter.PRINT_MAX_ROWS)', V, 'GRD-num'),
        ('to-string-int-of-limit-guarded', 'dataiter/data_frame.py', '        max_rows = max_rows or dataiter.PRINT_MAX_ROWS', '        max_rows = max_rows or dataiter.PRINT_MAX_ROWS\n        if isinstance(max_rows, np.integer):\n            max_rows = int(max_rows)', S, 'GRD-num'),
        ("to_string-default-read-at-import", DF, "    def to_string(self, *, max_rows=None, max_width=None, truncate_width=None):", "    def to_string(self, *, max_rows=dataiter.PRINT_MAX_ROWS, max_width=None, truncate_width=None):", V, "TRAP-frozen"),
        ("cells-cut-by-line-count-only", VE, "                    (\"\".join(lines) != strings[i] and truncate_width < inf)):\n                    strings[i] = util.utruncate(lines[0], truncate_width-1) + \"…\"\n            return self.__class__.fast(pad(strings), str)\n        if self.is_string():",
         "                    (len(lines) > 1 and truncate_width < inf)):\n                    strings[i] = util.utruncate(lines[0], truncate_width-1) + \"…\"\n            return self.__class__.fast(pad(strings), str)\n        if self.is_string():", V, "SIB-pad"),
        ("geojson-render-through-modify", GE, "            self = self.copy()\n            self[\"geometry\"] = Vector.fast(geometry, object)", "            self = self.modify(geometry=Vector.fast(geometry, object))", V, "GRD-empty"),
        ("dtype-label-memo-by-num", VE, "            return \"string\"\n        return str(self.dtype)", "            return \"string\"\n        if self.dtype.num not in TYPE_CONVERSIONS_LABELS:\n            TYPE_CONVERSIONS_LABELS[self.dtype.num] = str(self.dtype)\n        return TYPE_CONVERSIONS_LABELS[self.dtype.num]\n\nTYPE_CONVERSIONS_LABELS = {}\n\nclass _Unused:\n    pass\n\n    def _unused(self):\n        return None", V, "MEMO-proj"),
        ("geojson-no-truncate_width", GE, "    def to_string(self, *, max_rows=None, max_width=None, truncate_width=None):", "    def to_string(self, *, max_rows=None, max_width=None):", V, "FWD-override"),
        ("null-geometry-unguarded", GE, "            geometry = [f\"<{x['type']}>\" if x is not None else str(x) for x in self.geometry]", "            geometry = [f\"<{x['type']}>\" for x in self.geometry]", V, "GRD-null"),
        ("to_strings-no-empty-guard", VE, "        if self.length == 0:\n            return self.__class__.fast([], str)\n        identity", "        identity", V, "GRD-empty"),
        ("render-mutates", VE, "        if self.is_string():\n            strings = [quote(x) for x in self]", "        if self.is_string():\n            self[self.is_na()] = \"NA\"\n            strings = [quote(x) for x in self]", V, "EFF-render"),
        ("cells-unpadded", DF, "        columns = {colname: util.upad(\n            [colname] +", "        columns = {colname: list(\n            [colname] +", V, "SIB-pad"),
        ("no-footer", DF, "        if max_rows < self.nrow:\n            rows_to_print.append(f\"... {self.nrow} rows total\")\n", "", V, "SIB-pad"),
        ("rows-budget-off-by-one", DF, "        n = min(self.nrow, max_rows)\n        columns = {colname: util.upad(", "        n = min(self.nrow, max_rows - 1)\n        columns = {colname: util.upad(", V, "SIB-pad"),
        ("geojson-cuts-rows-first", GE, "            self = self.copy()\n            self[\"geometry\"] = Vector.fast(geometry, object)", "            self = self.copy().head(max_rows or 100)\n            self[\"geometry\"] = Vector.fast(geometry[:self.nrow], object)", V, "FWD-override"),
        ("separator-len", DF, "            column.insert(2, \"─\" * util.ulen(column[0]))", "            column.insert(2, \"─\" * len(column[0]))", V, "SIB-pad"),
    ],
}


def _seed_overlays(pid, root):
    """Overlays from the confirmed seeded changes that this property's check is recorded to catch."""
    out = []
    here = os.path.dirname(os.path.dirname(os.path.abspath(__file__)))
    for meta_path in sorted(glob.glob(os.path.join(here, "seeded", "*", "meta.json"))):
        meta = json.load(open(meta_path))
        if pid not in meta.get("caught_by", []) or meta.get("retired"):
            continue        # retired: the edited statements were removed by a later repair of /repo (reason in meta.json)
        patch = os.path.join(os.path.dirname(meta_path), "patch.diff")
        tmp = tempfile.mkdtemp(prefix="sa-variant-")
        try:
            os.makedirs(os.path.join(tmp, "dataiter"))
            for f in glob.glob(os.path.join(root, "dataiter", "*.py")):
                shutil.copy(f, os.path.join(tmp, "dataiter"))
            # only the package's own modules are analysed: drop hunks for doc/, tests, ...
            text_ = open(patch, encoding="utf-8").read()
            parts = re.split(r"(?m)^(?=diff --git )", text_)
            kept = "".join(p_ for p_ in parts if re.match(r"diff --git a/dataiter/[A-Za-z_]+\.py ", p_))
            fpatch = os.path.join(tmp, "filtered.diff")
            open(fpatch, "w", encoding="utf-8").write(kept or text_)
            r = subprocess.run(["patch", "-p1", "-s", "-d", tmp, "-i", fpatch], capture_output=True, text=True)
            if r.returncode != 0:
                out.append((f"seed:{meta['seed']}", None, "stale"))
                continue
            ov = {}
            for f in glob.glob(os.path.join(tmp, "dataiter", "*.py")):
                rel = "dataiter/" + os.path.basename(f)
                src = open(f).read()
                if src != open(os.path.join(root, rel)).read():
                    ov[rel] = src
            out.append((f"seed:{meta['seed']}", ov, V))
        finally:
            shutil.rmtree(tmp, ignore_errors=True)
    return out


def _refactor_overlays(root):
    """Overlays from the committed behaviour-preserving refactorings: every check must stay silent (refactors/), or at
    least never report a violation (refactors_large/: whole methods rewritten, where an anchor may honestly vanish)."""
    out = []
    here = os.path.dirname(os.path.dirname(os.path.abspath(__file__)))
    for patch in sorted(glob.glob(os.path.join(here, "refactors", "*", "patch.diff")) +
                        glob.glob(os.path.join(here, "refactors_large", "*", "patch.diff")) +
                        glob.glob(os.path.join(here, "additions", "*", "patch.diff"))):
        kind = os.path.basename(os.path.dirname(os.path.dirname(patch)))
        large = kind == "refactors_large"
        name = {"refactors_large": "rewrite:", "additions": "addition:"}.get(kind, "refactor:") + os.path.basename(os.path.dirname(patch))
        tmp = tempfile.mkdtemp(prefix="sa-variant-")
        try:
            os.makedirs(os.path.join(tmp, "dataiter"))
            for f in glob.glob(os.path.join(root, "dataiter", "*.py")):
                shutil.copy(f, os.path.join(tmp, "dataiter"))
            text_ = open(patch, encoding="utf-8").read()
            parts = re.split(r"(?m)^(?=diff --git )", text_)
            kept = "".join(p_ for p_ in parts if re.match(r"diff --git a/dataiter/[A-Za-z_]+\.py ", p_))
            fpatch = os.path.join(tmp, "filtered.diff")
            open(fpatch, "w", encoding="utf-8").write(kept or text_)
            r = subprocess.run(["patch", "-p1", "-s", "-d", tmp, "-i", fpatch], capture_output=True, text=True)
            if r.returncode != 0:
                out.append((name, None, "stale"))
                continue
            ov = {}
            for f in glob.glob(os.path.join(tmp, "dataiter", "*.py")):
                rel = "dataiter/" + os.path.basename(f)
                src = open(f).read()
                if src != open(os.path.join(root, rel)).read():
                    ov[rel] = src
            # additions may call an external API the operation table does not know yet: that is an honest ANALYSIS-ERROR
            out.append((name, ov, NV if (large or kind == "additions") else S))
        finally:
            shutil.rmtree(tmp, ignore_errors=True)
    return out


def _run_variant(args):
    pid, root, name, overlay, expect, rule, base_keys = args
    try:
        repo = Repo(root, overlay=overlay)
        ctx = report.Context(pid, repo, "thorough")
        mod = importlib.import_module(f"sa.props.{pid}")
        report.run_check(mod, ctx)
    except AnalysisError as e:
        if expect == NV:
            return name, expect, "silent", "analysis-error (accepted for whole-method rewrites): " + str(e)[:120]
        return name, expect, "analysis-error", str(e)[:200]
    known = report.load_known()
    bad = [o for o in ctx.obligations if o.verdict == report.VIOLATED and not report.match_known(o, known)
           and o.key not in base_keys]
    if expect == V:
        hit = [o for o in bad if rule is None or o.rule == rule]
        if hit:
            return name, expect, "reported", f"{hit[0].rule}: {hit[0].function}: {hit[0].construct}"[:200]
        return name, expect, "MISSED", f"{len(bad)} other violation(s): {[o.rule for o in bad][:4]}"
    if bad:
        return name, expect, "FALSE-ALARM", f"{bad[0].rule}: {bad[0].function}: {bad[0].construct}: {bad[0].why}"[:300]
    return name, expect, "silent", ""


def sweep(pid, root, ctx, seed=0):
    base_keys = {o.key for o in ctx.obligations if o.verdict == report.VIOLATED}
    jobs = []
    stale = []
    for name, rel, old, new, expect, rule in TABLE.get(pid, []):
        src = open(os.path.join(root, rel), encoding="utf-8").read()
        if src.count(old) != 1:
            stale.append(name)
            continue
        mutated = src.replace(old, new)
        try:
            ast.parse(mutated)
        except SyntaxError as e:
            raise AnalysisError(f"variant {pid}/{name} does not parse: {e}")
        jobs.append((pid, root, name, {rel: mutated}, expect, rule, base_keys))
    for name, ov, expect in _seed_overlays(pid, root) + _refactor_overlays(root):
        if ov is None:
            stale.append(name)
        else:
            jobs.append((pid, root, name, ov, expect, None, base_keys))
    total = len(jobs) + len(stale)
    if total == 0:
        raise AnalysisError(f"no variants defined for {pid}")
    if len(stale) * 2 > total:
        raise AnalysisError(f"{len(stale)} of {total} variants of {pid} are stale ({stale[:5]}...): the variant table must be re-confirmed")
    jobs.sort(key=lambda j: (hash((j[2], seed)) & 0xffff))
    results = []
    workers = min(16, max(1, len(jobs)))
    with ProcessPoolExecutor(max_workers=workers) as ex:
        for r in ex.map(_run_variant, jobs):
            results.append(r)
    bad = [r for r in results if r[2] in ("MISSED", "FALSE-ALARM", "analysis-error")]
    info = {
        "generated": len(jobs), "stale": stale,
        "reported": sum(1 for r in results if r[2] == "reported"),
        "silent_as_expected": sum(1 for r in results if r[2] == "silent"),
        "unexpected": [list(r) for r in bad],
        "details": [list(r) for r in sorted(results)],
    }
    if bad:
        r = bad[0]
        raise AnalysisError(f"variant sweep of {pid}: variant '{r[0]}' expected {r[1]} but got {r[2]} ({r[3]}); "
                            f"{len(bad)} unexpected of {len(jobs)}")
    return info


def selftest(root="/repo"):
    """Run the sweep of every property (used by ./vcheck selftest)."""
    from .main import run_property
    code = 0
    for pid in sorted(TABLE):
        try:
            ctx, mod = run_property(pid, root, "thorough")
            info = sweep(pid, root, ctx)
            print(f"{pid}: {info['reported']} reported + {info['silent_as_expected']} silent of {info['generated']} variants"
                  + (f" ({len(info['stale'])} stale)" if info["stale"] else ""))
        except AnalysisError as e:
            print(f"ANALYSIS-ERROR {pid}: {e}")
            code = 2
    return code
