"""E1 -- repository model and resolver (stdlib ``ast`` only).

Parses every non-test module of the package in the *current* working tree and
builds: modules, import-alias maps, classes with MRO, functions (methods,
nested defs and closures included), resolved decorators, a dotted-name
resolver and a call resolver.  Nothing is imported or executed.
"""
import ast
import builtins
import os

PKG = "dataiter"


class AnalysisError(Exception):
    """The analysis cannot give a verdict (fail closed: exit 2)."""


class Module:
    def __init__(self, name, path, src):
        self.name = name
        self.path = path
        self.src = src
        try:
            self.tree = ast.parse(src, filename=path)
        except SyntaxError as e:
            raise AnalysisError(f"cannot parse {path}: {e}")
        self.imports = {}      # local name -> dotted target
        self.functions = {}    # name -> FunctionInfo
        self.classes = {}      # name -> ClassInfo
        self.globals = set()   # other module-level names
        self.parent = {}

    def build_parents(self):
        self.parent = {}
        for node in ast.walk(self.tree):
            for child in ast.iter_child_nodes(node):
                self.parent[child] = node


class ClassInfo:
    def __init__(self, module, node):
        self.module = module
        self.node = node
        self.name = node.name
        self.qualname = f"{module.name}.{node.name}"
        self.base_exprs = node.bases
        self.bases = []        # dotted names, filled by Repo
        self.methods = {}      # key -> FunctionInfo  (key: name or name@setter)
        self.attrs = {}        # class-level simple assignments name -> value node

    def __repr__(self):
        return f"<class {self.qualname}>"


class FunctionInfo:
    def __init__(self, module, node, cls=None, parent=None):
        self.module = module
        self.node = node
        self.cls = cls
        self.parent = parent           # enclosing FunctionInfo for nested defs
        self.name = node.name
        self.key = node.name
        self.decorators = []           # dotted names (resolved), filled by Repo
        self.decorator_nodes = list(node.decorator_list)
        self.nested = {}               # name -> FunctionInfo
        self.local_imports = {}
        a = node.args
        self.posonly = [x.arg for x in a.posonlyargs]
        self.params = [x.arg for x in a.posonlyargs + a.args]
        self.kwonly = [x.arg for x in a.kwonlyargs]
        self.vararg = a.vararg.arg if a.vararg else None
        self.kwarg = a.kwarg.arg if a.kwarg else None
        self.defaults = {}
        pos = a.posonlyargs + a.args
        for p, d in zip(pos[len(pos) - len(a.defaults):], a.defaults):
            self.defaults[p.arg] = d
        for p, d in zip(a.kwonlyargs, a.kw_defaults):
            if d is not None:
                self.defaults[p.arg] = d
        self.locals = set()
        self.is_generator = False
        self.qualname = None

    @property
    def all_params(self):
        out = list(self.params) + list(self.kwonly)
        if self.vararg:
            out.append(self.vararg)
        if self.kwarg:
            out.append(self.kwarg)
        return out

    @property
    def lineno(self):
        return self.node.lineno

    @property
    def relpath(self):
        return self.module.path

    def has_decorator(self, dotted_suffix):
        return any(d == dotted_suffix or d.endswith("." + dotted_suffix)
                   for d in self.decorators if d)

    def is_public(self):
        return not self.name.startswith("_")

    def __repr__(self):
        return f"<function {self.qualname}>"


def body_nodes(fnode, include_lambdas=True):
    """Yield all AST nodes of a function body, not descending into nested
    function/class definitions (lambdas are part of the body)."""
    stack = list(reversed(fnode.body)) if hasattr(fnode, "body") and isinstance(fnode.body, list) else [fnode.body]
    while stack:
        n = stack.pop()
        yield n
        if isinstance(n, (ast.FunctionDef, ast.AsyncFunctionDef, ast.ClassDef)):
            # a nested definition: its decorators/defaults belong to us, its body does not
            for c in n.decorator_list:
                stack.append(c)
            continue
        for c in ast.iter_child_nodes(n):
            if isinstance(c, (ast.FunctionDef, ast.AsyncFunctionDef, ast.ClassDef)):
                # the def statement itself is visible (name binding + decorators)
                yield c
                continue
            if isinstance(c, ast.Lambda) and not include_lambdas:
                continue
            stack.append(c)


def assigned_names(target):
    if isinstance(target, ast.Name):
        yield target.id
    elif isinstance(target, (ast.Tuple, ast.List)):
        for e in target.elts:
            yield from assigned_names(e)
    elif isinstance(target, ast.Starred):
        yield from assigned_names(target.value)


class Repo:
    def __init__(self, root="/repo", overlay=None):
        self.root = root
        self.overlay = overlay or {}
        self.modules = {}
        self.functions = {}
        self.classes = {}
        self._load()
        self._index()

    # ------------------------------------------------------------------ load
    def _load(self):
        pkgdir = os.path.join(self.root, PKG)
        if not os.path.isdir(pkgdir):
            raise AnalysisError(f"package directory missing: {pkgdir}")
        for fn in sorted(os.listdir(pkgdir)):
            if not fn.endswith(".py"):
                continue
            rel = f"{PKG}/{fn}"
            path = os.path.join(pkgdir, fn)
            if rel in self.overlay:
                src = self.overlay[rel]
            else:
                with open(path, encoding="utf-8") as f:
                    src = f.read()
            name = PKG if fn == "__init__.py" else f"{PKG}.{fn[:-3]}"
            self.modules[name] = Module(name, rel, src)
        if len(self.modules) < 12:
            raise AnalysisError(f"only {len(self.modules)} modules parsed (expected >= 12)")
        # top-level imports are needed by the normaliser to resolve helper calls
        for mod in self.modules.values():
            for node in mod.tree.body:
                self._index_import(node, mod.imports)
        from . import canon
        self.canon_log = canon.canonicalise(self.modules)
        for mod in self.modules.values():
            mod.build_parents()

    def _index(self):
        for mod in self.modules.values():
            self._index_module(mod)
        for mod in self.modules.values():
            for cls in mod.classes.values():
                cls.bases = [self.dotted_in_module(mod, b) for b in cls.base_exprs]
        for fn in list(self.functions.values()):
            fn.decorators = [self._decorator_name(fn, d) for d in fn.decorator_nodes]

    def _index_module(self, mod):
        for node in mod.tree.body:
            self._index_import(node, mod.imports)
            if isinstance(node, (ast.Try, ast.With, ast.If)):
                for sub in ast.walk(node):
                    if isinstance(sub, (ast.Import, ast.ImportFrom)):
                        self._index_import(sub, mod.imports)
                    elif isinstance(sub, ast.FunctionDef) and sub in node.body + sum(
                            [h.body for h in getattr(node, "handlers", [])], []):
                        pass
            if isinstance(node, ast.FunctionDef):
                fi = self._add_function(mod, node, None, None)
                mod.functions[node.name] = fi
            elif isinstance(node, ast.ClassDef):
                ci = ClassInfo(mod, node)
                mod.classes[node.name] = ci
                self.classes[ci.qualname] = ci
                for sub in node.body:
                    if isinstance(sub, ast.FunctionDef):
                        fi = self._add_function(mod, sub, ci, None)
                        ci.methods[fi.key] = fi
                    elif isinstance(sub, ast.Assign):
                        for t in sub.targets:
                            for nm in assigned_names(t):
                                ci.attrs[nm] = sub.value
            elif isinstance(node, (ast.Assign, ast.AnnAssign, ast.AugAssign)):
                targets = node.targets if isinstance(node, ast.Assign) else [node.target]
                for t in targets:
                    for nm in assigned_names(t):
                        mod.globals.add(nm)

    @staticmethod
    def _index_import(node, table):
        if isinstance(node, ast.Import):
            for a in node.names:
                if a.asname:
                    table[a.asname] = a.name
                else:
                    table[a.name.split(".")[0]] = a.name.split(".")[0]
        elif isinstance(node, ast.ImportFrom) and node.level == 0:
            for a in node.names:
                table[a.asname or a.name] = f"{node.module}.{a.name}"

    def _add_function(self, mod, node, cls, parent):
        fi = FunctionInfo(mod, node, cls, parent)
        # property setter key
        for d in node.decorator_list:
            if isinstance(d, ast.Attribute) and d.attr in ("setter", "deleter"):
                fi.key = f"{node.name}@{d.attr}"
        if parent is not None:
            fi.qualname = f"{parent.qualname}.{fi.key}"
        elif cls is not None:
            fi.qualname = f"{cls.qualname}.{fi.key}"
        else:
            fi.qualname = f"{mod.name}.{fi.key}"
        self.functions[fi.qualname] = fi
        # locals, nested, generator-ness, local imports
        for p in fi.all_params:
            fi.locals.add(p)
        for n in body_nodes(node):
            if isinstance(n, ast.FunctionDef):
                sub = self._add_function(mod, n, cls, fi)
                fi.nested[n.name] = sub
                fi.locals.add(n.name)
            elif isinstance(n, (ast.Yield, ast.YieldFrom)):
                if self._owner_is(mod, n, node):
                    fi.is_generator = True
            elif isinstance(n, (ast.Import, ast.ImportFrom)):
                self._index_import(n, fi.local_imports)
            elif isinstance(n, ast.Name) and isinstance(n.ctx, (ast.Store, ast.Del)):
                if not self._in_comprehension_or_lambda_scope(mod, n, node):
                    fi.locals.add(n.id)
            elif isinstance(n, ast.NamedExpr):
                fi.locals.add(n.target.id)
        return fi

    @staticmethod
    def _owner_is(mod, n, fnode):
        p = mod.parent.get(n)
        while p is not None:
            if isinstance(p, (ast.FunctionDef, ast.Lambda)):
                return p is fnode
            p = mod.parent.get(p)
        return False

    @staticmethod
    def _in_comprehension_or_lambda_scope(mod, n, fnode):
        p = mod.parent.get(n)
        while p is not None and p is not fnode:
            if isinstance(p, (ast.ListComp, ast.SetComp, ast.DictComp, ast.GeneratorExp, ast.Lambda)):
                return True
            p = mod.parent.get(p)
        return False

    # -------------------------------------------------------------- resolver
    def canonical(self, dotted):
        """Follow package re-exports: dataiter.Vector -> dataiter.vector.Vector."""
        if not dotted:
            return dotted
        for _ in range(6):
            parts = dotted.split(".")
            changed = False
            for i in range(len(parts), 0, -1):
                modname = ".".join(parts[:i])
                mod = self.modules.get(modname)
                if mod is None or i == len(parts):
                    continue
                head = parts[i]
                if f"{modname}.{head}" in self.modules:
                    continue
                if head in mod.functions or head in mod.classes:
                    break
                if head in mod.imports:
                    dotted = ".".join([mod.imports[head]] + parts[i + 1:])
                    changed = True
                break
            if not changed:
                break
        return dotted

    def dotted_in_module(self, mod, expr):
        if isinstance(expr, ast.Name):
            n = expr.id
            if n in mod.imports:
                return self.canonical(mod.imports[n])
            if n in mod.functions or n in mod.classes or n in mod.globals:
                return f"{mod.name}.{n}"
            if hasattr(builtins, n):
                return f"builtins.{n}"
            return None
        if isinstance(expr, ast.Attribute):
            base = self.dotted_in_module(mod, expr.value)
            if base:
                return self.canonical(f"{base}.{expr.attr}")
        if isinstance(expr, ast.Call):
            # decorator factories: njit(cache=...) -> njit
            return self.dotted_in_module(mod, expr.func)
        return None

    def dotted(self, fn, expr):
        """Resolve an expression in the scope of function ``fn`` to a dotted
        name, or None when it denotes a local value."""
        if fn is None:
            raise ValueError("fn required")
        if isinstance(expr, ast.Name):
            n = expr.id
            scope = fn
            while scope is not None:
                if n in scope.local_imports:
                    return self.canonical(scope.local_imports[n])
                if n in scope.nested:
                    return scope.nested[n].qualname
                if n in scope.locals:
                    return None
                scope = scope.parent
            return self.dotted_in_module(fn.module, expr)
        if isinstance(expr, ast.Attribute):
            base = self.dotted(fn, expr.value)
            if base:
                return self.canonical(f"{base}.{expr.attr}")
            return None
        return None

    def _decorator_name(self, fn, d):
        if isinstance(d, ast.Call):
            d = d.func
        if isinstance(d, ast.Attribute) and d.attr in ("setter", "deleter", "getter"):
            return f"property.{d.attr}"
        return self.dotted_in_module(fn.module, d)

    # ------------------------------------------------------------------- MRO
    def mro(self, cls):
        """Linearised bases: ClassInfo objects, then external dotted names."""
        out = []
        seen = set()

        def walk(c):
            if isinstance(c, ClassInfo):
                if c.qualname in seen:
                    return
                seen.add(c.qualname)
                out.append(c)
                for b in c.bases:
                    bc = self.classes.get(b) if b else None
                    walk(bc if bc is not None else b)
            elif c and c not in seen:
                seen.add(c)
                out.append(c)
        walk(cls)
        return out

    def subclasses(self, cls):
        return [c for c in self.classes.values()
                if c is not cls and cls in self.mro(c)]

    def lookup_method(self, cls, name, after=None):
        """Find ``name`` along the MRO of ``cls`` (optionally after class
        ``after``).  Returns FunctionInfo, or the external base dotted name
        (e.g. 'builtins.dict') when no package class defines it."""
        chain = self.mro(cls)
        if after is not None:
            chain = chain[chain.index(after) + 1:]
        for c in chain:
            if isinstance(c, ClassInfo):
                if name in c.methods:
                    return c.methods[name]
            else:
                return c
        return None

    def method_targets(self, cls, name):
        """All definitions dynamic dispatch may select for self.name in code
        of class ``cls``: the MRO hit plus overrides in subclasses."""
        out = []
        hit = self.lookup_method(cls, name)
        if isinstance(hit, FunctionInfo):
            out.append(hit)
        for sub in self.subclasses(cls):
            if name in sub.methods and sub.methods[name] not in out:
                out.append(sub.methods[name])
        return out, (hit if not isinstance(hit, FunctionInfo) else None)

    # ---------------------------------------------------------------- lookup
    def fn(self, qualname):
        f = self.functions.get(qualname)
        if f is None:
            raise AnalysisError(f"anchor vanished: function {qualname} not found")
        return f

    def cls(self, qualname):
        c = self.classes.get(qualname)
        if c is None:
            raise AnalysisError(f"anchor vanished: class {qualname} not found")
        return c

    def methods_of(self, cls, own_only=True):
        return list(cls.methods.values())

    def enclosing_function(self, mod, node):
        p = mod.parent.get(node)
        while p is not None:
            if isinstance(p, ast.FunctionDef):
                for f in self.functions.values():
                    if f.node is p:
                        return f
            p = mod.parent.get(p)
        return None

    def loc(self, fn_or_mod, node):
        mod = fn_or_mod.module if isinstance(fn_or_mod, FunctionInfo) else fn_or_mod
        return f"{mod.path}:{getattr(node, 'lineno', 0)}"

    # --------------------------------------------------------- call resolver
    def resolve_call(self, fn, call):
        """Classify the callee of ``call`` appearing in function ``fn``.

        Returns a tuple:
          ('pkg', [FunctionInfo...], ext_base_or_None)  package function(s)
          ('class', ClassInfo)                         constructor call
          ('ext', dotted)                              external / builtin
          ('super', name, FunctionInfo|dotted)         super().name(...)
          ('method', name, receiver_expr)              method on a local value
          ('local', name)                              call of a local variable
          ('unknown', text)
        """
        f = call.func
        # super().m(...)
        if (isinstance(f, ast.Attribute) and isinstance(f.value, ast.Call)
                and isinstance(f.value.func, ast.Name) and f.value.func.id == "super"
                and fn.cls is not None):
            target = self.lookup_method(fn.cls, f.attr, after=fn.cls)
            return ("super", f.attr, target)
        d = self.dotted(fn, f)
        if d:
            if d in self.functions:
                return ("pkg", [self.functions[d]], None)
            if d in self.classes:
                return ("class", self.classes[d])
            # Class.method through a package class
            parts = d.rsplit(".", 1)
            if len(parts) == 2 and parts[0] in self.classes:
                hit = self.lookup_method(self.classes[parts[0]], parts[1])
                if isinstance(hit, FunctionInfo):
                    return ("pkg", [hit], None)
                if hit:
                    return ("ext", f"{hit}.{parts[1]}")
            return ("ext", d)
        if isinstance(f, ast.Attribute):
            recv = f.value
            if isinstance(recv, ast.Name) and recv.id in ("self", "cls") and fn_class(fn) is not None \
                    and recv.id == first_param(fn):
                cls = fn_class(fn)
                name = f.attr
                if name.startswith("__") and not name.endswith("__"):
                    pass  # private name: same spelling inside the class body
                targets, ext = self.method_targets(cls, name)
                if targets or ext:
                    return ("pkg", targets, ext) if targets else ("ext", f"{ext}.{name}")
                return ("method", name, recv)
            if (isinstance(recv, ast.Attribute) and recv.attr == "__class__"
                    and isinstance(recv.value, ast.Name) and recv.value.id == "self"
                    and fn_class(fn) is not None):
                targets, ext = self.method_targets(fn_class(fn), f.attr)
                if targets:
                    return ("pkg", targets, ext)
            return ("method", f.attr, recv)
        if isinstance(f, ast.Name):
            return ("local", f.id)
        return ("unknown", ast.unparse(f))

    def stats(self):
        return {
            "modules": len(self.modules),
            "classes": len(self.classes),
            "functions": len(self.functions),
        }


def fn_class(fn):
    """Class whose ``self`` is visible in ``fn`` (nested defs see the method's)."""
    return fn.cls


def first_param(fn):
    f = fn
    while f.parent is not None:
        f = f.parent
    if f.cls is None or not f.params:
        return None
    return f.params[0]


def outermost(fn):
    while fn.parent is not None:
        fn = fn.parent
    return fn


def src(node):
    try:
        return ast.unparse(node)
    except Exception:
        return "<?>"
