"""C07 -- aggregation helpers compute the documented statistic and NA policy."""
import ast
from ..common import calls_in, norm, kw
from ..model import AnalysisError, body_nodes
from ..cfg import cfg_of
from ..facts import facts_at, cfg_node_of
from .. import aggfeat as A
from .. import tables

EXPLANATION = (
    "Sibling agreement between the vector form and the group-wise form of each of the 14 helpers, and agreement of both with "
    "the spec table copied from the property statement (documented default and minimum group size): (SIB-7) threshold k and "
    "default d extracted from `stat if len(x) >= k else d` / except IndexError (vector form) and from nrequired=/default= of the "
    "generic kernel call or the Python kernel's own yield plus `aggregate.default` (group form); the same NumPy statistic is "
    "bound in both forms with the same extra arguments; NA wiring: the vector form applies handle_na(x, drop_na) BEFORE any "
    "length test, the group form passes drop_na and data[x].is_na().any() for the same column it aggregates, all/any take no "
    "drop_na, kernels filter missing values only under drop_na; first/last delegate to nth(0)/nth(-1) forwarding drop_na; "
    "(GRD-kernel) identity-less statistics (amax/amin/mode/index/quantile/mean/median/std/var) are never bound with nrequired=0; "
    "(MPT-3) every closure sets aggregate.default on every path and aggregate.group_aware = True before it is returned. "
    "Not decided: the numbers themselves, mode tie-breaking."
)
ASSUMPTIONS = ["the NumPy reductions named compute the textbook statistic", "spec table sa/tables.py C07_SPEC is a faithful copy of the statement"]

IDENTITYLESS = {"numpy.amax", "numpy.amin", "numpy.mean", "numpy.median", "numpy.std", "numpy.var", "numpy.quantile",
                "mode1", "index", "numpy.max", "numpy.min"}


def check(ctx):
    repo = ctx.repo
    from . import generic as _gen
    _gen.language_traps(ctx, _gen.anchor_functions(repo, "C07"), "the property holds for every input, on every call")
    _gen.argument_as_given(ctx, repo.fn("dataiter.aggregate.quantile"), "q", [0, 0.0, 1], "quantile(q) is the textbook quantile for every 0 <= q <= 1")
    _gen.raises_inside_domain(ctx, repo.fn("dataiter.aggregate.quantile"), "q", [0, 0.25, 0.5, 1, 0.0, 1.0], "a quantile NumPy accepts (0 <= q <= 1)",
                              "quantile returns the documented statistic for every q in [0, 1]")
    _gen.bool_mask_dtype(ctx, _gen.module_functions(repo, "dataiter.vector", "dataiter.aggregate"),
                         "an empty vector yields the documented default")
    from . import generic
    # explicit bounds tests of the positional helpers: a test under which the default is returned WITHOUT trying the index may
    # hold only for indices Python indexing rejects (decided exactly by sa/intpred.py: the test touches index and length only
    # through comparisons, abs and negation)
    from ..intpred import implies_out_of_range
    ctx.rule("GRD-index", "an explicit `index out of range` shortcut of first / last / nth holds only for indices that x[index] rejects")
    n_idx = 0
    for hname in ("nth", "first", "last"):
        hf = repo.functions.get(f"dataiter.aggregate.{hname}")
        if hf is None or not hf.params:
            continue
        xp = hf.params[0]
        ip = "index" if "index" in hf.all_params else None
        for node in [n for n in body_nodes(hf.node) if isinstance(n, ast.If)]:
            tnames = {m.id for m in ast.walk(node.test) if isinstance(m, ast.Name)}
            if ip is None or ip not in tnames or f"len({xp})" not in norm(node.test) and f"{xp}.length" not in norm(node.test):
                continue
            rets = [r for r in node.body if isinstance(r, ast.Return)]
            if not rets:
                continue
            n_idx += 1
            verdict, wit = implies_out_of_range(node.test, ip, [f"len({xp})", f"{xp}.length", f"{xp}.size"])
            if verdict is None:
                ctx.note(f"GRD-index: {hf.qualname}: test {norm(node.test)} not decidable here ({wit})")
                continue
            ctx.ob("GRD-index", hf, norm(node.test), node, verdict,
                   "the shortcut is taken only for indices outside -len <= index < len" if verdict else
                   f"`{norm(node.test)}` also holds for index = {wit[0]} with {wit[1]} element(s), which x[index] accepts: the helper returns "
                   f"{norm(rets[0].value) if rets[0].value is not None else None} instead of that element (and disagrees with its group-wise form)",
                   clause="first / last / nth return the element at that position when it exists")
    ctx.note(f"GRD-index: {n_idx} explicit bounds shortcut(s) examined")
    # element-valued results (an element of x: x[index], np.amax(x), np.amin(x); np.sum(x), which adds the elements with
    # their own +) are NumPy scalars only for NumPy's own element
    # types; the elements of string and object vectors are plain Python objects without .item().  Converting the result with
    # .item() is therefore guarded (isinstance(..., np.generic) / hasattr(..., "item")) wherever the value may be an element.
    ctx.rule("GRD-item", ".item() on a value that may be an element of a string / object vector is guarded")
    n_item = 0
    for fn_ in generic.module_functions(repo, "dataiter.aggregate"):
        for f_, c in calls_in(fn_):
            if not (isinstance(c.func, ast.Attribute) and c.func.attr == "item" and not c.args):
                continue
            recv = c.func.value
            d_ = repo.dotted(f_, recv.func) if isinstance(recv, ast.Call) else None
            element_valued = isinstance(recv, ast.Subscript) or d_ in ("numpy.amax", "numpy.amin", "numpy.max", "numpy.min", "numpy.nanmax",
                                                                        "numpy.nanmin", "numpy.sum", "numpy.nansum", "numpy.prod") or isinstance(recv, ast.Name)
            if not element_valued:
                continue
            n_item += 1
            rt = norm(recv)
            guarded = any(k == "T" and (("isinstance(" in t and "np.generic" in t) or ("hasattr(" in t and "item" in t)) and rt in t
                          for k, t in facts_at(f_, c))
            ctx.ob("GRD-item", f_, f"{norm(c)[:60]}", c, guarded,
                   "converted only when it is a NumPy scalar" if guarded else
                   f"{norm(c)[:50]}: for a string (or object) vector the value is a plain Python object -- 'str' has no attribute 'item' -- so the "
                   f"vector form raises AttributeError where the group-wise form returns the element",
                   clause="both applied to a vector and used group-wise, the result equals the textbook statistic, for each dtype a helper accepts")
    ctx.note(f"GRD-item: {n_item} .item() conversions of element-valued results examined")
    generic.sorted_unique_ties(ctx, [f for f in generic.module_functions(repo, "dataiter.aggregate") if f.name.startswith("mode")],
                               "mode breaks ties by first occurrence")
    generic.na_blind_paths(ctx, [f for f in generic.module_functions(repo, "dataiter.aggregate") if f.name == "handle_na"],
                           "with drop_na the statistic is computed over the non-missing values only")
    generic.lossy_calls(ctx, generic.module_functions(repo, "dataiter.aggregate"),
                        "the statistic is computed over the non-missing values themselves")
    for r, t in (("SIB-7", "vector form == group form == spec table (threshold, default, statistic, NA wiring)"),
                 ("GRD-kernel", "identity-less statistics are bound with nrequired >= 1"),
                 ("MPT-3", "group-aware protocol: default set on every path, group_aware marked"),
                 ("FWD", "first/last delegate to nth with drop_na forwarded"),
                 ("MEMO-key", "memoised kernel factories are keyed on all of their arguments")):
        ctx.rule(r, t)
    ctx.trust("spec table C07_SPEC copied from the property statement")
    n = 0
    for h in A.HELPERS:
        fn = repo.fn(f"{A.AGG}.{h}")
        v = A.vector_form(repo, fn)
        g = A.group_form(repo, fn)
        n += 1
        want_d, want_k = tables.C07_SPEC[h]
        if g.get("positional") is not None:
            verdict_, wit_, txt_ = g["positional"]
            ctx.ob("SIB-7", g["closure"], f"group form of {h} selects {txt_[:60]}", g["call"], bool(verdict_),
                   "the group's element at `index` when it exists, the default otherwise -- the same as x[index] in the vector form "
                   "(decided for all group sizes and indices)" if verdict_ else
                   f"for index = {wit_[0]} and a group of {wit_[1]} element(s) the group-wise kernel gives "
                   f"{'element ' + str(wit_[2] - 100) if isinstance(wit_[2], int) else wit_[2]}, the vector form x[index] gives "
                   f"{'element ' + str(wit_[3] - 100) if isinstance(wit_[3], int) else 'the default'}: the helper and the equivalent lambda disagree",
                   clause="first / last / nth return the element at that position when it exists")
        # ---- thresholds
        ok = v["k"] == want_k
        ctx.ob("SIB-7", fn, f"vector form: minimum size {v['k']}", fn.node, ok,
               f"statistic needs at least {want_k} element(s) as documented" if ok else
               f"vector form computes the statistic from {v['k']} element(s) on, the statement requires {want_k}: a group left with "
               f"fewer elements no longer yields the documented default", clause="a group left with fewer elements than the statistic needs yields the documented default")
        ok = g["k"] == want_k
        ctx.ob("SIB-7", g["closure"], f"group form: minimum size {g['k']}", g["call"], ok,
               f"kernel requires at least {want_k} element(s) as documented" if ok else
               f"group form requires {g['k']} element(s), the statement requires {want_k}", clause="documented default")
        # ---- defaults
        def same_default(got, want):
            if want == "0" and got in ("0", None):
                return True
            return got == want
        if want_k > 0:
            ok = same_default(v["d"], want_d)
            ctx.ob("SIB-7", fn, f"vector form: default {v['d']}", fn.node, ok,
                   f"default is {want_d} as documented" if ok else f"vector form returns {v['d']} for too few elements, documented: {want_d}",
                   clause="documented default")
        ok = same_default(g["d"], want_d)
        ctx.ob("SIB-7", g["closure"], f"group form: default {g['d']} (aggregate.default={g['default_attr']}, kernel default={g['kernel_default']})",
               g["call"], ok, f"default is {want_d} as documented" if ok else
               f"group form yields {g['d']} for too few elements, documented: {want_d}", clause="documented default")
        kd = g["kernel_default"]
        ok = kd in (None, "None") or kd == g["default_attr"] or (kd == "0" and g["default_attr"] == "0")
        ctx.ob("SIB-7", g["closure"], f"kernel default {kd} vs aggregate.default {g['default_attr']}", g["call"], ok,
               "the kernel's own default and the substituted default agree" if ok else
               "the kernel returns one default and aggregate.default names another", nontrivial=False)
        # ---- statistic
        vs = v["stat"]
        gs = g["stat"]
        def strip(s):
            name, kws = s
            name = {"builtins.len": "len"}.get(name, name)
            k2 = {k: val for k, val in kws.items() if k != "_pos" or val}
            return name, k2
        vn = strip(vs)
        gnames = [strip(s) for s in gs]
        ok = any(vn[0] == gg[0] for gg in gnames) and all(vn[0] == gg[0] for gg in gnames)
        ctx.ob("SIB-7", fn, f"statistic: vector {vn[0]} / group {[x[0] for x in gnames]}", fn.node, ok,
               "both forms compute the same statistic" if ok else
               f"vector form uses {vn[0]} but the group form binds {[x[0] for x in gnames]}",
               clause="both applied to a vector and used group-wise")
        if vn[1] or any(x[1] for x in gnames):
            ok = bool(gnames) and all(vn[1] == gg[1] for gg in gnames)
            ctx.ob("SIB-7", fn, f"extra arguments: vector {vn[1]} / group {[x[1] for x in gnames]}", fn.node, ok,
                   "extra arguments (ddof, q, index) reach the statistic in both forms" if ok else
                   "an extra argument (ddof/q/index) reaches the statistic in one form only", clause="all drop_na, ddof, index and q arguments")
        # ---- NA wiring
        has_dn = "drop_na" in fn.kwonly or "drop_na" in fn.params
        if h in ("all", "any"):
            ok = not has_dn and v["handle_na"] is None and g["drop_na"] == "False"
            ctx.ob("SIB-7", fn, "no drop_na for all/any", fn.node, ok, "all/any take no drop_na and never filter" if ok else
                   "all/any gained NA filtering", nontrivial=False)
        else:
            ok = v["handle_na"] == [fn.params[0], "drop_na"] and v.get("handle_na_assigned", False)
            ctx.ob("SIB-7", fn, f"vector form: x = handle_na(x, drop_na)", fn.node, ok,
                   "missing values are removed exactly when drop_na is in effect" if ok else
                   "vector form does not apply handle_na(x, drop_na) to x", clause="after removing missing values when drop_na is in effect")
            ok = v["len_after_na"] and not v.get("early")
            ctx.ob("SIB-7", fn, "length test after NA removal", fn.node, ok,
                   "the element count compared with the threshold is the count AFTER missing values were removed" if ok else
                   "a length test or early return precedes handle_na: the threshold is compared with the raw length, so a vector "
                   "whose non-missing elements are too few still gets the statistic instead of the default",
                   clause="a group left with fewer elements than the statistic needs")
            col = g["data_arg"]
            base = col.replace(".as_float()", "")
            want = f"drop_na and {base}.is_na().any()"
            alt = "drop_na and x and data[x].is_na().any()"
            ok = g["drop_na"] in (want, alt, "drop_na")
            ctx.ob("SIB-7", g["closure"], f"group form: drop_na={g['drop_na']}", g["call"], ok,
                   "the kernel filters missing values when drop_na is set (and the aggregated column has any)" if ok else
                   f"group form passes drop_na={g['drop_na']}: it is not the user's drop_na (and-ed with the same column's is_na().any())",
                   clause="after removing missing values when drop_na is in effect")
        xn = fn.params[0]
        allowed = {f"data[{xn}]", f"data[{xn}].as_boolean()", f"data[{xn}].as_float()"}
        if h == "count":
            allowed = {f"data[{xn} or '_group_']"}
        ok = g["data_arg"] in allowed
        ctx.ob("SIB-7", g["closure"], f"aggregated column {g['data_arg']}", g["call"], ok,
               "the kernel receives the named column itself" if ok else
               f"the kernel receives {g['data_arg']} instead of the named column: missing values of the named column are not the ones "
               f"dropped/propagated", clause="after removing missing values when drop_na is in effect")
        ok = g["group_arg"] == "data._group_"
        ctx.ob("SIB-7", g["closure"], f"group ids {g['group_arg']}", g["call"], ok, "kernel receives the frame's group ids" if ok else
               "kernel does not receive data._group_", nontrivial=False)
        # ---- GRD-kernel
        for name, kws in gs:
            if name in IDENTITYLESS:
                ok = (g["k"] or 0) >= 1
                ctx.ob("GRD-kernel", g["closure"], f"{name} with nrequired={g['k']}", g["call"], ok,
                       "an identity-less statistic never sees an empty group" if ok else
                       f"{name} has no value for an empty group but is applied from {g['k']} element(s) on: an all-missing group raises",
                       clause="single-element and all-missing groups")
        # ---- MPT-3
        clo = g["closure"]
        cfg = cfg_of(clo)
        dn = g.get("default_node")
        p = cfg.path_avoiding(lambda nd: nd.ast is dn) if dn is not None else [cfg.entry]
        ctx.ob("MPT-3", clo, "aggregate.default set on every path", dn or clo.node, p is None,
               "DataFrame.aggregate can always replace None by the default" if p is None else
               "a path through the closure returns without setting aggregate.default", clause="the documented default")
        marks = [s for s in body_nodes(fn.node) if isinstance(s, ast.Assign) and norm(s.targets[0]) == "aggregate.group_aware"
                 and isinstance(s.value, ast.Constant) and s.value.value is True]
        rets = [s for s in body_nodes(fn.node) if isinstance(s, ast.Return) and s.value is not None and norm(s.value) == "aggregate"]
        fcfg = cfg_of(fn)
        ok = bool(marks) and bool(rets) and all(fcfg.dominates(cfg_node_of(fn, marks[0]), cfg_node_of(fn, r)) for r in rets)
        ctx.ob("MPT-3", fn, "aggregate.group_aware = True; return aggregate", marks[0] if marks else fn.node, ok,
               "closure is marked group-aware before it is returned" if ok else
               "closure is returned without group_aware=True: DataFrame.aggregate would call it once per group with a frame",
               clause="a shorthand helper yields the same summary as a lambda")
    ctx.count("helpers with both forms", n, 14)
    from .shared import memo_keys
    nm = memo_keys(ctx, {A.AGG}, "ddof, index and q arguments reach the statistic of every call")
    ctx.count("memoised kernel factories", nm, 1)
    # ------------------------------------------------------------------ FWD
    for name, idx in A.DELEGATING.items():
        fn = repo.fn(f"{A.AGG}.{name}")
        calls = [c for _, c in calls_in(fn) if norm(c.func) == "nth"]
        ok = len(calls) == 1 and len(calls[0].args) >= 2 and norm(calls[0].args[0]) == fn.params[0] \
            and norm(calls[0].args[1]) == str(idx) and kw(calls[0], "drop_na") is not None and norm(kw(calls[0], "drop_na")) == "drop_na"
        ctx.ob("FWD", fn, norm(calls[0]) if calls else f"nth(x, {idx}, drop_na=drop_na)", calls[0] if calls else fn.node, ok,
               f"{name} is nth({idx}) with drop_na forwarded" if ok else f"{name} does not delegate to nth(x, {idx}, drop_na=drop_na)",
               clause="first, last")
    # kernels filter only under drop_na
    for kn in ("yield_groups", "yield_groups_numba"):
        k = repo.fn(f"{A.AGG}.{kn}")
        filt = [s for s in body_nodes(k.node) if isinstance(s, ast.Assign) and isinstance(s.value, ast.Subscript)
                and isinstance(s.value.slice, ast.UnaryOp) and isinstance(s.value.slice.op, ast.Invert)]
        ok = bool(filt) and all(("T", "drop_na") in facts_at(k, s) for s in filt)
        ctx.ob("SIB-7", k, norm(filt[0]) if filt else "xij = xij[~is_na]", filt[0] if filt else k.node, ok,
               "missing values are removed from a group only under drop_na" if ok else
               "the kernel filters missing values unconditionally (or never)", clause="with missing values propagating when it is not")
    hn = repo.fn(f"{A.AGG}.handle_na")
    from ..forms import value_cases
    hx, hd = hn.params[0], hn.params[1]
    from ..forms import expand as _expand07
    hc = {(norm(_expand07(hn, leaf, rn)), tuple(sorted(t for k, t in f if t == hd and k in ("T", "F")) or ()), tuple(sorted(k for k, t in f if t == hd)))
          for rn, leaf, f in value_cases(hn, "return")}
    rets = [s for s in body_nodes(hn.node) if isinstance(s, ast.Return)]
    ok = hc == {(f"{hx}[~{hx}.is_na()]", (hd,), ("T",)), (hx, (hd,), ("F",))}
    ctx.ob("SIB-7", hn, norm(rets[0].value) if rets else "handle_na", rets[0] if rets else hn.node, ok,
           "handle_na removes exactly the missing elements, only under drop_na" if ok else "handle_na changed", nontrivial=False)
