"""C04 -- grouping partitions the rows; one summary row per distinct key.

All structural rules are written as patterns with metavariables (sa/pattern.py), so
renaming locals or receivers does not change a verdict; what is related is *which
variable flows where* (the frame an index was created on is the frame it is applied
to), not what the variables are called.
"""
import ast
from ..common import precedes, interp, ours, calls_in, norm, DF, kw
from ..model import AnalysisError, body_nodes
from ..facts import facts_at
from ..dataflow import defs_reaching
from ..pattern import pmatch, pstmt, find, text, dump
from .shared import grd_empty
from .. import aggfeat as A

EXPLANATION = (
    "Structural necessary conditions of group_by().aggregate(), count, split and grouped modify decided from source: (IDX-2) the "
    "same key tuple drives sort, unique and select, every key sorted ascending, and the permutation used is the stable np.lexsort "
    "of DataFrame.sort only (no second, unstable ordering: rows of a group keep their original order); (IDX-3) index spaces: "
    "_index_ = arange(nrow) is attached to the frame it indexes -- in aggregate to the SORTED frame before unique picks group "
    "starts, in split to the selected frame BEFORE sorting (original positions) and _sorted_index_ AFTER sorting (split points) -- "
    "np.split receives an index vector and split points from the same frame; group slices are applied with _view_rows to the frame "
    "they index; (MPT-3) the group-aware protocol: _group_ = repeat(arange(#groups), group sizes) is assigned before any "
    "group-aware function runs, None results are replaced by function.default, the helper columns are removed again; (OWN-3) "
    "count groups a copy, not the receiver; grouped modify restores the original row order with argsort(concatenate(slices)); "
    "(GRD-sentinel / GRD-empty) group boundaries come from DataFrame.unique, whose NA handling is checked under C02 and re-checked "
    "here; every (name, function) pair stores a column on every path, unmarked functions are not group-aware, the per-group frames "
    "exist before an arbitrary function is applied. Not decided: that summaries equal lambdas; group sizes."
)
ASSUMPTIONS = ["np.split(v, points) cuts v before each point; np.repeat(arange(k), sizes) labels contiguous runs",
               "np.lexsort is stable"]


def ordered_stmts(fn):
    return sorted((n for n in body_nodes(fn.node) if isinstance(n, ast.stmt)), key=lambda n: (n.lineno, n.col_offset))


def first_stmt(fn, pattern, env=None):
    for s in ordered_stmts(fn):
        b = pstmt(pattern, s, dict(env or {}))
        if b is not None:
            return s, b
    return None, None


def first_expr(fn, pattern, env=None):
    for s in ordered_stmts(fn):
        for n in ast.walk(s):
            if isinstance(n, ast.expr):
                b = pmatch(pattern, n, dict(env or {}))
                if b is not None:
                    return n, b
    return None, None


def check(ctx):
    repo = ctx.repo
    from . import generic as _gen
    _gen.language_traps(ctx, _gen.anchor_functions(repo, "C04"), "the property holds for every input, on every call")
    _gen.split_pieces_on_empty(ctx, repo, [f for f in _gen.module_functions(repo, "dataiter.aggregate") if f.name.startswith("yield_groups")],
                                 "one summary per group: a zero-row frame has no groups, with Numba or without")
    _gen.argument_as_given(ctx, repo.fn("dataiter.data_frame.DataFrame.split"), repo.fn("dataiter.data_frame.DataFrame.split").vararg or "by", [("b",)],
                           "split partitions by the columns it is given, whatever an earlier group_by() left behind")
    _gen.names_as_given(ctx, repo.fn("dataiter.data_frame.DataFrame.group_by"), repo.fn("dataiter.data_frame.DataFrame.group_by").vararg,
                        "one summary row per distinct key, ascending by the group columns in the order given")
    _gen.rank_orders_values(ctx, repo.fn("dataiter.vector.Vector.rank"), "one summary row per distinct key, ascending by the group columns")
    I = interp(repo)
    for r, t in (("IDX-2", "one key tuple for sort / unique / select; ascending; single stable ordering"),
                 ("IDX-3", "index vectors are created on, and applied to, the frame they index; ordering of attach/sort"),
                 ("MPT-3", "group-aware protocol on the DataFrame side"),
                 ("OWN-3", "count does not regroup the receiver; modify restores row order"),
                 ("GRD-sentinel", "group boundaries: NA mask is a key component of its own in unique"),
                 ("GRD-empty", "reductions reachable from grouping guarded")):
        ctx.rule(r, t)
    ag = repo.fn(f"{DF}.aggregate")
    sp = repo.fn(f"{DF}.split")
    md = repo.fn(f"{DF}.modify")
    cn = repo.fn(f"{DF}.count")
    S = ag.params[0]
    # ----------------------------------------------------------- aggregate
    s_key, bk = first_stmt(ag, f"_K = {S}._group_colnames")
    K = bk["_K"] if bk else None
    ctx.ob("IDX-2", ag, text(s_key) if s_key else "keys = self._group_colnames", s_key or ag.node, K is not None,
           "keys are the receiver's grouping" if K is not None else "the group keys are not taken from self._group_colnames", nontrivial=False)
    env = {"_K": K} if K is not None else {}
    s_sort, b1 = first_stmt(ag, f"_D = {S}.sort(**dict.fromkeys(_K, 1))", env)
    ctx.ob("IDX-2", ag, text(s_sort) if s_sort else "data = self.sort(**dict.fromkeys(keys, 1))", s_sort or ag.node, b1 is not None,
           "rows are sorted ascending by exactly the group keys" if b1 is not None else
           "the frame is not sorted ascending by exactly the group keys", clause="ordered ascending by the group columns")
    if b1 is None:
        # reported above; continue with whatever frame is sorted so that the remaining rules can still speak
        s_sort, b1 = first_stmt(ag, "_D = __.sort(**__)")
        if b1 is None:
            raise AnalysisError("DataFrame.aggregate: no sorted working frame at all; the index-space rules cannot be instantiated")
    env.update(_D=b1["_D"])
    s_idx, b2 = first_stmt(ag, "_D._index_ = np.arange(_D.nrow)", env)
    s_uq, b3 = first_stmt(ag, "_S = _D.unique(*_K).select('_index_', *_K)", env)
    ctx.ob("IDX-2", ag, text(s_uq) if s_uq else "stat = data.unique(*keys).select('_index_', *keys)", s_uq or ag.node, b3 is not None,
           "group starts are the first rows per key combination of the same keys, kept with their start index" if b3 is not None else
           "group boundaries are not found with unique(*same keys).select('_index_', *same keys) on the sorted frame",
           clause="exactly one row per distinct combination")
    if b3 is not None:
        env.update(_S=b3["_S"])
    s_split, b4 = first_stmt(ag, "_I = np.split(_D._index_, _S._index_[1:])", env) if b3 is not None else (None, None)
    ctx.ob("IDX-3", ag, text(s_split) if s_split else "indices = np.split(data._index_, stat._index_[1:])", s_split or ag.node, b4 is not None,
           "sorted positions are cut at every group start but the first" if b4 is not None else
           "np.split does not cut the sorted frame's own index at the group starts [1:]", clause="one summary row per distinct key")
    order = [s_sort, s_idx, s_uq, s_split]
    ok = all(x is not None for x in order) and all(precedes(ag, order[i_], order[i_ + 1]) for i_ in range(3))
    ctx.ob("IDX-3", ag, "sort; attach _index_; unique; np.split", s_idx or ag.node, ok,
           "the index is attached to the sorted frame (arange of ITS nrow) before group starts are taken" if ok else
           "the order sort -> attach index (arange of the sorted frame's nrow) -> unique -> split is broken: group slices index "
           "another row order", clause="each summary is computed from exactly the rows of that group")
    vr = [c for _, c in calls_in(ag) if isinstance(c.func, ast.Attribute) and c.func.attr == "_view_rows"]
    ok = bool(vr) and all(dump(c.func.value) == dump(env["_D"]) for c in vr)
    if ok and b4 is not None:
        # the rows handed to _view_rows are the pieces of the split
        ok = all(any(isinstance(g, ast.comprehension) and dump(g.iter) == dump(b4["_I"]) for g in ast.walk(ag.node)) for c in vr)
    ctx.ob("IDX-3", ag, f"{[text(c) for c in vr]}", vr[0] if vr else ag.node, ok,
           "group slices are views of the sorted frame, taken with the pieces of its own index" if ok else
           "group slices are taken from another frame than the one the indices refer to", clause="exactly the rows of that group")
    # group labels
    s_g, bg = first_stmt(ag, "_D._group_ = np.repeat(_G, _N)", env)
    ok, why = False, "data._group_ is never assigned as np.repeat(labels, sizes)"
    if bg is not None and b4 is not None:
        e2 = dict(env, _I=b4["_I"], _G=bg["_G"], _N=bg["_N"])
        _, g1 = first_stmt(ag, "_G = Vector.fast(range(len(_I)), int)", e2)
        _, g2 = first_stmt(ag, "_N = Vector.fast(map(len, _I), int)", e2)
        facts = facts_at(ag, s_g)
        guarded = any(k == "T" and t.startswith("any(") for k, t in facts)
        ok = g1 is not None and g2 is not None and guarded
        why = ("group ids = repeat(arange(#groups), sizes of the same index pieces), assigned whenever a group-aware function is present"
               if ok else f"labels/sizes are not both derived from the split pieces, or the assignment is not under any(group_aware) ({sorted(facts)})")
    ctx.ob("MPT-3", ag, text(s_g) if s_g else "data._group_ = np.repeat(groups, n)", s_g or ag.node, ok, why,
           clause="contiguous-run scan in helpers")
    # calling group-aware functions with the sorted frame, under the group_aware test
    fcalls = [(n, b) for n, b in find("_FN(_D)", ag.node, env) if isinstance(b["_FN"], ast.Name)]
    ok = bool(fcalls)
    for n, b in fcalls:
        f2 = facts_at(ag, n)
        if not any(k == "T" and "group_aware" in t and text(b["_FN"]) in t for k, t in f2):
            ok = False
    ctx.ob("MPT-3", ag, f"{[text(n) for n, _ in fcalls]}", fcalls[0][0] if fcalls else ag.node, ok,
           "a function receives the whole sorted frame only if it declares group_aware" if ok else
           "a function is called with the whole frame without being tested for group_aware", clause="group-aware protocol")
    rep_ok = False
    for n, b in find("_C[_J]", ag.node):
        par = ag.module.parent.get(n)
        if isinstance(par, ast.Assign) and par.targets[0] is n and isinstance(par.value, ast.Name):
            f2 = facts_at(ag, par)
            if any(k == "T" and t == f"{text(n)} is None" for k, t in f2):
                dv = [d.value for d in defs_reaching(ag, par.value.id, par) if d.value is not None]
                if dv and all(isinstance(v, ast.Attribute) and v.attr == "default" for v in dv):
                    rep_ok = True
    ctx.ob("MPT-3", ag, "None -> function.default", ag.node, rep_ok,
           "None left by a helper is replaced by that helper's default" if rep_ok else "None results are not replaced by function.default",
           clause="a group left with fewer elements yields the documented default")
    rets = [n for n in body_nodes(ag.node) if isinstance(n, ast.Return)]
    ok = len(rets) == 1 and b3 is not None and pmatch("_S.unselect('_index_', '_group_')", rets[0].value, env) is not None
    ctx.ob("MPT-3", ag, text(rets[0].value) if rets else "return", rets[0] if rets else ag.node, ok,
           "helper columns are removed from the result" if ok else "result still carries (or wrongly removes) helper columns", nontrivial=False)
    asserts = [n for n in body_nodes(ag.node) if isinstance(n, ast.Assert)]
    ok = b3 is not None and any(pmatch("len(__) == _S.nrow", a.test, env) is not None for a in asserts)
    ctx.ob("MPT-3", ag, "assert len(column) == stat.nrow", asserts[0] if asserts else ag.node, ok,
           "one summary value per group" if ok else "no check that a helper returned one value per group", nontrivial=False)
    # every (name, function) pair yields a column, whichever way the function is called
    loops = [n for n in body_nodes(ag.node) if isinstance(n, ast.For) and ag.kwarg and pmatch(f"{ag.kwarg}.items()", n.iter) is not None]
    ctx.count("loops over the (name, function) pairs in aggregate", len(loops), 1)
    for lp in loops:
        names = [e.id for e in lp.target.elts] if isinstance(lp.target, ast.Tuple) and all(isinstance(e, ast.Name) for e in lp.target.elts) else []
        CN = names[0] if names else "colname"
        FN = names[1] if len(names) > 1 else "function"

        def stores(st):
            return isinstance(st, ast.Assign) and any(isinstance(t, ast.Subscript) and isinstance(t.slice, ast.Name) and t.slice.id == CN
                                                      for t in st.targets)

        def always(stmts):
            for st in stmts:
                if stores(st):
                    return True
                if isinstance(st, ast.If) and st.orelse and always(st.body) and always(st.orelse):
                    return True
                if isinstance(st, (ast.With, ast.Try)) and always(st.body):
                    return True
            return False
        ok = always(lp.body)
        ctx.ob("MPT-3", ag, f"every path through the loop stores stat[{CN}]", lp, ok,
               "each requested summary column is stored, for group-aware helpers and for arbitrary functions alike" if ok else
               f"a path through the loop over the (name, function) pairs stores no column for {CN}: that summary silently disappears "
               f"from the result", clause="one summary row per distinct key with every requested summary")
        # functions without the mark are NOT group-aware
        for g in [c for _, c in calls_in(ag) if isinstance(c.func, ast.Name) and c.func.id == "getattr" and len(c.args) >= 2
                  and isinstance(c.args[1], ast.Constant) and c.args[1].value == "group_aware"]:
            okg = len(g.args) == 3 and isinstance(g.args[2], ast.Constant) and g.args[2].value is False
            ctx.ob("MPT-3", ag, text(g), g, okg, "an unmarked function is called once per group with that group's rows" if okg else
                   "a function without the group_aware mark is treated as group-aware: a lambda would receive the whole frame once "
                   "instead of each group's rows", clause="a shorthand helper yields the same summary as a lambda")
        # the per-group frames handed to arbitrary functions: built once, under `X is None`, before they are iterated
        for comp in [n for b in lp.body for n in ast.walk(b) if isinstance(n, (ast.ListComp, ast.GeneratorExp))
                     and any(isinstance(c, ast.Call) and isinstance(c.func, ast.Name) and c.func.id == FN for c in ast.walk(n.elt))]:
            it = comp.generators[0].iter
            if not isinstance(it, ast.Name):
                continue
            from ..dataflow import defs_reaching as _dr
            ds = _dr(ag, it.id, comp)
            lazy = [d for d in ds if d.value is not None and not (isinstance(d.value, ast.Constant) and d.value.value is None)]
            none_defs = [d for d in ds if d.value is not None and isinstance(d.value, ast.Constant) and d.value.value is None]
            okl = bool(lazy)
            if none_defs:
                # the None placeholder may only survive to here if the refill is exactly under `X is None`
                okl = okl and all(any(k == "T" and t == f"{it.id} is None" for k, t in facts_at(ag, d.node.ast)) for d in lazy) \
                    and _refill_dominates(ag, it.id, comp)
            ctx.ob("MPT-3", ag, f"{text(comp)[:70]}: {it.id} is filled before it is iterated", comp, okl,
                   "the per-group frames exist whenever an arbitrary function is applied" if okl else
                   f"{it.id} can still be its None placeholder (or is rebuilt under the wrong condition) when the arbitrary function is "
                   f"applied per group", clause="a shorthand helper yields the same summary as a lambda")
    # ---------------------------------------------------------------- split
    P = sp.params[0]
    BY = sp.vararg
    s1, c1 = first_stmt(sp, f"_D = {P}.select(*{BY})")
    if c1 is None:
        raise AnalysisError("DataFrame.split: cannot find the working frame data = self.select(*by)")
    e = {"_D": c1["_D"]}
    s2, c2 = first_stmt(sp, "_D._index_ = np.arange(_D.nrow)", e)
    s3, c3 = first_stmt(sp, f"_D = _D.sort(**dict.fromkeys({BY}, 1))", e)
    s4, c4 = first_stmt(sp, "_D._sorted_index_ = np.arange(_D.nrow)", e)
    s5, c5 = first_stmt(sp, f"_S = _D.unique(*{BY})", e)
    seq = [s1, s2, s3, s4, s5]
    ok = all(x is not None for x in seq) and all(precedes(sp, seq[i_], seq[i_ + 1]) for i_ in range(len(seq) - 1))
    ctx.ob("IDX-3", sp, "select; _index_; sort; _sorted_index_; unique", s2 or sp.node, ok,
           "original positions are attached before, split points after the sort, on the same working frame" if ok else
           "split attaches its index columns in the wrong order relative to the sort (or on another frame): the returned index sets are "
           "positions in the sorted frame, not in the caller's frame", clause="split returns disjoint index sets covering every row")
    ctx.ob("IDX-2", sp, text(s3) if s3 else "data = data.sort(**dict.fromkeys(by, 1))", s3 or sp.node, c3 is not None,
           "rows are sorted ascending by exactly the given keys" if c3 is not None else "split does not sort ascending by exactly its keys",
           clause="the same partition")
    ctx.ob("IDX-2", sp, text(s5) if s5 else "stat = data.unique(*by)", s5 or sp.node, c5 is not None,
           "group starts by the same keys" if c5 is not None else "split's group boundaries are not unique(*same keys)", clause="the same partition")
    rets = [n for n in body_nodes(sp.node) if isinstance(n, ast.Return)]
    ok = len(rets) == 1 and c5 is not None and pmatch("np.split(_D._index_, _S._sorted_index_[1:])", rets[0].value, dict(e, _S=c5["_S"])) is not None
    ctx.ob("IDX-3", sp, text(rets[0].value) if rets else "return np.split(...)", rets[0] if rets else sp.node, ok,
           "original positions (in sorted order), cut at the sorted group starts" if ok else
           "split does not return np.split(original positions in sorted order, sorted group starts[1:])",
           clause="disjoint index sets covering every row")
    # ------------------------------------------------------- grouped modify
    M = md.params[0]
    sl, bsl = first_stmt(md, f"_SL = {M}.split(*{M}._group_colnames)")
    ctx.ob("IDX-3", md, text(sl) if sl else "slices = self.split(*self._group_colnames)", sl or md.node, bsl is not None,
           "grouped modify partitions the receiver by its own grouping" if bsl is not None else
           "grouped modify does not take its partition from self.split(*self._group_colnames)", clause="grouped modify uses the same partition")
    if bsl is not None:
        em = {"_SL": bsl["_SL"]}
        ro, bro = first_stmt(md, "_RI = np.argsort(np.concatenate(_SL))", em)
        ctx.ob("OWN-3", md, text(ro) if ro else "restore = np.argsort(np.concatenate(slices))", ro or md.node, bro is not None,
               "the inverse permutation of the concatenated group indices restores the original row order" if bro is not None else
               "grouped modify does not compute argsort(concatenate(slices)) to restore the original order",
               clause="group-wise results aligned with the original row order")
        vr = [c for _, c in calls_in(md) if isinstance(c.func, ast.Attribute) and c.func.attr == "_view_rows"]
        ok = bool(vr) and all(text(c.func.value) == M for c in vr)
        ctx.ob("IDX-3", md, f"{[text(c) for c in vr]}", vr[0] if vr else md.node, ok,
               "original-position index sets from split are applied to the receiver itself" if ok else
               "grouped modify applies split's index sets to another frame", clause="grouped modify uses the same partition")
        if bro is not None:
            from ..forms import expand as _expand04
            ys = [n for n in body_nodes(md.node) if isinstance(n, ast.Yield) and n.value is not None
                  and pmatch("(__, np.concatenate(__)[_RI])", _expand04(md, n.value, n, keep={text(bro["_RI"])}), {"_RI": bro["_RI"]}) is not None]
            ok = bool(ys) and precedes(md, ro, ys[0])
            ctx.ob("OWN-3", md, text(ys[0].value) if ys else "yield colname, np.concatenate(column)[restore]", ys[0] if ys else md.node, ok,
                   "group results are concatenated in group order and permuted back" if ok else
                   "grouped results are yielded without being permuted back to the original row order",
                   clause="group-wise results aligned with the original row order")
    bc = [c for _, c in calls_in(md) if repo.dotted(md, c.func) == "dataiter.data_frame.DataFrameColumn" and kw(c, "nrow") is not None]
    from ..forms import expand as _expand04b
    ok = bool(bc) and (pmatch("DataFrameColumn(__(_X), nrow=_X.nrow)", bc[0]) is not None
                       or pmatch("DataFrameColumn(__(_X), nrow=_X.nrow)", _expand04b(md, bc[0], bc[0])) is not None)
    ctx.ob("IDX-3", md, text(bc[0]) if bc else "DataFrameColumn(function(x), nrow=x.nrow)", bc[0] if bc else md.node, ok,
           "a scalar group result is broadcast to its own group's size" if ok else "group results are not broadcast to the group's row count", nontrivial=False)
    # ------------------------------------- only ordering primitive: lexsort
    srt = repo.fn(f"{DF}.sort")
    extra = []
    for f in [srt] + list(srt.nested.values()):
        for _, c in calls_in(f, False):
            d = repo.dotted(f, c.func)
            if d in ("numpy.argsort", "numpy.sort", "builtins.sorted") or (isinstance(c.func, ast.Attribute) and c.func.attr in ("argsort",) and d is None):
                extra.append(c)
    ctx.ob("IDX-2", srt, f"ordering primitives besides np.lexsort: {[text(c) for c in extra] or 'none'}", extra[0] if extra else srt.node, not extra,
           "rows inside a group keep their original order: the only ordering is the stable np.lexsort" if not extra else
           f"{text(extra[0])} orders rows without a stable kind: rows of one group no longer keep their original relative order, so "
           f"first/last/nth and order-sensitive lambdas change", clause="the rows of that group taken in their original order")
    # ------------------------------------------------- run scan of kernels
    for kn in ("yield_groups", "yield_groups_numba"):
        k = repo.fn(f"{A.AGG}.{kn}")
        X, G = k.params[0], k.params[1]
        loops = [n for n in body_nodes(k.node) if isinstance(n, ast.For)]
        ok = False
        if not loops or pmatch("range(1, _N + 1)", loops[0].iter) is None:
            # the scan has been rewritten (boundaries computed with whole-array operations): this rule reads the index loop
            # only; it gives no verdict on another algorithm
            raise AnalysisError(f"{k.qualname} no longer scans the group ids with `for j in range(1, n + 1)`: MPT-3 reads that loop only")
        if loops:
            l = loops[0]
            bl = pmatch("range(1, _N + 1)", l.iter)
            j = text(l.target)
            conts = [n for n in l.body if isinstance(n, ast.If) and any(isinstance(x, ast.Continue) for x in n.body)]
            if bl is not None and conts:
                bc_ = pmatch(f"{j} < _N and {G}[{j}] == {G}[_I]", conts[0].test, {"_N": bl["_N"]})
                if bc_ is not None:
                    i = text(bc_["_I"])
                    sl_ = [n for n in l.body if isinstance(n, ast.Assign) and pmatch(f"{X}[{i}:{j}]", n.value) is not None]
                    adv = [n for n in l.body if pstmt(f"{i} = {j}", n) is not None]
                    nlen = any(pstmt(f"_N = len({X})", n, {"_N": bl["_N"]}) is not None for n in body_nodes(k.node))
                    ok = bool(sl_) and bool(adv) and nlen and precedes(k, sl_[0], adv[0])
        ctx.ob("MPT-3", k, "scan: emit x[i:j] whenever group[j] != group[i] or j == n; then i = j", loops[0] if loops else k.node, ok,
               "every maximal run of equal group ids is emitted exactly once, covering all rows" if ok else
               "the run scan no longer emits every maximal run x[i:j] (rows are lost or merged)", clause="group sizes sum to nrow")
    # ---------------------------------------------------------------- OWN-3
    summ = I.summary(cn)
    bad = [ev for ev in summ.events if ev.kind == "attr-store" and ev.detail == "._group_colnames" and ours(ev.target.alias)]
    gb = [c for _, c in calls_in(cn) if isinstance(c.func, ast.Attribute) and c.func.attr == "group_by"]
    ok = not bad and bool(gb)
    ctx.ob("OWN-3", cn, text(gb[0]) if gb else "count", gb[0] if gb else cn.node, ok,
           "count groups a copy of the receiver" if ok else "count regroups the receiver itself: the caller's frame stays grouped",
           clause="count uses the same partition")
    ok = bool(gb) and [text(a) for a in gb[0].args] == [f"*{cn.vararg}"] and any(
        isinstance(c.func, ast.Attribute) and c.func.attr == "aggregate" and len(c.keywords) == 1 and
        repo.dotted(cn, c.keywords[0].value.func if isinstance(c.keywords[0].value, ast.Call) else c.keywords[0].value) == "dataiter.aggregate.count"
        for _, c in calls_in(cn))
    ctx.ob("OWN-3", cn, "group_by(*colnames).aggregate(n=count())", cn.node, ok, "count is aggregate with the count helper over the given keys" if ok else
           "count is not group_by(*colnames).aggregate(n=count())", nontrivial=False)
    # ------------------------------------------------- GRD-sentinel / empty
    uq = repo.fn(f"{DF}.unique")
    reps = [c for _, c in calls_in(uq) if isinstance(c.func, ast.Attribute) and c.func.attr == "replace_na"]
    if not reps:
        _gen.bitpattern_keys(ctx, uq, "missing values compare equal to each other; one row per distinct key")
        raise AnalysisError("DataFrame.unique no longer normalises NaN/NaT with replace_na in its own body: idiom changed, re-confirm GRD-sentinel")
    per_col = False
    for rc in reps:
        colexpr = rc.func.value
        loop = _loop_of(uq, rc)
        if loop is None:
            continue
        # inside the same loop iteration the mask of that very column is appended to the key components
        for c in [n for n in ast.walk(loop) if isinstance(n, ast.Call) and isinstance(n.func, ast.Attribute) and n.func.attr in ("append", "extend")]:
            a = c.args[0] if c.args else None
            exprs = [a]
            if isinstance(a, ast.Name):
                exprs = [d.value for d in defs_reaching(uq, a.id, c) if d.value is not None]
            if exprs and all(pmatch("_C.is_na()", x, {"_C": colexpr}) is not None for x in exprs):
                zipped = [z for _, z in calls_in(uq) if isinstance(z.func, ast.Name) and z.func.id == "zip"]
                if any(text(c.func.value) in text(z) for z in zipped):
                    per_col = True
    ctx.ob("GRD-sentinel", uq, "each replaced key column contributes its own NA mask as a key component", reps[0] if reps else uq.node, per_col,
           "a missing value forms a group of its own per key column" if per_col else
           "the NA masks are not added per replaced column (e.g. combined into one): keys differing only in WHICH column is missing "
           "are merged into one group", clause="a missing value forming a group of its own")
    n = grd_empty(ctx, [ag, sp, cn, md], "all frames", only=lambda f: f.module.name == "dataiter.data_frame")
    ctx.note(f"{n} partial-operation site(s) reachable from grouping inside data_frame.py")


def _loop_of(fn, node):
    p = fn.module.parent.get(node)
    while p is not None and p is not fn.node:
        if isinstance(p, ast.For):
            return p
        p = fn.module.parent.get(p)
    return None


def _refill_dominates(fn, name, use):
    """An `if NAME is None: NAME = ...` statement precedes ``use`` in the same block (so NAME is not None at the use)."""
    par = fn.module.parent
    node = use
    while node is not None and not isinstance(node, ast.stmt):
        node = par.get(node)
    blk_owner = par.get(node)
    for field in ("body", "orelse", "finalbody"):
        blk = getattr(blk_owner, field, None)
        if isinstance(blk, list) and node in blk:
            for st in blk[:blk.index(node)]:
                if isinstance(st, ast.If) and pmatch(f"{name} is None", st.test) is not None and not st.orelse \
                        and any(isinstance(x, ast.Assign) and any(isinstance(t, ast.Name) and t.id == name for t in x.targets) for x in st.body):
                    return True
    return False
